package tchannel_test

import (
	"testing"
	"time"

	. "github.com/uber/tchannel-go"
	"github.com/uber/tchannel-go/raw"
	"github.com/uber/tchannel-go/testutils"
	"golang.org/x/net/context"
)

// A handler that answers with a system error while its channel is closing
// gracefully and its call is the last one in flight: the caller must get that
// system error.
func TestD18SystemErrorWhileClosing(t *testing.T) {
	for i := 0; i < 20; i++ {
		func() {
			opts := testutils.NewOpts().DisableLogVerification()
			server := testutils.NewServer(t, opts)
			defer server.Close()
			started := make(chan struct{})
			release := make(chan struct{})
			server.Register(HandlerFunc(func(ctx context.Context, call *InboundCall) {
				close(started)
				<-release
				call.Response().SendSystemError(ErrServerBusy)
			}), "busy")

			client := testutils.NewClient(t, opts)
			defer client.Close()

			errC := make(chan error, 1)
			go func() {
				ctx, cancel := NewContextBuilder(5 * time.Second).DisableTracing().SetRetryOptions(&RetryOptions{RetryOn: RetryNever}).Build()
				defer cancel()
				_, _, _, err := raw.Call(ctx, client, server.PeerInfo().HostPort, server.ServiceName(), "busy", nil, nil)
				errC <- err
			}()
			<-started
			server.Close() // graceful close: the call is in flight
			time.Sleep(20 * time.Millisecond)
			close(release)
			err := <-errC
			if GetSystemErrorCode(err) != ErrCodeBusy {
				t.Errorf("round %d: caller got %v (code %v), want the handler's ErrCodeBusy", i, err, GetSystemErrorCode(err))
			}
		}()
	}
}
