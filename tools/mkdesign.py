#!/usr/bin/env python3
"""Regenerates the generated part of DESIGN.md (between the GENERATED markers):
per-property rule list (from evidence), self-test fault table (sa/mutants),
behaviour-preserving variants, and the independent seeded changes (seeded/*)."""
import json, glob, os, re
ROOT = os.path.dirname(os.path.dirname(os.path.abspath(__file__)))
out = []
w = out.append
w("### 11.6 Rules per property as built (from the evidence of the last run)\n")
for f in sorted(glob.glob(os.path.join(ROOT, "evidence", "C*.json"))):
    d = json.load(open(f)); c = d["coverage"]
    w("**%s** — %d obligations, %d distinct non-trivial, %d known findings\n" % (d["property_id"], c["obligations"], c["distinct_nontrivial"], c["known_findings"]))
    for r in c["rules"]:
        w("* `%s` (%s, %d instances, floor %d): %s" % (r["rule"], r["engine"], r["instances"], r["floor"], r["doc"]))
    w("")
w("### 11.7 Self-test faults: which rule catches which change\n")
w("Each line is one fault of `sa/mutants/cNN.json`: a textual edit applied to a scratch copy of the current tree that must still build (`go build ./...`), after which the named rule must report a violation (`tools/mutants.py`; also run inside the thorough tier). Every property also has an entry that requires the unmutated copy to be silent.\n")
tot = 0
for f in sorted(glob.glob(os.path.join(ROOT, "sa", "mutants", "c[0-9][0-9].json"))):
    ms = json.load(open(f))
    pid = ms[0]["property"]
    w("**%s**\n" % pid)
    for m in ms:
        if m.get("expect") == "silent":
            continue
        tot += 1
        w("* %s → `%s`" % (m["name"], m.get("rule", "?")))
    w("")
w("Total: %d faults, all detected by the named rule on the last run.\n" % tot)
w("### 11.8 Behaviour-preserving variants (every check must stay silent)\n")
for m in json.load(open(os.path.join(ROOT, "sa", "mutants", "neutral.json"))):
    extra = ""
    if m.get("undecided_ok"):
        extra = " — *cannot decide (exit 2), anchor renamed*"
    if m.get("allow"):
        extra = " — *a listed known finding moves with the code and is reported at its new site*"
    w("* " + m["name"].replace("neutral: ", "").replace("neutral (", "(") + extra)
w("")
w("### 11.9 Independent seeded changes (`/verif/seeded/<id>/`)\n")
w("Written by fresh sub-agents that saw only the property text and a scratch worktree; each kept change was confirmed here (patch applies and builds, demonstration fails with it and passes without it, pinned suite still passes with it) and then applied to /repo, checked, and undone. `first run` = result of the checks as they stood before the change was seen.\n")
w("| id | change | needs to manifest | caught by (now) | first run |")
w("|---|---|---|---|---|")
first = {}
fp = os.path.join(ROOT, "seeded", "FIRST_RUN.json")
if os.path.exists(fp):
    first = json.load(open(fp))
for d in sorted(glob.glob(os.path.join(ROOT, "seeded", "C*"))):
    mp = os.path.join(d, "meta.json")
    if not os.path.exists(mp):
        continue
    m = json.load(open(mp))
    sid = os.path.basename(d)
    files = sorted(set(re.findall(r"^\+\+\+ b/(\S+)", open(os.path.join(d, "patch.diff")).read(), re.M)))
    rules = []
    for pid, v in sorted(m.get("checks_fired", {}).items()):
        rs = sorted(set(re.findall(r"rule (C\d\d-[A-Z0-9]+)", " ".join(v["reports"]))))
        rules.append(", ".join(rs) if rs else "%s exit %d" % (pid, v["exit"]))
    w("| %s | %s%s | %s | %s | %s |" % (sid, ", ".join(files), (": " + m["summary"]) if m.get("summary") else "", m.get("needs_to_manifest", ""), "; ".join(rules) or "MISSED", first.get(sid, "")))
w("")
p = os.path.join(ROOT, "DESIGN.md")
s = open(p).read()
a, b = "<!-- BEGIN GENERATED -->", "<!-- END GENERATED -->"
if a in s:
    s = s[:s.index(a) + len(a)] + "\n" + "\n".join(out) + "\n" + s[s.index(b):]
else:
    s += "\n" + a + "\n" + "\n".join(out) + "\n" + b + "\n"
open(p, "w").write(s)
print("DESIGN.md generated part: %d lines" % len(out))
