#!/usr/bin/env python3
"""Runs the repository's test suite (all packages except thrift/thrift-gen, whose
TestAllThrift hangs in this sandbox and is not part of the stable baseline) and
compares the passing tests with BASELINE.json's stable_pass list."""
import json, subprocess, sys, os
repo = sys.argv[1] if len(sys.argv) > 1 else "/repo"
env = dict(os.environ, GOFLAGS="-mod=mod", GOPROXY="off", GOSUMDB="off", GOTOOLCHAIN="local")
env.pop("GOWORK", None)
pk = subprocess.run(["go", "list", "./..."], cwd=repo, env=env, capture_output=True, text=True).stdout.split()
pk = [p for p in pk if not p.endswith("thrift/thrift-gen")]
out = subprocess.run(["go", "test", "-json", "-vet=off", "-count=1", "-timeout", "25m"] + pk, cwd=repo, env=env, capture_output=True, text=True)
passed, failed = set(), set()
for line in out.stdout.splitlines():
    try:
        ev = json.loads(line)
    except Exception:
        continue
    if ev.get("Test") and ev.get("Action") in ("pass", "fail"):
        name = ev["Package"] + "::" + ev["Test"]
        (passed if ev["Action"] == "pass" else failed).add(name)
b = json.load(open("/root/.vp/BASELINE.json"))
stable = set(b["stable_pass"])
missing = sorted(stable - passed)
print("passed=%d failed=%d stable=%d missing_from_stable=%d" % (len(passed), len(failed), len(stable), len(missing)))
for m in missing[:40]:
    print("  MISSING", m, "(FAILED)" if m in failed else "")
for f in sorted(failed)[:40]:
    print("  FAILED", f)
sys.exit(1 if missing else 0)
