#!/usr/bin/env python3
"""Adds every kept seeded change (seeded/<id>/) that sa/mutants/seeded.json does not list yet,
with the first rule of its own property's check that reported it (from meta.json)."""
import glob, json, os, re
ROOT = os.path.dirname(os.path.dirname(os.path.abspath(__file__)))
p = os.path.join(ROOT, "sa/mutants/seeded.json")
d = json.load(open(p))
have = {e["patch"] for e in d}
for m in sorted(glob.glob(os.path.join(ROOT, "seeded/C??-?/meta.json"))):
    sid = os.path.basename(os.path.dirname(m))
    patch = "seeded/%s/patch.diff" % sid
    if patch in have:
        continue
    meta = json.load(open(m))
    prop = meta["property"]
    reps = meta.get("checks_fired", {}).get(prop, {}).get("reports", [])
    rule = ""
    for r in reps:
        mm = re.search(r"rule (C\d\d-[A-Z0-9]+)", r)
        if mm:
            rule = mm.group(1)
            break
    if not rule:
        print("NOT ADDED (own check did not report):", sid)
        continue
    d.append({"property": prop, "name": "seeded %s (independent change, %s)" % (sid, patch), "rule": rule, "patch": patch})
    print("added", sid, rule)
d.sort(key=lambda e: e["patch"])
json.dump(d, open(p, "w"), indent=1)
