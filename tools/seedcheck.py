#!/usr/bin/env python3
"""Confirms a sub-agent's seeded change and runs the checks against it.

usage: seedcheck.py <seed-dir> <property> [--demo-dir DIR] [--race] [--no-suite] [--keep-as ID]

<seed-dir> holds patch.diff, *_test.go (the demonstration) and notes.md.
Steps: (1) in a scratch worktree under /tmp: the patch applies and builds; the
demonstration fails with it and passes without it; the pinned suite still
passes with it. (2) the patch is applied to /repo, every check is run, and the
patch is undone straight afterwards. With --keep-as the seed is copied to
/verif/seeded/<ID>/ with a meta.json recording all of this.
"""
import argparse, glob, json, os, re, shutil, subprocess, sys, time

ROOT = os.path.dirname(os.path.dirname(os.path.abspath(__file__)))
ENV = dict(os.environ, GOFLAGS="-mod=mod", GOPROXY="off", GOSUMDB="off", GOTOOLCHAIN="local")
ENV.pop("GOWORK", None)
WT = "/tmp/seedconf-wt"


def sh(cmd, cwd=None, timeout=1800):
    p = subprocess.run(cmd, cwd=cwd, env=ENV, capture_output=True, timeout=timeout)
    return p.returncode, p.stdout.decode("utf-8", "replace") + p.stderr.decode("utf-8", "replace")


def main():
    ap = argparse.ArgumentParser()
    ap.add_argument("seed")
    ap.add_argument("prop")
    ap.add_argument("--demo-dir", default=".")
    ap.add_argument("--race", action="store_true")
    ap.add_argument("--no-suite", action="store_true")
    ap.add_argument("--no-confirm", action="store_true")
    ap.add_argument("--keep-as", default="")
    ap.add_argument("--needs", default="")
    ap.add_argument("--refresh", default="", help="ID under /verif/seeded: re-run only the checks against the kept patch and update its meta.json")
    ap.add_argument("--scratch", action="store_true", help="run the checks on a scratch copy (TCHK_REPO) instead of applying the patch to /repo (used while /repo is busy)")
    ap.add_argument("--from-log", default="", help="take the confirmation results from the log this tool wrote in an earlier run of the same seed (the checks are re-run)")
    a = ap.parse_args()
    if a.refresh:
        a.seed = os.path.join(ROOT, "seeded", a.refresh)
        a.no_confirm = True
    patch = os.path.join(a.seed, "patch.diff")
    demos = sorted(glob.glob(os.path.join(a.seed, "*_test.go")))
    meta = {"property": a.prop, "source": "independent sub-agent given only the property text", "ran": []}
    tests = []
    for d in demos:
        tests += re.findall(r"^func (Test\w+)\(", open(d).read(), re.M)
    runre = "^(" + "|".join(tests) + ")$"
    if a.from_log:
        # the confirmation was run earlier by this tool (same seed directory);
        # its results are read back from the log it printed
        log = open(a.from_log, errors="replace").read()
        m1 = re.search(r"^demo with change: exit (\d+)", log, re.M)
        m2 = re.search(r"^demo without change: exit (\d+)", log, re.M)
        m3 = re.search(r"^suite with change: (.*) exit (\d+)$", log, re.M)
        assert m1 and m2 and m3, "log lacks the confirmation lines"
        pkgdir = {"tchannel": ".", "tchannel_test": ".", "thrift": "thrift", "thrift_test": "thrift", "json": "json", "json_test": "json",
                  "http": "http", "http_test": "http", "typed": "typed", "typed_test": "typed", "argreader": "internal/argreader", "relay": "relay", "relay_test": "relay", "arg2": "thrift/arg2", "arg2_test": "thrift/arg2"}
        bydir = {}
        for d in demos:
            m = re.search(r"^package (\w+)", open(d).read(), re.M)
            bydir.setdefault(pkgdir.get(m.group(1) if m else "", "."), []).append(d)
        meta["ran"].append("git apply patch.diff && go build ./... : ok")
        for label, mm in (("with the change", m1), ("without the change", m2)):
            for sub, files in sorted(bydir.items()):
                ts = []
                for d in files:
                    ts += re.findall(r"^func (Test\w+)\(", open(d).read(), re.M)
                cmd = ["go", "test", "-count=1", "-timeout", "240s", "-run", "^(" + "|".join(ts) + ")$"] + (["-race"] if a.race else []) + ["."]
                meta["ran"].append("%s (in %s) %s: overall exit %s" % (" ".join(cmd), sub, label, mm.group(1)))
        meta["ran"].append("pinned suite (tools/baseline_check.py) with the change: " + m3.group(1))
        meta["demo_dirs"] = sorted(bydir)
        meta["demo_fails_with_change"] = m1.group(1) != "0"
        meta["demo_passes_without_change"] = m2.group(1) == "0"
        meta["suite_passes_with_change"] = m3.group(2) == "0"
        assert meta["demo_fails_with_change"] and meta["demo_passes_without_change"] and meta["suite_passes_with_change"], "the logged confirmation was not clean"
        a.no_confirm = True
    if not a.no_confirm:
        if os.path.isdir(WT):
            sh(["git", "-C", "/repo", "worktree", "remove", "--force", WT])
        rc, out = sh(["git", "-C", "/repo", "worktree", "add", "--detach", WT, "HEAD"])
        assert rc == 0, out
        try:
            rc, out = sh(["git", "apply", os.path.abspath(patch)], cwd=WT)
            assert rc == 0, "patch does not apply: " + out
            rc, out = sh(["go", "build", "./..."], cwd=WT)
            assert rc == 0, "does not build: " + out
            meta["ran"].append("git apply patch.diff && go build ./... : ok")
            pkgdir = {"tchannel": ".", "tchannel_test": ".", "thrift": "thrift", "thrift_test": "thrift", "json": "json", "json_test": "json",
                      "http": "http", "http_test": "http", "typed": "typed", "typed_test": "typed", "argreader": "internal/argreader", "relay": "relay", "relay_test": "relay", "arg2": "thrift/arg2", "arg2_test": "thrift/arg2"}
            bydir = {}
            for d in demos:
                m = re.search(r"^package (\w+)", open(d).read(), re.M)
                sub = pkgdir.get(m.group(1) if m else "", a.demo_dir) if a.demo_dir == "." else a.demo_dir
                bydir.setdefault(sub, []).append(d)
                os.makedirs(os.path.join(WT, sub), exist_ok=True)
                shutil.copy(d, os.path.join(WT, sub))
            meta["demo_dirs"] = sorted(bydir)

            def run_demos(label):
                worst, outs = 0, []
                for sub, files in sorted(bydir.items()):
                    ts = []
                    for d in files:
                        ts += re.findall(r"^func (Test\w+)\(", open(d).read(), re.M)
                    cmd = ["go", "test", "-count=1", "-timeout", "240s", "-run", "^(" + "|".join(ts) + ")$"] + (["-race"] if a.race else []) + ["."]
                    rc, out = sh(cmd, cwd=os.path.join(WT, sub))
                    meta["ran"].append("%s (in %s) %s: exit %d" % (" ".join(cmd), sub, label, rc))
                    worst = max(worst, 1 if rc != 0 else 0)
                    outs.append(out)
                return worst, "\n".join(outs)
            rc1, out1 = run_demos("with the change")
            print("demo with change: exit", rc1)
            print("\n".join(out1.splitlines()[-12:]))
            sh(["git", "apply", "-R", os.path.abspath(patch)], cwd=WT)
            rc2, out2 = run_demos("without the change")
            print("demo without change: exit", rc2)
            if rc2 != 0:
                print("\n".join(out2.splitlines()[-12:]))
            meta["demo_fails_with_change"] = rc1 != 0
            meta["demo_passes_without_change"] = rc2 == 0
            for sub, files in bydir.items():
                for d in files:
                    os.remove(os.path.join(WT, sub, os.path.basename(d)))
            if not a.no_suite:
                sh(["git", "apply", os.path.abspath(patch)], cwd=WT)
                rc3, out3 = sh(["python3", os.path.join(ROOT, "tools", "baseline_check.py"), WT])
                print("suite with change:", out3.strip().splitlines()[0] if out3.strip() else "", "exit", rc3)
                print("\n".join(out3.splitlines()[1:8]))
                meta["ran"].append("pinned suite (tools/baseline_check.py) with the change: " + (out3.strip().splitlines()[0] if out3.strip() else "?"))
                meta["suite_passes_with_change"] = rc3 == 0
        finally:
            sh(["git", "-C", "/repo", "worktree", "remove", "--force", WT])
    if a.scratch:
        import tempfile
        tmp = tempfile.mkdtemp(prefix="seed-det-")
        try:
            sh(["sh", "-c", "git -C /repo archive HEAD | tar -x -C " + tmp])
            rc, out = sh(["patch", "-p1", "-s", "-i", os.path.abspath(patch)], cwd=tmp)
            assert rc == 0, out
            fired = {}
            for i in range(1, 21):
                pid = "C%02d" % i
                env = dict(ENV, TCHK_REPO=tmp)
                pr = subprocess.run([os.path.join(ROOT, "bin", "tchk"), "-property", pid, "-tier", "quick", "-no-evidence"], env=env, capture_output=True, text=True)
                if pr.returncode != 0:
                    lines = [l.strip().replace(tmp + "/", "") for l in (pr.stdout + pr.stderr).splitlines() if (": rule " in l and not l.startswith("KNOWN")) or l.startswith("ERROR")]
                    fired[pid] = {"exit": pr.returncode, "reports": lines[:8]}
            print("checks fired:", json.dumps(fired, indent=1))
            if a.refresh:
                mp = os.path.join(a.seed, "meta.json")
                meta = json.load(open(mp))
                meta["checks_fired"] = fired
                meta["detected_by_own_property"] = a.prop in fired and fired[a.prop]["exit"] == 1
                meta["checks_fired_note"] = "re-run with the final checker on a scratch copy of /repo HEAD with the patch applied (the confirmation run applied the patch to /repo itself)"
                json.dump(meta, open(mp, "w"), indent=1)
                print("refreshed", a.refresh, sorted(fired), "own:", meta["detected_by_own_property"])
                return
        finally:
            shutil.rmtree(tmp, ignore_errors=True)
        if a.keep_as:
            meta["checks_fired"] = fired
            meta["detected_by_own_property"] = a.prop in fired and fired[a.prop]["exit"] == 1
            meta["checks_fired_note"] = "the checks were run on a scratch copy of /repo HEAD with the patch applied"
            dst = os.path.join(ROOT, "seeded", a.keep_as)
            os.makedirs(dst, exist_ok=True)
            for f in [patch] + demos + glob.glob(os.path.join(a.seed, "notes.md")):
                shutil.copy(f, dst)
            meta["needs_to_manifest"] = a.needs
            meta["demo_dir"] = a.demo_dir
            meta["demo_tests"] = tests
            json.dump(meta, open(os.path.join(dst, "meta.json"), "w"), indent=1)
            print("kept as", dst)
        return
    # detection
    rc, out = sh(["git", "-C", "/repo", "status", "--porcelain"])
    assert out.strip() == "", "/repo not clean: " + out
    rc, out = sh(["git", "-C", "/repo", "apply", os.path.abspath(patch)])
    assert rc == 0, out
    fired = {}
    try:
        for i in range(1, 21):
            pid = "C%02d" % i
            rc, out = sh([os.path.join(ROOT, "bin", "tchk"), "-property", pid, "-tier", "quick", "-no-evidence"])
            if rc != 0:
                lines = [l.strip() for l in out.splitlines() if (": rule " in l and not l.startswith("KNOWN")) or l.startswith("ERROR")]
                fired[pid] = {"exit": rc, "reports": lines[:8]}
    finally:
        sh(["git", "-C", "/repo", "checkout", "--", "."])
        shutil.rmtree(os.path.join(ROOT, "evidence", "violations"), ignore_errors=True)
    if a.refresh:
        mp = os.path.join(a.seed, "meta.json")
        meta = json.load(open(mp))
        meta["checks_fired"] = fired
        meta["detected_by_own_property"] = a.prop in fired and fired[a.prop]["exit"] == 1
        json.dump(meta, open(mp, "w"), indent=1)
        print("refreshed", a.refresh, sorted(fired), "own:", meta["detected_by_own_property"])
        return
    meta["checks_fired"] = fired
    meta["detected_by_own_property"] = a.prop in fired and fired[a.prop]["exit"] == 1
    print("checks fired:", json.dumps(fired, indent=1))
    if a.keep_as:
        dst = os.path.join(ROOT, "seeded", a.keep_as)
        os.makedirs(dst, exist_ok=True)
        for f in [patch] + demos + glob.glob(os.path.join(a.seed, "notes.md")):
            shutil.copy(f, dst)
        meta["needs_to_manifest"] = a.needs
        meta["demo_dir"] = a.demo_dir
        meta["demo_tests"] = tests
        json.dump(meta, open(os.path.join(dst, "meta.json"), "w"), indent=1)
        print("kept as", dst)


if __name__ == "__main__":
    main()
