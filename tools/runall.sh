#!/bin/sh
# Runs every claimed check (quick tier) and prints one status line per property.
cd /verif || exit 2
rc=0
for i in 01 02 03 04 05 06 07 08 09 10 11 12 13 14 15 16 17 18 19 20; do
  out=$(bin/tchk -property C$i -tier "${1:-quick}" 2>&1); code=$?
  echo "$out" | grep "^property=" | sed "s/^/exit=$code /"
  if [ $code -ne 0 ]; then rc=1; echo "$out" | grep "VIOLATION\|ERROR" | head -5; fi
done
exit $rc
