#!/usr/bin/env python3
"""Self-test of the checker: applies each mutant (a textual replacement that
still compiles) to a scratch copy of /repo and requires the named property's
check to report a VIOLATION naming the expected rule; the unmutated copy must
be silent. Scratch copies live under $TMPDIR and are removed after use.

usage: mutants.py [-p C07] [-j 8] [-k substring]
"""
import argparse, json, os, shutil, subprocess, sys, tempfile, concurrent.futures as cf

HERE = os.path.dirname(os.path.abspath(__file__))
ROOT = os.path.dirname(HERE)
REPO = os.environ.get("TCHK_REPO", "/repo")
TCHK = os.path.join(ROOT, "bin", "tchk")


def load():
    ms = []
    d = os.path.join(ROOT, "sa", "mutants")
    for fn in sorted(os.listdir(d)):
        if fn.endswith(".json"):
            for m in json.load(open(os.path.join(d, fn))):
                ms.append(m)
    return ms


def run(m):
    tmp = tempfile.mkdtemp(prefix="tchk-mut-")
    try:
        dst = os.path.join(tmp, "repo")
        subprocess.run(["rsync", "-a", "--exclude", ".git", REPO + "/", dst + "/"], check=True)
        if m.get("patch"):
            pf = os.path.join(ROOT, m["patch"])
            if not os.path.exists(pf):
                return m, "STALE", "patch file missing: " + m["patch"]
            pr = subprocess.run(["patch", "-p1", "-s", "--no-backup-if-mismatch", "-i", pf], cwd=dst, capture_output=True, text=True)
            if pr.returncode != 0:
                return m, "STALE", "patch does not apply: " + (pr.stdout + pr.stderr)[-300:]
        for ed in m.get("edits", []):
            path = os.path.join(dst, ed["file"])
            s = open(path).read()
            if s.count(ed["old"]) < 1:
                return m, "STALE", "pattern not found in %s: %r" % (ed["file"], ed["old"][:60])
            s = s.replace(ed["old"], ed["new"], 1 if not ed.get("all") else -1)
            open(path, "w").write(s)
        env = dict(os.environ, TCHK_REPO=dst, GOFLAGS="-mod=mod", GOPROXY="off", GOSUMDB="off", GOTOOLCHAIN="local")
        env.pop("GOWORK", None)
        if m.get("build_check", True):
            b = subprocess.run(["go", "build", "./..."], cwd=dst, env=env, capture_output=True, text=True)
            if b.returncode != 0:
                return m, "NOBUILD", b.stderr[-400:]
        if m["property"] == "ALL":
            # behaviour-preserving variant: every check must stay silent (exit 0)
            bad, soft = [], []
            for i in range(1, 21):
                pid = "C%02d" % i
                o = subprocess.run([TCHK, "-property", pid, "-tier", "quick", "-no-evidence"], env=env, capture_output=True, text=True)
                if o.returncode != 0 or "VIOLATION" in o.stdout:
                    lines = [l for l in (o.stdout + o.stderr).splitlines() if l.startswith("ERROR") or (": rule " in l and not l.startswith("KNOWN"))]
                    msg = "%s exit=%d\n      %s" % (pid, o.returncode, "\n      ".join(lines[:6]))
                    if o.returncode == 2 and "VIOLATION" not in o.stdout and m.get("undecided_ok"):
                        soft.append(msg)  # renamed anchor: 'cannot decide', no alarm
                    elif o.returncode == 1 and m.get("allow") and all(any(("rule " + a) in l for a in m["allow"]) for l in lines if ": rule " in l):
                        soft.append(msg)  # a listed known finding moved with the code
                    else:
                        bad.append(msg)
            if bad:
                if m.get("residual"):
                    return m, "OK", ""  # listed limitation (see DESIGN 11.5); kept so that it is re-measured on every run
                return m, "FALSE-ALARM", "\n".join(bad)
            if m.get("residual"):
                return m, "FALSE-ALARM", "listed as a residual limitation but every check is silent now: remove the 'residual' mark"
            return m, "OK", ""
        out = subprocess.run([TCHK, "-property", m["property"], "-tier", "quick", "-no-evidence"], env=env, capture_output=True, text=True)
        text = out.stdout + out.stderr
        want = m.get("rule", "")
        if m.get("expect", "violation") == "silent":
            ok = out.returncode == 0 and "VIOLATION" not in text
            return m, "OK" if ok else "FALSE-ALARM", text[-600:] if not ok else ""
        fired = out.returncode == 1 and "VIOLATION property=%s" % m["property"] in text
        named = (not want) or any(("rule " + want) in l for l in text.splitlines())
        if fired and named:
            return m, "OK", ""
        if fired:
            return m, "WRONG-RULE", "\n".join(l for l in text.splitlines() if "rule " in l and ":" in l)[-600:]
        return m, "MISSED", text[-600:]
    finally:
        shutil.rmtree(tmp, ignore_errors=True)


def main():
    ap = argparse.ArgumentParser()
    ap.add_argument("-p", default="")
    ap.add_argument("-k", default="")
    ap.add_argument("-j", type=int, default=8)
    ap.add_argument("--json", action="store_true", help="print one JSON summary instead of lines")
    a = ap.parse_args()
    ms = [m for m in load() if (not a.p or m["property"] == a.p) and a.k in m["name"]]
    bad = 0
    if a.json:
        res = {"faults": len(ms), "detected_by_named_rule": 0, "silent_on_unmutated_copy": 0, "not_applicable_to_this_tree": [], "not_detected": []}
        with cf.ThreadPoolExecutor(max_workers=a.j) as ex:
            for m, st, info in ex.map(run, ms):
                if st == "OK" and m.get("expect", "violation") == "silent":
                    res["silent_on_unmutated_copy"] += 1
                elif st == "OK":
                    res["detected_by_named_rule"] += 1
                elif st in ("STALE", "NOBUILD"):
                    res["not_applicable_to_this_tree"].append(m["name"])
                else:
                    res["not_detected"].append(m["name"] + ": " + st)
        res["method"] = "each fault is a textual edit applied to a scratch copy of the current tree that must still build; the property's rules are re-run on the copy (static analysis only) and the named rule must report it"
        print(json.dumps(res))
        sys.exit(0)
    with cf.ThreadPoolExecutor(max_workers=a.j) as ex:
        for m, st, info in ex.map(run, ms):
            print("%-11s %s %-55s %s" % (st, m["property"], m["name"], m.get("rule", "")))
            if st != "OK":
                bad += 1
                print("    " + info.replace("\n", "\n    "))
    print("mutants: %d run, %d not OK" % (len(ms), bad))
    sys.exit(1 if bad else 0)


if __name__ == "__main__":
    main()
