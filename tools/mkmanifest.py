#!/usr/bin/env python3
"""Regenerates /verif/MANIFEST.json from the table in tools/claims.json (kept by hand)."""
import json, os
here = os.path.dirname(os.path.abspath(__file__))
root = os.path.dirname(here)
claims = json.load(open(os.path.join(here, 'claims.json')))
props = [json.loads(l)['id'] for l in open(os.path.join(root, 'properties.jsonl'))]
checks = []
na = []
for pid in props:
    c = claims.get(pid)
    if not c or c.get('na'):
        na.append({"property_id": pid, "reason": (c or {}).get('na', "check not built yet (see DESIGN.md section 5 for the planned structural rules)")})
        continue
    checks.append({
        "property_id": pid,
        "quick_cmd": "/verif/bin/tchk -property %s -tier quick" % pid,
        "thorough_cmd": "/verif/bin/tchk -property %s -tier thorough" % pid,
        "evidence_file": "/verif/evidence/%s.json" % pid,
        "replay_cmd_template": "/verif/bin/tchk -property %s -explain {path}" % pid,
        "engine": c["engine"],
        "level_claimed": {"category": "other", "text": c["text"], "design_ref": "DESIGN.md section 5, " + pid},
        "level_note": c["note"],
        "technique": c["technique"],
    })
m = {
    "version": 1,
    "setup_cmd": "cd /verif/sa && GOFLAGS=-mod=mod GOPROXY=off GOSUMDB=off GOTOOLCHAIN=local GOWORK=off go build -o /verif/bin/tchk ./cmd/tchk",
    "hooks": {"guard": "verif", "enable": "none needed: the checker reads /repo's source (go/packages + go/ssa); no hooks are compiled into tchannel-go",
              "baseline_off_cmd": "cd /repo && go test -vet=off -count=1 -timeout 25m ./...", "source_commits": [], "add_only": True},
    "engines": [
        {"name": "tchk", "path": "/verif/sa", "serves_properties": [c["property_id"] for c in checks],
         "kind_free_text": "repository-specific static analyser over go/packages + go/ssa (x/tools v0.29.0): finite-enum abstract interpretation, lockset, path/guard queries, taint/range, wire-layout extraction, ownership typestate"}],
    "checks": checks,
    "notes": "Static analysis only; every claim is level 'other' and decides named structural necessary conditions, not the behaviour. See DESIGN.md. Known findings and repaired defects: KNOWN_FINDINGS.jsonl.",
    "not_applicable": na,
}
json.dump(m, open(os.path.join(root, 'MANIFEST.json'), 'w'), indent=1)
print("checks:", len(checks), "not_applicable:", len(na))
