package rules

import (
	"fmt"
	"go/token"
	"sort"
	"strings"

	"golang.org/x/tools/go/ssa"

	"verif/sa/core"
)

func init() { Registry["C13"] = c13 }

func c13(p *core.Prog, r *core.Report) {
	r.Explain = "Decides the acceptance predicate of both handshakes as guard dominance on the construction of the connection: (R1) inbound: newConnection is dominated by a successful read of an init request (readMessage compares the frame's type with the expected message's type and fails otherwise), version >= 2, parseRemotePeer success (which requires host_port and process_name) and a successful write of the init response; outbound: successful write, successful read, response id == request id, version == 2, parseRemotePeer success; (R2) the failure path is registered (deferred) before any return and writes an error frame and closes the socket whenever the handshake error is non-nil; (R3) connections are registered with the channel and with peers only on the activation path that starts in newConnection (plus the dialled-peer add after a non-nil handshake result); (R4) the handshake deadline precedes all I/O and defaults to 5 s; (R5) an ephemeral announced host:port is replaced by the socket address and flagged, with the documented ephemeral forms. (R6) handshake frames are decoded within their declared size (shared with C06). The deferred failure handler runs initError on every path; the init decoders report truncation. parseRemotePeer is given the connection's RemoteAddr() at every call site."
	r.NotDecided = "timing of silence past the deadline; behaviour at each truncation point of the first frame (bounds are C03/C06)."
	r.Rule("C13-R1", "E6 guards", 10, "connection constructed only under the full acceptance predicate")
	r.Rule("C13-R2", "E6 paths", 4, "failure path: error frame + socket close whenever the handshake fails")
	r.Rule("C13-R3", "E6 who-may-call", 4, "registration only from activation")
	r.Rule("C13-R4", "E6 ordering", 3, "handshake bounded by a deadline")
	r.Rule("C13-R5", "E6 guards", 2, "ephemeral peers identified by socket address")
	// a truncated init frame must fail the handshake: the frame decoders look
	// only at bytes inside the declared size (shared with C06-R4)
	r.Rule("C13-R6", "E6 census/guards", 2, "handshake frames are decoded within their declared size (shared with C06)")
	r.Alias("C06-R4", "C13-R6")
	r.Filter = func(o core.Obligation) bool {
		return o.Function == "(*Frame).read" || o.Function == "(*Frame).SizedPayload" || o.Function == "(*Frame).ReadBody"
	}
	c06Inside(p, r)
	r.Filter = nil
	r.Alias("C06-R4", "")
	seenRd := map[*ssa.Function]bool{}
	for _, tn := range []string{"initMessage", "initReq", "initRes"} {
		if f := p.Func("", tn, "read"); f != nil && !seenRd[f] {
			seenRd[f] = true
			readReportsTruncation(p, r, f, "C13-R6")
		}
	}

	cur, _ := constVal(p, "CurrentProtocolVersion")
	versionF := p.Field("", "initMessage", "Version")
	isVersion := func(v ssa.Value) bool { return core.LoadedField(v) == versionF }
	errOf := func(key string) func(ssa.Value) bool {
		return func(v ssa.Value) bool { return callResult(v, key) != nil }
	}
	type req struct {
		name string
		ok   func(f facts, fn *ssa.Function) bool
	}
	inbound := []req{
		{"init request read successfully", func(f facts, _ *ssa.Function) bool { return f.nilCmp(errOf("Channel.readMessage"), true) }},
		{"version >= CurrentProtocolVersion", func(f facts, _ *ssa.Function) bool {
			return f.hasCmp(isVersion, []token.Token{token.GEQ}, cur) || f.hasCmp(isVersion, []token.Token{token.GTR}, cur-1) || f.hasCmp(isVersion, []token.Token{token.EQL}, cur)
		}},
		{"host_port and process_name present (parseRemotePeer ok)", func(f facts, _ *ssa.Function) bool { return f.nilCmp(errOf("parseRemotePeer"), true) }},
		{"init response written successfully", func(f facts, _ *ssa.Function) bool { return f.nilCmp(errOf("Channel.writeMessage"), true) }},
	}
	outbound := []req{
		{"init request written successfully", func(f facts, _ *ssa.Function) bool { return f.nilCmp(errOf("Channel.writeMessage"), true) }},
		{"init response read successfully", func(f facts, _ *ssa.Function) bool { return f.nilCmp(errOf("Channel.readMessage"), true) }},
		{"response id == request id", func(f facts, _ *ssa.Function) bool {
			for _, c := range f.cmps {
				if c.Op != token.EQL {
					continue
				}
				a, b := c.X, c.Y
				isRespID := func(v ssa.Value) bool {
					e, ok := v.(*ssa.Extract)
					return ok && e.Index == 0 && callResult(e, "Channel.readMessage") != nil
				}
				isReqID := func(v ssa.Value) bool { fl := core.LoadedField(v); return fl != nil && fl.Name() == "id" }
				if (isRespID(a) && isReqID(b)) || (isRespID(b) && isReqID(a)) {
					return true
				}
			}
			return false
		}},
		{"version == CurrentProtocolVersion", func(f facts, _ *ssa.Function) bool { return f.hasCmp(isVersion, []token.Token{token.EQL}, cur) }},
		{"host_port and process_name present (parseRemotePeer ok)", func(f facts, _ *ssa.Function) bool { return f.nilCmp(errOf("parseRemotePeer"), true) }},
	}
	for _, side := range []struct {
		fn   string
		reqs []req
	}{{"inboundHandshake", inbound}, {"outboundHandshake", outbound}} {
		f := mustFunc(p, r, "", "Channel", side.fn)
		if f == nil {
			continue
		}
		ncs := core.CallsIn(f, "Channel.newConnection")
		if len(ncs) != 1 {
			r.Errorf("%s: expected one newConnection call, found %d", side.fn, len(ncs))
			continue
		}
		fs := factsAt(ncs[0].Block())
		for _, q := range side.reqs {
			r.Check(q.ok(fs, f), "C13-R1", fname(f), "newConnection requires: "+q.name, p.Pos(ncs[0].Pos()), "dominating guard present", "the connection can be constructed without this check")
		}
		// the message read is an init req / init res
		want := "initReq"
		if side.fn == "outboundHandshake" {
			want = "initRes"
		}
		okType := false
		for _, c := range core.CallsIn(f, "Channel.readMessage") {
			arg := core.CallArgs(c)[2]
			if strings.Contains(arg.Type().String(), want) || strings.Contains(core.Strip(arg).Type().String(), want) {
				okType = true
			}
		}
		r.Check(okType, "C13-R1", fname(f), "expects "+want, p.Pos(f.Pos()), "readMessage is given an "+want, "handshake does not expect an "+want)
		// R2: deferred initError before any return
		var def ssa.Instruction
		for _, a := range f.AnonFuncs {
			if len(core.CallsIn(a, "Channel.initError")) == 1 {
				core.EachInstr(f, func(i ssa.Instruction) {
					if d, ok := i.(*ssa.Defer); ok {
						if mc, ok := d.Call.Value.(*ssa.MakeClosure); ok && mc.Fn == ssa.Value(a) {
							def = i
						}
					}
				})
			}
		}
		okDef := def != nil && def.Block() == f.Blocks[0]
		r.Check(okDef, "C13-R2", fname(f), "deferred initError registered at entry", p.Pos(f.Pos()), "every return runs the failure handler", "a return can bypass the handshake failure handler")
		handshakeDeferOrder(p, r, f, def, "C13-R4")
		for _, a := range f.AnonFuncs {
			if len(core.CallsIn(a, "Channel.initError")) == 1 {
				r.Check(onEveryPath(a, "Channel.initError"), "C13-R2", fname(f), "the deferred failure handler always runs initError", p.Pos(a.Pos()), "no path of the deferred closure skips it", "some handshake failures skip the failure handler: no error frame is sent and the socket is not closed by the handshake")
			}
		}
		// R4
		var dl ssa.Instruction
		for _, c := range core.CallsIn(f, "setInitDeadline") {
			dl = c
		}
		okDl := dl != nil
		if okDl {
			for _, c := range core.CallsIn(f, "Channel.writeMessage", "Channel.readMessage") {
				if !before(dl, c) {
					okDl = false
				}
			}
		}
		r.Check(okDl, "C13-R4", fname(f), "deadline installed before handshake I/O", p.Pos(f.Pos()), "setInitDeadline first", "handshake I/O can start without a deadline")
	}
	// readMessage type test
	if f := mustFunc(p, r, "", "Channel", "readMessage"); f != nil {
		ok := false
		core.EachInstr(f, func(i ssa.Instruction) {
			ret, isRet := i.(*ssa.Return)
			if !isRet {
				return
			}
			rv := core.ReturnValues(ret)
			if len(rv) == 2 && callResult(rv[1], "Frame.read") != nil {
				fs := factsAt(ret.Block())
				for _, c := range fs.cmps {
					mt := func(v ssa.Value) bool { fl := core.LoadedField(v); return fl != nil && fl.Name() == "messageType" }
					exp := func(v ssa.Value) bool { return callResult(v, "message.messageType") != nil }
					if c.Op == token.EQL && ((mt(c.X) && exp(c.Y)) || (mt(c.Y) && exp(c.X))) {
						ok = true
					}
				}
			}
		})
		r.Check(ok, "C13-R1", fname(f), "frame type == expected message type before decoding", p.Pos(f.Pos()), "decode only under the type equality", "a frame of another type is decoded as the expected message")
	}
	// the socket address an ephemeral peer is re-identified by is the remote
	// end of the connection at every call site of parseRemotePeer
	nSites := 0
	for _, cs := range p.CallsTo("parseRemotePeer") {
		if !p.InAnalysed(cs.Fn) {
			continue
		}
		nSites++
		args := core.CallArgs(cs.Call)
		ok := false
		if len(args) == 2 {
			if c, isC := args[1].(*ssa.Call); isC && c.Call.IsInvoke() && c.Call.Method.Name() == "RemoteAddr" {
				ok = true
			}
		}
		r.Check(ok, "C13-R5", fname(cs.Fn), "parseRemotePeer is given the connection's RemoteAddr()", p.Pos(cs.Call.Pos()), "the socket address used for an ephemeral peer is the remote end",
			"an ephemeral peer would be identified by "+desc(args[len(args)-1])+" instead of the remote socket address")
	}
	if nSites < 2 {
		r.Errorf("expected parseRemotePeer to be called by both handshakes, found %d call sites", nSites)
	}
	// parseRemotePeer requires both params
	if f := mustFunc(p, r, "", "", "parseRemotePeer"); f != nil {
		need := map[string]bool{}
		core.EachInstr(f, func(i ssa.Instruction) {
			ret, isRet := i.(*ssa.Return)
			if !isRet {
				return
			}
			rv := core.ReturnValues(ret)
			if len(rv) != 3 || callResult(rv[2], "fmt.Errorf") == nil {
				return
			}
			// guarded by a failed comma-ok lookup of a constant key
			for _, b := range factsAt(ret.Block()).bools {
				if b.Pol {
					continue
				}
				if e, ok := b.V.(*ssa.Extract); ok && e.Index == 1 {
					if lk, ok := e.Tuple.(*ssa.Lookup); ok {
						if k, ok := lk.Index.(*ssa.Const); ok && k.Value != nil {
							need[strings.Trim(k.Value.ExactString(), "\"")] = true
						}
					}
				}
			}
		})
		var ks []string
		for k := range need {
			ks = append(ks, k)
		}
		sort.Strings(ks)
		r.Check(need["host_port"] && need["process_name"], "C13-R1", fname(f), "host_port and process_name are required", p.Pos(f.Pos()), "missing keys are errors: "+strings.Join(ks, ","), "required init params: "+strings.Join(ks, ","))
		// R5 ephemeral
		okEph := false
		hpF := p.Field("", "PeerInfo", "HostPort")
		ephF := p.Field("", "PeerInfo", "IsEphemeral")
		var hpStore, ephStore bool
		core.EachInstr(f, func(i ssa.Instruction) {
			st, ok := i.(*ssa.Store)
			if !ok {
				return
			}
			fs := factsAt(st.Block())
			guarded := fs.hasBool(func(v ssa.Value) bool { return callResult(v, "isEphemeralHostPort") != nil }, true)
			switch core.AddrField(st.Addr) {
			case hpF:
				if guarded && callResult(st.Val, "net.Addr.String") != nil {
					hpStore = true
				}
			case ephF:
				if b, isB := core.ConstBool(st.Val); isB && b && guarded {
					ephStore = true
				}
			}
		})
		okEph = hpStore && ephStore
		// the address components (ip, port, hostname used for the span's peer
		// tags) are parsed from the host:port after the substitution: every read
		// of PeerInfo.HostPort other than the ephemeral test's own argument comes
		// after that test
		var ephCall *ssa.Call
		core.EachInstr(f, func(i ssa.Instruction) {
			if c, ok := i.(*ssa.Call); ok && ephCall == nil {
				if o := core.CalleeObj(c); o != nil && o.Name() == "isEphemeralHostPort" {
					ephCall = c
				}
			}
		})
		if ephCall != nil {
			idx := func(i ssa.Instruction) int {
				for k, x := range i.Block().Instrs {
					if x == i {
						return k
					}
				}
				return -1
			}
			early, reads := "", 0
			core.EachInstr(f, func(i ssa.Instruction) {
				u, ok := i.(*ssa.UnOp)
				if !ok || u.Op != token.MUL || core.AddrField(u.X) != hpF {
					return
				}
				reads++
				onlyArg := true
				for _, ref := range *u.Referrers() {
					if ref != ssa.Instruction(ephCall) {
						onlyArg = false
					}
				}
				if onlyArg {
					return
				}
				after := ephCall.Block() == u.Block() && idx(ephCall) < idx(u) || ephCall.Block() != u.Block() && ephCall.Block().Dominates(u.Block())
				if !after {
					early = p.Pos(u.Pos())
				}
			})
			r.Check(early == "" && reads >= 2, "C13-R5", fname(f), "host:port is read for the address components only after the ephemeral substitution", p.Pos(f.Pos()), fmt.Sprintf("%d reads of PeerInfo.HostPort, all after isEphemeralHostPort or its argument", reads), "the announced host:port is read at "+early+" before the ephemeral test: an ephemeral peer's address components come from the value it claims, not from its socket")
		}
		r.Check(okEph, "C13-R5", fname(f), "ephemeral host:port -> socket address, IsEphemeral = true", p.Pos(f.Pos()), "both stores under isEphemeralHostPort(hostPort)", fmt.Sprintf("ephemeral peers are not re-identified (hostPort=%v flag=%v)", hpStore, ephStore))
	}
	if f := mustFunc(p, r, "", "", "isEphemeralHostPort"); f != nil {
		// "" | ephemeralHostPort | suffix ":0"
		forms := map[string]bool{}
		core.EachInstr(f, func(i ssa.Instruction) {
			switch x := i.(type) {
			case *ssa.BinOp:
				if x.Op == token.EQL {
					if k, ok := x.Y.(*ssa.Const); ok && k.Value != nil {
						forms[strings.Trim(k.Value.ExactString(), "\"")] = true
					}
				}
			case *ssa.Call:
				if o := core.CalleeObj(x); o != nil && core.FuncKey(o) == "strings.HasSuffix" {
					if k, ok := x.Call.Args[1].(*ssa.Const); ok && k.Value != nil {
						forms["suffix "+strings.Trim(k.Value.ExactString(), "\"")] = true
					}
				}
			}
		})
		ok := forms[""] && forms["0.0.0.0:0"] && forms["suffix :0"]
		var ks []string
		for k := range forms {
			ks = append(ks, "'"+k+"'")
		}
		sort.Strings(ks)
		r.Check(ok, "C13-R5", fname(f), "ephemeral forms: empty, 0.0.0.0:0, *:0", p.Pos(f.Pos()), strings.Join(ks, " "), "ephemeral forms recognised: "+strings.Join(ks, " "))
	}
	// R2 initError
	if f := mustFunc(p, r, "", "Channel", "initError"); f != nil {
		wm := core.CallsIn(f, "Channel.writeMessage")
		cl := core.CallsIn(f, "net.Conn.Close")
		okW := len(wm) == 1 && strings.Contains(core.Strip(core.CallArgs(wm[0])[2]).Type().String(), "errorMessage")
		// every path with err != nil passes both
		okPath := false
		if len(wm) == 1 && len(cl) == 1 {
			for _, b := range f.Blocks {
				fs := factsAt(b)
				if fs.nilCmp(func(v ssa.Value) bool { return v == ssa.Value(f.Params[4]) }, false) && len(b.Preds) == 1 {
					miss := core.ReachAvoiding(f, b.Instrs[0], core.IsReturn, func(i ssa.Instruction) bool { return i == ssa.Instruction(cl[0]) }, nil)
					miss2 := core.ReachAvoiding(f, b.Instrs[0], core.IsReturn, func(i ssa.Instruction) bool { return i == ssa.Instruction(wm[0]) }, nil)
					okPath = !miss.Found && !miss2.Found
					break
				}
			}
		}
		r.Check(okW && okPath, "C13-R2", fname(f), "err != nil -> error frame written and socket closed", p.Pos(f.Pos()), "both on every failing path", "a failed handshake can leave the socket open or send no error frame")
		// nil in -> nil out
		okNil := false
		core.EachInstr(f, func(i ssa.Instruction) {
			if ret, isRet := i.(*ssa.Return); isRet && core.IsNilConst(core.ReturnValues(ret)[0]) {
				if factsAt(ret.Block()).nilCmp(func(v ssa.Value) bool { return v == ssa.Value(f.Params[4]) }, true) {
					okNil = true
				}
			}
		})
		r.Check(okNil, "C13-R2", fname(f), "err == nil -> nothing done", p.Pos(f.Pos()), "success path untouched", "failure handler acts on successful handshakes")
	}
	// R3 who may register
	locks := p.ComputeLocks()
	connsF := p.Field("", "Channel", "mutable", "conns")
	addConn := p.Func("", "Channel", "addConnection")
	for _, a := range locks.AccessesOf(connsF) {
		if _, isUpd := a.Instr.(*ssa.MapUpdate); isUpd && !a.Fresh {
			r.Check(a.Fn == addConn, "C13-R3", fname(a.Fn), "insert into Channel.conns", p.Pos(a.Instr.Pos()), "only addConnection registers connections", "connections are registered outside addConnection")
		}
	}
	activation := map[string][]string{
		"Channel.addConnection":       {"connectionActive"},
		"Channel.connectionActive":    {"inboundConnectionActive", "outboundConnectionActive"},
		"Peer.addConnection":          {"addConnectionToPeer"},
		"Channel.addConnectionToPeer": {"connectionActive", "Connect"},
		"Connection.callOnActive":     {"newConnection"},
	}
	var keys []string
	for k := range activation {
		keys = append(keys, k)
	}
	sort.Strings(keys)
	for _, k := range keys {
		allowed := map[string]bool{}
		for _, a := range activation[k] {
			allowed[a] = true
		}
		var callers []string
		ok := true
		for _, cs := range p.CallsTo(k) {
			callers = append(callers, cs.Fn.Name())
			if !allowed[cs.Fn.Name()] {
				ok = false
			}
		}
		sort.Strings(callers)
		r.Check(ok && len(callers) > 0, "C13-R3", k, "called only on the activation path", "-", "callers: "+strings.Join(callers, ","), "called from: "+strings.Join(callers, ",")+" (allowed: "+strings.Join(activation[k], ",")+")")
	}
	// Connect adds to the dialled peer only for a non-nil connection
	if f := mustFunc(p, r, "", "Channel", "Connect"); f != nil {
		ok := false
		for _, c := range core.CallsIn(f, "Channel.addConnectionToPeer") {
			if factsAt(c.Block()).nilCmp(func(v ssa.Value) bool { return callResult(v, "Channel.outboundHandshake") != nil }, false) {
				ok = true
			}
		}
		r.Check(ok, "C13-R3", fname(f), "dialled-peer add only for a non-nil handshake result", p.Pos(f.Pos()), "guarded by conn != nil", "a failed handshake can register a connection with the dialled peer")
	}
	// R4 default 5s
	if f := mustFunc(p, r, "", "", "setInitDeadline"); f != nil {
		ok := false
		core.EachInstr(f, func(i ssa.Instruction) {
			if c, isC := core.IsCall(i, "time.Time.Add"); isC {
				if k, isK := core.ConstInt(core.CallArgs(c)[1]); isK && k == 5000000000 {
					ok = true
				}
			}
		})
		r.Check(ok, "C13-R4", fname(f), "default handshake deadline 5s", p.Pos(f.Pos()), "now + 5s when the context has no deadline", "no 5 s default deadline")
	}
}

// handshakeDeferOrder: the failure handler (which writes the error frame to
// the peer) runs while the handshake deadline is still armed: the deferred
// reset of the deadline is registered before the deferred initError, so it
// runs after it. Otherwise a stalled peer blocks the error-frame write for ever.
func handshakeDeferOrder(p *core.Prog, r *core.Report, f *ssa.Function, initErrDefer ssa.Instruction, rule string) {
	var reset ssa.Instruction
	core.EachInstr(f, func(i ssa.Instruction) {
		if d, ok := i.(*ssa.Defer); ok && callResult(d.Call.Value, "setInitDeadline") != nil {
			reset = i
		}
	})
	ok := reset != nil && initErrDefer != nil && reset.Block() == initErrDefer.Block() && before(reset, initErrDefer)
	r.Check(ok, rule, fname(f), "deadline reset deferred before initError (runs after it)", p.Pos(f.Pos()), "defer order: reset first, failure handler second", "the handshake deadline is cleared before the failure handler writes its error frame: the write is unbounded and a stalled peer holds the caller past its deadline")
}
