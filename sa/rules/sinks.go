package rules

import (
	"fmt"
	"go/types"
	"sort"
	"strings"

	"golang.org/x/tools/go/ssa"

	"verif/sa/core"
)

// peerTypes: receiver / parameter types that mark a function as handling
// peer-controlled bytes (role-based discovery; no function names).
var peerRecvTypes = map[string]bool{
	"typed.ReadBuffer": true, "typed.Reader": true,
	"Frame": true, "FrameHeader": true,
	"lazyCallReq": true, "lazyCallRes": true, "lazyError": true,
	"fragmentingReader": true, "readableFragment": true,
	"thrift/arg2.KeyValIterator": true,
	"ChecksumType":               true, "messageType": true, "SystemErrCode": true,
}

var peerParamTypes = map[string]bool{
	"typed.ReadBuffer": true, "typed.Reader": true, "Frame": true, "lazyCallReq": true, "lazyCallRes": true,
}

func shortTypeName(t types.Type) string {
	n, ok := core.Deref(t).(*types.Named)
	if !ok || n.Obj().Pkg() == nil {
		return ""
	}
	pk := strings.TrimPrefix(strings.TrimPrefix(n.Obj().Pkg().Path(), core.Root), "/")
	if pk == "" {
		return n.Obj().Name()
	}
	return pk + "." + n.Obj().Name()
}

// peerFuncs returns the functions whose sinks are obligations for C03/C18:
// methods of the wire-facing types, functions taking such a type, and the
// exported byte-slice / io.Reader decode entry points of the codec packages.
func peerFuncs(p *core.Prog, codecOnly bool) []*ssa.Function {
	var out []*ssa.Function
	for _, f := range p.SrcFuncs {
		top := f
		for top.Parent() != nil {
			top = top.Parent()
		}
		keep := false
		if recv := top.Signature.Recv(); recv != nil {
			if peerRecvTypes[shortTypeName(recv.Type())] {
				keep = true
			}
		}
		for _, prm := range top.Params {
			if peerParamTypes[shortTypeName(prm.Type())] {
				keep = true
			}
		}
		pk := ""
		if top.Pkg != nil {
			pk = strings.TrimPrefix(strings.TrimPrefix(top.Pkg.Pkg.Path(), core.Root), "/")
		}
		switch pk {
		case "thrift/arg2", "http", "typed":
			// codec packages: everything that touches a []byte / io.Reader / ReadBuffer
			for _, prm := range top.Params {
				t := prm.Type().String()
				if t == "[]byte" || strings.HasSuffix(t, "io.Reader") || strings.Contains(t, "ReadBuffer") {
					keep = true
				}
			}
		case "thrift":
			if top.Name() == "ReadHeaders" || top.Name() == "readHeaders" {
				keep = true
			}
		}
		if codecOnly && !(pk == "thrift/arg2" || pk == "http" || pk == "typed" || pk == "thrift" || pk == "json") {
			keep = false
		}
		if keep {
			out = append(out, f)
		}
	}
	return out
}

type sinkOb struct {
	fn   *ssa.Function
	ins  ssa.Instruction
	what string
	res  core.SinkResult
}

// sinkName gives a line-free name to a sink: kind + operand description.
func sinkName(i ssa.Instruction) string {
	switch x := i.(type) {
	case *ssa.IndexAddr:
		return "index " + desc(x.X) + "[" + desc(x.Index) + "]"
	case *ssa.Index:
		return "index " + desc(x.X) + "[" + desc(x.Index) + "]"
	case *ssa.Lookup:
		return "index " + desc(x.X) + "[" + desc(x.Index) + "]"
	case *ssa.Slice:
		return "slice " + desc(x)
	case *ssa.MakeSlice:
		return "make(" + desc(x.Len) + ")"
	case *ssa.Call:
		return "call " + desc(x)
	}
	return fmt.Sprintf("%T", i)
}

func isSink(i ssa.Instruction) bool {
	switch x := i.(type) {
	case *ssa.IndexAddr, *ssa.Index, *ssa.Slice, *ssa.MakeSlice:
		return true
	case *ssa.Lookup:
		_, isMap := x.X.Type().Underlying().(*types.Map)
		return !isMap
	case *ssa.Call:
		_, _, ok := core.LibLenPrecondition(x)
		return ok
	}
	return false
}

// runSinks checks every sink of the given functions.
func runSinks(p *core.Prog, a *core.Ranges, fns []*ssa.Function) []sinkOb {
	var out []sinkOb
	for _, f := range fns {
		core.EachInstr(f, func(i ssa.Instruction) {
			if !isSink(i) {
				return
			}
			out = append(out, sinkOb{f, i, sinkName(i), a.CheckSink(i)})
		})
	}
	sort.SliceStable(out, func(i, j int) bool {
		if out[i].fn.String() != out[j].fn.String() {
			return out[i].fn.String() < out[j].fn.String()
		}
		return out[i].what < out[j].what
	})
	return out
}
