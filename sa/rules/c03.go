package rules

import (
	"fmt"
	"go/token"
	"go/types"
	"sort"
	"strings"

	"golang.org/x/tools/go/ssa"

	"verif/sa/core"
)

type ssaFunc = ssa.Function

func init() { Registry["C03"] = c03 }

func c03(p *core.Prog, r *core.Report) {
	r.Explain = "Decides, from the source alone: (INV) the cross-function invariants the range analysis relies on (frame buffers are allocated at the maximum payload size and never reassigned; the declared frame size is validated by ReadBody before any use; relay lazy offsets are byte counts of successful bounded reads) are re-established by who-may-write / who-may-call / guard-dominance obligations; (R1) every index, slice and make in every function that handles wire data (methods of and functions over ReadBuffer, Reader, Frame, FrameHeader, lazy relay messages, the fragment reader, the arg2 iterator, checksum type) is within bounds for every value the operands can take, by interval analysis with symbolic <=len facts, guard refinement, and ranges inferred across calls (parameters joined over call sites, fields over stores, results over returns); (R2) every explicit panic synchronously reachable from the frame reader and the handshakes is unreachable for all message types / connection states that can arrive there (finite-enum abstract interpretation with caller-established facts about the frame's type), or is a reviewed panic not driven by peer bytes; no os.Exit / Fatal is reachable; (R3) a read or body error in the reader loop reaches the connection error handler and leaves the loop; (R4) every loop in those functions is counted, a range, consumes a bounded buffer, or blocks on I/O each iteration; (R5) the lock-order graph of the package's mutexes is acyclic. A loop consuming a bounded read buffer is accepted only if every iteration performs a fixed-width read and passes an exit test of the buffer's sticky error. The relay-table invariants the reviewed timer panics rely on (an id present in the table is never re-admitted, timers released only by Delete, Stop under the table lock) are re-checked here. (R6) the maps of the guarded table are only touched with their lock held in the right mode (a concurrent map access aborts the process; shared with C04-R1). The reader dispatches a frame only if both reads of the iteration returned no error; a loop that calls Read again leaves on every error (thrift transport adapter included). (R7) a failed call admission removes the exchange it registered (shared with C11-R1) and the lazy relay parsers agree with the specified layouts (shared with C08-R4). Pooled decoders do not keep a sticky error from one message to the next (shared with C04-R7)."
	r.NotDecided = "liveness under arbitrary interleavings with legitimate traffic, goroutine starvation, resource exhaustion (memory, goroutines), panics inside user-supplied handlers/loggers, nil dereferences and map/type-assertion panics (outside the index/slice/panic sinks decided here)."
	r.Rule("C03-INV", "E6 who-may-write / guards", 12, "cross-function invariants used by the sink analysis (frame buffer length, validated frame size, lazy offsets)")
	r.Rule("C03-R1", "E3 ranges", 40, "no index/slice/make on peer-controlled data without a dominating bound")
	r.Rule("C03-R2", "E1 enumset", 8, "explicit panics reachable from the reader are unreachable on peer data or reviewed; no exit/fatal")
	r.Rule("C03-R3", "E6 paths", 2, "reader loop: read/body error -> connection error handler -> return")
	r.Rule("C03-R4", "E6 loops", 15, "loops over peer data terminate or block on I/O")
	r.Rule("C03-R5", "E4 lock order", 1, "lock-order graph acyclic")
	a := frameInv(p, r, "C03-INV")
	c03Sinks(p, r, a, "C03-R1", peerFuncs(p, false))
	c03Panics(p, r)
	c03ReaderLoop(p, r, "C03-R3")
	c03Loops(p, r)
	// the relay-timer panics ("only stopped or completed timers can be
	// released") are unreachable from peer data only while an id present in
	// the table is never admitted again and timers are released by Delete alone
	r.Alias("C09-R4", "C03-INV")
	c09Forget(p, r)
	r.Alias("C09-R4", "")
	c03LockOrder(p, r, "C03-R5")
	// a map read, iterated or written concurrently with a write makes the Go
	// runtime abort the whole process (not a recoverable panic): the maps of
	// the guarded table, all of which peer-driven code reaches (unknown
	// service names, new exchanges, relay items, introspection requests), are
	// only touched with their lock held in the right mode (shared with C04-R1)
	// an inbound exchange that stays registered after a failed admission
	// wedges the reader (its frames fill the exchange's queue) and the close;
	// a lazy relay parser that disagrees with the frame layout indexes past
	// what it validated (shared with C11-R1 and C08-R4)
	r.Rule("C03-R7", "E6 paths / E5 layout", 5, "failed call admission removes the exchange; lazy parsers agree with the specified layouts (shared with C11, C08)")
	r.Alias("C11-R1", "C03-R7")
	c11Exchanges(p, r)
	r.Alias("C11-R1", "")
	r.Alias("C08-R4", "C03-R7")
	c08Lazy(p, r)
	r.Alias("C08-R4", "")
	// a pooled decoder that keeps its sticky error from one malformed message
	// fails every later, well-formed message that draws it from the pool
	// (shared with C04-R7)
	r.Alias("C04-R7", "C03-R7")
	c04Pools(p, r)
	r.Alias("C04-R7", "")
	r.Rule("C03-R6", "E4 locksets", 20, "guarded maps are accessed under their lock (a concurrent map access aborts the process)")
	guardedAccesses(p, r, p.ComputeLocks(), "C03-R6", func(typ, field string, fld *types.Var) bool {
		_, isMap := fld.Type().Underlying().(*types.Map)
		return isMap
	})
}

// reviewedPanics: explicit panics on the reader's synchronous call tree that
// are not driven by peer bytes (function -> number of panics, reason).
var reviewedPanics = map[string]struct {
	n   int
	why string
}{
	"(*errNotifier).Notify":              {1, "Notify(nil) is a programming error: every caller passes the non-nil error it is handling"},
	"(*fragmentingWriter).BeginArgument": {1, "writer-side size invariant maintained by the writer's own keep-open rule (C01-R4); not reached from received bytes"},
	"(*relayTimer).Release":              {1, "relay timer protocol (C09): release of an active timer is a library bug, not input-driven"},
	"(*relayTimer).Start":                {2, "relay timer protocol (C09): double start is a library bug, not input-driven"},
	"(*relayTimer).verifyNotReleased":    {1, "relay timer protocol (C09), only when verification is enabled"},
	"(*relayTimerPool).Get":              {1, "pooled timer that cannot be stopped: library bug, not input-driven"},
	"newPeer":                            {1, "blank host:port cannot come from a peer: parseRemotePeer replaces an empty/ephemeral host:port by the socket address (C13-R5)"},
}

func readerRoots(p *core.Prog, r *core.Report) []*ssa.Function {
	var roots []*ssa.Function
	for _, n := range [][3]string{{"", "Connection", "readFrames"}, {"", "Channel", "inboundHandshake"}, {"", "Channel", "outboundHandshake"}} {
		if f := mustFunc(p, r, n[0], n[1], n[2]); f != nil {
			roots = append(roots, f)
		}
	}
	return roots
}

func c03Panics(p *core.Prog, r *core.Report) {
	roots := readerRoots(p, r)
	reach := syncReach(p, roots...)
	for _, f := range peerFuncs(p, false) {
		reach[f] = true
	}
	r.Stats["reader_tree_functions"] = len(reach)
	domains := []*core.Domain{p.NewDomain("", "messageType"), p.NewDomain("", "connectionState")}
	var ips []*core.EnumInterp
	for _, d := range domains {
		if d == nil {
			r.Errorf("enum domain does not resolve")
			return
		}
		ip := core.NewEnumInterp(p, d)
		ip.AutoFields = true
		ip.ClosedWorld = true
		ips = append(ips, ip)
	}
	count := map[string]int{}
	for _, f := range core.SortedFuncs(reach) {
		core.EachInstr(f, func(i ssa.Instruction) {
			if c, ok := i.(ssa.CallInstruction); ok {
				if o := core.CalleeObj(c); o != nil {
					k := core.FuncKey(o)
					if k == "os.Exit" || k == "log.Fatal" || k == "log.Fatalf" || k == "log.Fatalln" || k == "log.Panic" || k == "log.Panicf" ||
						((o.Name() == "Fatal" || o.Name() == "Fatalf") && strings.HasSuffix(core.ShortKey(o), "Logger."+o.Name())) {
						r.Fail("C03-R2", fname(f), "call "+core.ShortKey(o), p.Pos(i.Pos()), "process-terminating call on the frame reader's call tree")
					}
				}
			}
			pn, ok := i.(*ssa.Panic)
			if !ok || !pn.Pos().IsValid() {
				return
			}
			construct := "panic(" + panicText(pn) + ")"
			for k, ip := range ips {
				fl := ip.Flow(f, core.Ctx{})
				if !fl.Reachable(pn.Block()) {
					r.Ok("C03-R2", fname(f), construct, p.Pos(pn.Pos()), "unreachable for every "+domainName(domains[k])+" that can arrive (callers' guards and dispatch switches included)")
					return
				}
			}
			count[fname(f)]++
			if rv, ok := reviewedPanics[fname(f)]; ok && count[fname(f)] <= rv.n {
				r.Ok("C03-R2", fname(f), construct, p.Pos(pn.Pos()), "reviewed: "+rv.why)
				return
			}
			r.Fail("C03-R2", fname(f), construct, p.Pos(pn.Pos()), "explicit panic reachable on the frame reader's call tree; not excluded by the message types / states that can arrive, and not a reviewed non-input panic")
		})
	}
}

func domainName(d *core.Domain) string {
	if n, ok := d.T.(*types.Named); ok {
		return n.Obj().Name()
	}
	return "value"
}

func panicText(pn *ssa.Panic) string {
	v := core.Strip(pn.X)
	if c, ok := v.(*ssa.Const); ok && c.Value != nil {
		s := c.Value.ExactString()
		if len(s) > 50 {
			s = s[:50] + "…"
		}
		return s
	}
	if c, ok := v.(*ssa.Call); ok {
		if len(c.Call.Args) > 0 {
			if k, ok := c.Call.Args[0].(*ssa.Const); ok && k.Value != nil {
				s := k.Value.ExactString()
				if len(s) > 50 {
					s = s[:50] + "…"
				}
				return s
			}
		}
	}
	return desc(v)
}

func c03ReaderLoop(p *core.Prog, r *core.Report, rule string) {
	f := mustFunc(p, r, "", "Connection", "readFrames")
	if f == nil {
		return
	}
	// every error result of a read on the connection leads to the error handler closure and a return
	n := 0
	core.EachInstr(f, func(i ssa.Instruction) {
		c, ok := i.(*ssa.Call)
		if !ok {
			return
		}
		o := core.CalleeObj(c)
		if o == nil {
			return
		}
		k := core.ShortKey(o)
		if k != "io.ReadFull" && k != "Frame.ReadBody" && k != "Frame.ReadIn" {
			return
		}
		n++
		// find the err != nil branch
		var errV ssa.Value = c
		if tup, isTup := c.Type().(*types.Tuple); isTup {
			for _, ref := range *c.Referrers() {
				if e, ok := ref.(*ssa.Extract); ok && e.Index == tup.Len()-1 {
					errV = e
				}
			}
		}
		okAll := false
		for _, b := range f.Blocks {
			fs := factsAt(b)
			if !fs.nilCmp(func(v ssa.Value) bool { return v == errV }, false) {
				continue
			}
			// from the start of b: must reach a Return, passing a call that reaches connectionError, never the loop header again
			first := b.Instrs[0]
			isHandler := func(j ssa.Instruction) bool {
				cc, ok := j.(*ssa.Call)
				if !ok {
					return false
				}
				for _, t := range p.Callees(cc) {
					if reachesFunc(p, t, "Connection.connectionError", 3) {
						return true
					}
				}
				return false
			}
			if isHandler(first) {
				okAll = true
			} else {
				miss := core.ReachAvoiding(f, first, core.IsReturn, isHandler, nil)
				okAll = !miss.Found
			}
			// does not continue the loop
			loops := core.Loops(f)
			for _, l := range loops {
				back := core.ReachAvoiding(f, first, func(j ssa.Instruction) bool { return j.Block() == l.Header }, nil, nil)
				if back.Found {
					okAll = false
				}
			}
			break
		}
		r.Check(okAll, rule, fname(f), "error of "+k+" -> error handler -> return", p.Pos(c.Pos()), "the failing arm calls the connection error handler and leaves the reader loop", "a read error does not reach the connection error handler, or the loop continues after it")
		// ... for every error: the frame is handed on only under err == nil
		// of this read (an ignored io.EOF or short read leaves the pooled
		// frame's previous payload under the new header: a stale body of the
		// right size parses and its checksum verifies)
		for _, d := range p.CallsDeep(f, 0, "Connection.handleFrameRelay", "Connection.handleFrameNoRelay") {
			di, isI := d.(ssa.Instruction)
			if !isI || di.Parent() != f {
				continue
			}
			okD := factsAt(di.Block()).nilCmp(func(v ssa.Value) bool { return v == errV }, true)
			r.Check(okD, rule, fname(f), "frame dispatched ("+calleeShort(d)+") only if "+k+" returned no error", p.Pos(d.Pos()),
				"dominated by err == nil of the read", "a frame can be dispatched although "+k+" failed (some error value is let through): its payload is whatever the pooled buffer held before")
		}
	})
	if n < 2 {
		r.Errorf("readFrames: expected a header read and a body read, found %d", n)
	}
}

// reachesFunc: f is, or calls within `depth` levels (static callees / closures), the function with ShortKey key.
func reachesFunc(p *core.Prog, f *ssa.Function, key string, depth int) bool {
	if f == nil {
		return false
	}
	if o, ok := f.Object().(*types.Func); ok && core.ShortKey(o) == key {
		return true
	}
	if depth == 0 || f.Blocks == nil {
		return false
	}
	found := false
	core.EachInstr(f, func(i ssa.Instruction) {
		if c, ok := i.(*ssa.Call); ok && !found {
			for _, t := range p.Callees(c) {
				if p.InAnalysed(t) && reachesFunc(p, t, key, depth-1) {
					found = true
				}
			}
		}
	})
	return found
}

// c03Loops classifies every loop of the wire-facing functions and the reader's call tree.
func c03Loops(p *core.Prog, r *core.Report) {
	reach := syncReach(p, readerRoots(p, r)...)
	for _, f := range peerFuncs(p, false) {
		reach[f] = true
	}
	// the thrift transport adapter pulls argument bytes on the handler's
	// goroutine: its loops run on peer data as well
	nT := 0
	for _, f := range p.SrcFuncs {
		if recv := f.Signature.Recv(); recv != nil && shortTypeName(recv.Type()) == "thrift.readWriterTransport" {
			reach[f] = true
			nT++
		}
	}
	if nT == 0 {
		r.Errorf("thrift.readWriterTransport has no methods (anchor moved)")
	}
	// functions that contain a blocking operation, and everything that can call them
	blocking := map[*ssa.Function]bool{}
	for _, f := range p.SrcFuncs {
		core.EachInstr(f, func(i ssa.Instruction) {
			if isBlockingOp(i) {
				blocking[f] = true
			}
		})
	}
	mayBlock := p.CallersClosureWithin(blocking, p.InAnalysed)
	nth := map[string]int{}
	for _, f := range core.SortedFuncs(reach) {
		for _, l := range core.Loops(f) {
			kind, ok := classifyLoop(p, f, l, mayBlock)
			pos := "-"
			for _, i := range l.Header.Instrs {
				if i.Pos().IsValid() {
					pos = p.Pos(i.Pos())
					break
				}
			}
			nth[fname(f)]++
			c := fmt.Sprintf("loop #%d (%s)", nth[fname(f)], l.Header.Comment)
			r.Check(ok, "C03-R4", fname(f), c, pos, kind, "loop is not counted, not a range, does not consume a bounded buffer and does not block on I/O each iteration: "+kind)
		}
	}
}

func isBlockingOp(i ssa.Instruction) bool {
	switch x := i.(type) {
	case *ssa.Select:
		return x.Blocking
	case *ssa.UnOp:
		return x.Op == token.ARROW
	case *ssa.Send:
		return true
	case *ssa.Call:
		if o := core.CalleeObj(x); o != nil {
			switch core.FuncKey(o) {
			case "io.ReadFull", "net.Conn.Read", "io.Reader.Read", "net.Conn.Write", "io.Writer.Write", "time.Sleep", "sync.Cond.Wait", "net.Listener.Accept":
				return true
			}
		}
	}
	return false
}

func classifyLoop(p *core.Prog, f *ssa.Function, l *core.Loop, mayBlock map[*ssa.Function]bool) (string, bool) {
	h := l.Header
	// range over map/string: header contains a Next
	for _, i := range h.Instrs {
		if _, ok := i.(*ssa.Next); ok {
			return "range loop (iterator)", true
		}
	}
	// find the exit condition(s): If in header
	if ifi, ok := h.Instrs[len(h.Instrs)-1].(*ssa.If); ok {
		conds := []ssa.Value{ifi.Cond}
		// counted: phi(const, phi+c) < loop-invariant
		for _, c := range conds {
			if bo, ok := c.(*ssa.BinOp); ok && (bo.Op == token.LSS || bo.Op == token.LEQ || bo.Op == token.GTR || bo.Op == token.GEQ || bo.Op == token.NEQ) {
				for _, side := range []struct{ iv, bound ssa.Value }{{bo.X, bo.Y}, {bo.Y, bo.X}} {
					phi, isPhi := side.iv.(*ssa.Phi)
					if !isPhi {
						// range-over-slice form: the test is on phi+1
						if inc, ok := side.iv.(*ssa.BinOp); ok && inc.Op == token.ADD {
							if ph2, ok := inc.X.(*ssa.Phi); ok {
								for _, e := range ph2.Edges {
									if e == ssa.Value(inc) {
										phi, isPhi = ph2, true
									}
								}
							}
						}
					}
					if !isPhi || phi.Block() != h {
						continue
					}
					step := false
					for _, e := range phi.Edges {
						if add, ok := e.(*ssa.BinOp); ok && (add.Op == token.ADD || add.Op == token.SUB) && add.X == ssa.Value(phi) {
							if k, ok := core.ConstInt(add.Y); ok && k != 0 {
								step = true
							}
						}
					}
					if !step {
						continue
					}
					if inv := loopInvariant(p, side.bound, l); inv {
						return "counted loop with a loop-invariant bound", true
					}
				}
			}
		}
	}
	// consuming a bounded read buffer. A typed.ReadBuffer read either consumes
	// its bytes or sets the sticky error and consumes nothing, so the loop
	// terminates only if every cycle (a) passes a read of fixed non-zero
	// width and (b) passes a test of Err() that leaves the loop: after
	// finitely many successful reads the buffer is empty, the next read
	// sets the error and the test exits. A test of BytesRemaining() alone
	// does not do: a failed read leaves it unchanged.
	fixedRead := func(i ssa.Instruction) bool {
		_, ok := core.IsCall(i, "typed.ReadBuffer.ReadUint16", "typed.ReadBuffer.ReadSingleByte",
			"typed.ReadBuffer.ReadUint32", "typed.ReadBuffer.ReadUint64", "typed.ReadBuffer.ReadLen8String", "typed.ReadBuffer.ReadLen16String")
		return ok
	}
	errExit := func(i ssa.Instruction) bool {
		ifi, ok := i.(*ssa.If)
		if !ok {
			return false
		}
		b := ifi.Block()
		if l.Blocks[b.Succs[0]] && l.Blocks[b.Succs[1]] {
			return false
		}
		bo, ok := ifi.Cond.(*ssa.BinOp)
		if !ok || (bo.Op != token.EQL && bo.Op != token.NEQ) {
			return false
		}
		for _, side := range []ssa.Value{bo.X, bo.Y} {
			if c := callResult(side, "typed.ReadBuffer.Err"); c != nil && l.Blocks[c.Block()] {
				return true
			}
		}
		return false
	}
	if everyCyclePasses(f, l, fixedRead) {
		if everyCyclePasses(f, l, errExit) {
			return "every iteration performs a fixed-width read of a bounded read buffer and passes an exit test of its sticky error", true
		}
		return "unclassified: the loop reads a bounded buffer but no exit tests its sticky error on every iteration (a failed read consumes nothing: the loop spins)", false
	}
	blockingStep := func(i ssa.Instruction) bool {
		if isBlockingOp(i) {
			return true
		}
		if c, ok := i.(*ssa.Call); ok {
			return p.MayCall(c, mayBlock)
		}
		return false
	}
	if everyCyclePasses(f, l, blockingStep) {
		// a Read that has reported an error does not block any more (errors
		// of argument readers and sockets are sticky): a loop that calls Read
		// again must leave on any error, i.e. its back edges carry err == nil
		for b := range l.Blocks {
			for _, i := range b.Instrs {
				c, ok := i.(*ssa.Call)
				if !ok {
					continue
				}
				name := ""
				if c.Call.IsInvoke() {
					name = c.Call.Method.Name()
				} else if g := c.Call.StaticCallee(); g != nil {
					name = g.Name()
				}
				tup, isTup := c.Type().(*types.Tuple)
				if name != "Read" || !isTup || tup.Len() != 2 || tup.At(1).Type().String() != "error" {
					continue
				}
				var errV ssa.Value
				for _, ref := range *c.Referrers() {
					if e, isE := ref.(*ssa.Extract); isE && e.Index == 1 {
						errV = e
					}
				}
				// the loop-carried form: `for n == 0 && err == nil { n, err = Read() }`
				// tests the previous iteration's error (a phi fed by this
				// Read's error) before it calls Read again
				carried := false
				if errV != nil {
					for _, hi := range h.Instrs {
						ph, isPhi := hi.(*ssa.Phi)
						if !isPhi {
							continue
						}
						for _, e := range ph.Edges {
							if e == errV && factsAt(c.Block()).nilCmp(func(v ssa.Value) bool { return v == ssa.Value(ph) }, true) {
								carried = true
							}
						}
					}
				}
				if carried {
					continue
				}
				for _, latch := range h.Preds {
					if !l.Blocks[latch] {
						continue
					}
					fs := factsAt(latch).add(edgeFacts(latch, h))
					if errV == nil || !fs.nilCmp(func(v ssa.Value) bool { return v == errV }, true) {
						return "unclassified: the loop calls Read again after Read reported an error (only some errors leave the loop): a reader whose error is sticky makes it spin", false
					}
				}
			}
		}
		return "every iteration blocks on I/O or a channel operation (directly or in a callee)", true
	}
	return "unclassified", false
}

var fieldWritersMemo = map[*core.Prog]map[*types.Var]map[*ssa.Function]bool{}

// fieldWriters: the functions of the analysed packages that may change the
// field (store into it, or take its address for anything but a load or a
// store), closed under callers.
func fieldWriters(p *core.Prog, fld *types.Var) map[*ssa.Function]bool {
	if fieldWritersMemo[p] == nil {
		fieldWritersMemo[p] = map[*types.Var]map[*ssa.Function]bool{}
	}
	if m, ok := fieldWritersMemo[p][fld]; ok {
		return m
	}
	direct := map[*ssa.Function]bool{}
	for _, f := range p.SrcFuncs {
		core.EachInstr(f, func(i ssa.Instruction) {
			fa, ok := i.(*ssa.FieldAddr)
			if !ok || core.AddrField(fa) != fld {
				return
			}
			for _, ref := range *fa.Referrers() {
				switch ref.(type) {
				case *ssa.UnOp, *ssa.DebugRef:
				default:
					// a store into the field, or its address stored,
					// passed on or captured
					direct[f] = true
				}
			}
		})
	}
	m := p.CallersClosureWithin(direct, func(*ssa.Function) bool { return true })
	fieldWritersMemo[p][fld] = m
	return m
}

func loopInvariant(p *core.Prog, v ssa.Value, l *core.Loop) bool {
	switch x := v.(type) {
	case *ssa.Const, *ssa.Parameter, *ssa.FreeVar, *ssa.Global:
		return true
	case ssa.Instruction:
		if !l.Blocks[x.Block()] {
			return true
		}
		// len(x) of an invariant, conversions, loads of fields not stored in the loop
		switch y := v.(type) {
		case *ssa.Convert:
			return loopInvariant(p, y.X, l)
		case *ssa.ChangeType:
			return loopInvariant(p, y.X, l)
		case *ssa.Call:
			if b, ok := y.Call.Value.(*ssa.Builtin); ok && (b.Name() == "len" || b.Name() == "cap") {
				return loopInvariant(p, y.Call.Args[0], l)
			}
		case *ssa.UnOp:
			if y.Op == token.MUL {
				fld := core.AddrField(y.X)
				if fld == nil {
					return false
				}
				for b := range l.Blocks {
					for _, i := range b.Instrs {
						if st, ok := i.(*ssa.Store); ok && core.AddrField(st.Addr) == fld {
							return false
						}
						if c, ok := i.(*ssa.Call); ok {
							// a call might change the field: accept builtins and
							// calls that cannot reach a function that stores into
							// the field or lets its address escape
							if _, isB := c.Call.Value.(*ssa.Builtin); !isB && p.MayCall(c, fieldWriters(p, fld)) {
								return false
							}
						}
					}
				}
				return true
			}
		}
	}
	return false
}

// everyCyclePasses: every path from the loop header back to the header passes an instruction satisfying pred.
func everyCyclePasses(f *ssa.Function, l *core.Loop, pred core.InstrPred) bool {
	h := l.Header
	first := h.Instrs[0]
	if pred(first) {
		return true
	}
	res := core.ReachAvoiding(f, first, func(i ssa.Instruction) bool { return i == first }, pred, func(from, to *ssa.BasicBlock) bool { return !l.Blocks[to] })
	return !res.Found
}

func c03LockOrder(p *core.Prog, r *core.Report, rule string) {
	locks := p.ComputeLocks()
	edges, sccs := locks.Order()
	r.Stats["lock_order_edges"] = len(edges)
	var es []string
	for _, e := range edges {
		es = append(es, core.LockName(e.From)+" -> "+core.LockName(e.To)+"  ("+fname(e.Fn)+")")
	}
	r.Extra["lock_order_edges_list"] = es
	if len(sccs) == 0 {
		r.Ok(rule, "package", "lock-order graph", "-", fmt.Sprintf("%d edges, no cycle", len(edges)))
		return
	}
	for _, comp := range sccs {
		var names []string
		for _, o := range comp {
			names = append(names, core.LockName(o))
		}
		sort.Strings(names)
		var wit []string
		inC := map[types.Object]bool{}
		for _, o := range comp {
			inC[o] = true
		}
		for _, e := range edges {
			if inC[e.From] && inC[e.To] {
				wit = append(wit, core.LockName(e.From)+"->"+core.LockName(e.To)+" in "+fname(e.Fn)+" at "+p.Pos(e.Instr.Pos()))
			}
		}
		r.Fail(rule, "package", "lock cycle "+strings.Join(names, " / "), "-", "mutexes can be acquired in both orders: "+strings.Join(wit, "; "))
	}
}

func c03Sinks(p *core.Prog, r *core.Report, a *core.Ranges, rule string, fns []*ssaFunc) {
	r.Stats["peer_functions"] = len(fns)
	nth := map[string]int{}
	for _, s := range runSinks(p, a, fns) {
		if p.IsGenerated(s.ins.Pos()) {
			continue // stringer output: trusted like the standard library
		}
		key := fname(s.fn) + "|" + s.what
		nth[key]++
		c := s.what
		if nth[key] > 1 {
			c = fmt.Sprintf("%s #%d", s.what, nth[key])
		}
		if s.res.OK {
			if s.res.Trivial {
				r.OkTrivial(rule, fname(s.fn), c, p.Pos(s.ins.Pos()), s.res.How)
			} else {
				r.Ok(rule, fname(s.fn), c, p.Pos(s.ins.Pos()), s.res.How)
			}
		} else {
			r.Fail(rule, fname(s.fn), c, p.Pos(s.ins.Pos()), s.res.How)
		}
	}
}

// syncReach: functions reachable from roots through calls (not `go` statements)
// whose callee lies in the analysed packages.
func SyncReach(p *core.Prog, roots ...*ssa.Function) map[*ssa.Function]bool {
	seen := map[*ssa.Function]bool{}
	var work []*ssa.Function
	push := func(f *ssa.Function) {
		if f != nil && !seen[f] && f.Blocks != nil && p.InAnalysed(f) {
			seen[f] = true
			work = append(work, f)
		}
	}
	for _, r := range roots {
		push(r)
	}
	for len(work) > 0 {
		f := work[len(work)-1]
		work = work[:len(work)-1]
		core.EachInstr(f, func(i ssa.Instruction) {
			switch c := i.(type) {
			case *ssa.Go:
				return
			case ssa.CallInstruction:
				for _, t := range p.Callees(c) {
					push(t)
				}
				for _, a := range c.Common().Args {
					if mc, ok := a.(*ssa.MakeClosure); ok {
						push(mc.Fn.(*ssa.Function))
					}
				}
				if mc, ok := c.Common().Value.(*ssa.MakeClosure); ok {
					push(mc.Fn.(*ssa.Function))
				}
			}
		})
	}
	return seen
}
func syncReach(p *core.Prog, roots ...*ssa.Function) map[*ssa.Function]bool {
	return SyncReach(p, roots...)
}
func PeerFuncs(p *core.Prog) []*ssa.Function { return peerFuncs(p, false) }
