package rules

import (
	"fmt"
	"go/token"
	"sort"
	"strings"

	"golang.org/x/tools/go/ssa"

	"verif/sa/core"
)

func init() { Registry["C02"] = c02 }

func c02(p *core.Prog, r *core.Report) {
	r.Explain = "Decides structure, not CRC values: (R1) every argument byte written into a fragment is added to the running checksum: each site that writes argument bytes into fragment contents adds the same operand to the checksum; (R2) every flushed fragment is stamped: finish() updates the reserved checksum bytes with Sum() on all paths and precedes every flush; (R3) the receiver verifies every fragment: every path of the fragment parser to its success return passes the type-constancy test (failing arm returns an error), adds every chunk it appends to the running checksum, and compares the received checksum bytes with Sum() by an equality test whose failing arm returns an error; (R4) pooled objects are reset: ChecksumType.New calls Reset() on the object it returns, pool Get() is called from New only, no Add/Sum follows Release in the same function, and the no-release wrapper is used only for the relay-managed checksum; (R5) registry agreement: the constructor installed in the pool of type T builds an object of type code T, crc32 uses the IEEE polynomial and crc32c the Castagnoli table, and the checksum size is crc32.Size for exactly those; (R6) relay re-stamp: when arg2 was modified, the continuation frame's chunk is added before the checksum bytes are rewritten, with the call's own checksum object. Also: on every path the relay re-stamps a continuation frame of a modified call after accumulating its chunk (an empty chunk included). A relayed call's checksum object is not used after an entombing path released it (relational: release on a path that leaves a tombstone AND a use not behind the tombstone test). The checksum-type code points equal the protocol specification's. A message's checksum object is released only by its owner (fragment writer / reader, or the relayer where it finishes the item); ChecksumSize is 0 / 4 / 4 / 4 for none / crc32 / farmhash / crc32c."
	r.NotDecided = "numerical CRC values and the detection of every single-byte corruption (properties of CRC32, not of code shape)."
	r.Rule("C02-R1", "E6 sameOperand", 2, "written argument bytes are checksummed")
	r.Rule("C02-R2", "E6 paths", 2, "every flushed fragment carries Sum()")
	r.Rule("C02-R3", "E6 paths/guards", 3, "receiver verifies type constancy, accumulates every chunk, compares for equality")
	r.Rule("C02-R4", "E6 who-may-call + E2", 4, "pooled checksum objects are reset and not used after release")
	r.Rule("C02-R5", "E1 constants", 4, "checksum registry agreement")
	wireCodes(p, r, "C02-R5", "checksum")
	checksumSizes(p, r, "C02-R5")
	r.Rule("C02-R6", "E6 ordering", 2, "relay re-stamps continuation frames")
	c02Writer(p, r)
	c02Receiver(p, r)
	c02Pool(p, r)
	c02Registry(p, r)
	c02Relay(p, r)
}

func c02Writer(p *core.Prog, r *core.Report) {
	// R1: writeAsFits (shared operand check) and the relay's arg1 copy
	if f := mustFunc(p, r, "", "writableChunk", "writeAsFits"); f != nil {
		var added, written ssa.Value
		core.EachInstr(f, func(i ssa.Instruction) {
			if c, ok := core.IsCall(i, "Checksum.Add"); ok {
				added = core.CallArgs(c)[1]
			}
			if c, ok := core.IsCall(i, "typed.WriteBuffer.WriteBytes"); ok {
				written = core.CallArgs(c)[1]
			}
		})
		r.Check(added != nil && added == written, "C02-R1", fname(f), "checksum.Add(b) for the b that is written", p.Pos(f.Pos()), "same operand", "argument bytes are written without being checksummed (or different bytes are)")
	}
	if f := mustFunc(p, r, "", "relayFragmentSender", "newFragment"); f != nil {
		var added, written []ssa.Value
		core.EachInstr(f, func(i ssa.Instruction) {
			if c, ok := core.IsCall(i, "Checksum.Add"); ok {
				added = append(added, core.CallArgs(c)[1])
			}
			if c, ok := core.IsCall(i, "typed.WriteBuffer.WriteBytes"); ok {
				written = append(written, core.CallArgs(c)[1])
			}
		})
		// the method bytes (arg1) are written and added
		ok := false
		for _, a := range added {
			for _, w := range written {
				if core.LoadedField(a) != nil && core.LoadedField(a) == core.LoadedField(w) && core.LoadedField(a).Name() == "method" {
					ok = true
				}
			}
		}
		r.Check(ok, "C02-R1", fname(f), "relay re-fragmenting: arg1 bytes written and checksummed", p.Pos(f.Pos()), "method bytes added to the new checksum", "arg1 is copied into the new frame without being added to its checksum")
	}
	// R2
	if f := mustFunc(p, r, "", "writableFragment", "finish"); f != nil {
		var upd ssa.Instruction
		for _, c := range core.CallsIn(f, "typed.BytesRef.Update") {
			if callResult(core.CallArgs(c)[1], "Checksum.Sum") != nil {
				upd = c
			}
		}
		ok := false
		if upd != nil {
			miss := core.ReachAvoiding(f, nil, core.IsReturn, func(i ssa.Instruction) bool { return i == upd }, nil)
			ok = !miss.Found
		}
		r.Check(ok, "C02-R2", fname(f), "checksumRef.Update(checksum.Sum()) on every path", p.Pos(f.Pos()), "stamped unconditionally", "a fragment can be finished without stamping its checksum")
	}
	if f := mustFunc(p, r, "", "reqResWriter", "newFragment"); f != nil {
		// reserved bytes = checksum.Size(); type byte = checksum.TypeCode()
		okT, okS := false, false
		for _, c := range core.CallsIn(f, "typed.WriteBuffer.WriteSingleByte") {
			if callResult(core.CallArgs(c)[1], "Checksum.TypeCode") != nil {
				okT = true
			}
		}
		for _, c := range core.CallsIn(f, "typed.WriteBuffer.DeferBytes") {
			if callResult(core.CallArgs(c)[1], "Checksum.Size") != nil {
				okS = true
			}
		}
		r.Check(okT && okS, "C02-R2", fname(f), "type byte = checksum.TypeCode(), reserved bytes = checksum.Size()", p.Pos(f.Pos()), "envelope built from the running checksum", "fragment envelope does not carry the running checksum's type/size")
	}
}

func c02Receiver(p *core.Prog, r *core.Report) {
	f := mustFunc(p, r, "", "fragmentingReader", "recvAndParseNextFragment")
	if f == nil {
		return
	}
	isNilRet := func(i ssa.Instruction) bool {
		ret, ok := i.(*ssa.Return)
		return ok && core.IsNilConst(core.ReturnValues(ret)[0])
	}
	// (i) type constancy: a comparison TypeCode() != checksumType whose true arm returns an error
	okType := false
	for _, g := range p.FuncsDeep(f, 2) {
		core.EachInstr(g, func(i ssa.Instruction) {
			ret, ok := i.(*ssa.Return)
			if !ok || len(ret.Results) == 0 || !loadsGlobal(core.ReturnValues(ret)[0], "errMismatchedChecksumTypes") {
				return
			}
			for _, c := range factsAt(ret.Block()).cmps {
				if c.Op == token.NEQ && (callResult(c.X, "Checksum.TypeCode") != nil || callResult(c.Y, "Checksum.TypeCode") != nil) {
					okType = true
				}
			}
		})
	}
	// and the success return cannot bypass it: when a checksum exists already the test is on the path
	r.Check(okType, "C02-R3", fname(f), "checksum type must stay constant within a message", p.Pos(f.Pos()), "TypeCode() != fragment type returns an error", "a change of checksum type mid-message is accepted")
	// (ii) every append of a chunk is paired with Add of the same chunk
	okAdd := true
	n := 0
	// (the chunk loop may live in a helper of the reader: same check there)
	for _, g := range p.FuncsDeep(f, 2) {
		g := g
		core.EachInstr(g, func(i ssa.Instruction) {
			c, ok := i.(*ssa.Call)
			if !ok {
				return
			}
			if b, isB := c.Call.Value.(*ssa.Builtin); !isB || b.Name() != "append" {
				return
			}
			if fl := core.LoadedField(c.Call.Args[0]); fl == nil || fl.Name() != "remainingChunks" {
				return
			}
			n++
			// appended element: the variadic slice holds chunkData
			var chunk ssa.Value
			if sl, isSl := c.Call.Args[1].(*ssa.Slice); isSl {
				if al, isAl := sl.X.(*ssa.Alloc); isAl {
					for _, ref := range *al.Referrers() {
						if ia, isIA := ref.(*ssa.IndexAddr); isIA {
							for _, r2 := range *ia.Referrers() {
								if st, isSt := r2.(*ssa.Store); isSt {
									chunk = st.Val
								}
							}
						}
					}
				}
			}
			found := false
			for _, ac := range core.CallsIn(g, "Checksum.Add") {
				if chunk != nil && core.CallArgs(ac)[1] == chunk && ac.Block() == c.Block() {
					found = true
				}
			}
			if !found {
				okAdd = false
			}
		})
	}
	if n == 0 {
		r.Errorf("%s: no append to the reader's chunk list found (field remainingChunks renamed or the parse loop moved): cannot decide", fname(f))
		n = -1
	}
	r.Check(okAdd && n != 0, "C02-R3", fname(f), "every chunk appended is added to the running checksum", p.Pos(f.Pos()), "append and Add of the same chunk in the same block", "chunks are accepted without being checksummed")
	// (iii) equality comparison with Sum(), failing arm returns an error, on every path to success
	var cmpCall *ssa.Call
	cmpFn := f
	for _, g := range p.FuncsDeep(f, 2) {
		g := g
		core.EachInstr(g, func(i ssa.Instruction) {
			c, ok := i.(*ssa.Call)
			if !ok {
				return
			}
			o := core.CalleeObj(c)
			if o == nil || (core.FuncKey(o) != "bytes.Compare" && core.FuncKey(o) != "bytes.Equal") {
				return
			}
			a := core.CallArgs(c)
			isSum := func(v ssa.Value) bool { return callResult(v, "Checksum.Sum") != nil }
			isRecv := func(v ssa.Value) bool { fl := core.LoadedField(v); return fl != nil && fl.Name() == "checksum" }
			if (isSum(a[0]) && isRecv(a[1])) || (isSum(a[1]) && isRecv(a[0])) {
				cmpCall = c
				cmpFn = g
			}
		})
	}
	okCmp := false
	if cmpCall != nil {
		// the success return is reached only under "equal"
		core.EachInstr(cmpFn, func(i ssa.Instruction) {
			if !isNilRet(i) {
				return
			}
			fs := factsAt(i.Block())
			o := core.CalleeObj(cmpCall)
			if core.FuncKey(o) == "bytes.Equal" {
				if fs.hasBool(func(v ssa.Value) bool { return v == ssa.Value(cmpCall) }, true) {
					okCmp = true
				}
			} else {
				if fs.hasCmp(func(v ssa.Value) bool { return v == ssa.Value(cmpCall) }, []token.Token{token.EQL}, 0) {
					okCmp = true
				}
			}
		})
		miss := core.ReachAvoiding(cmpFn, nil, isNilRet, func(i ssa.Instruction) bool { return i == ssa.Instruction(cmpCall) }, nil)
		if miss.Found {
			okCmp = false
		}
		if cmpFn != f {
			// the comparison lives in a helper: the reader succeeds only after
			// calling it and seeing it succeed
			var hc *ssa.Call
			core.EachInstr(f, func(i ssa.Instruction) {
				if c, ok := i.(*ssa.Call); ok && c.Call.StaticCallee() == cmpFn {
					hc = c
				}
			})
			if hc == nil {
				okCmp = false
			} else {
				by := core.ReachAvoiding(f, nil, isNilRet, func(i ssa.Instruction) bool { return i == ssa.Instruction(hc) }, nil)
				okRes := false
				core.EachInstr(f, func(i ssa.Instruction) {
					if isNilRet(i) && factsAt(i.Block()).nilCmp(func(v ssa.Value) bool { return v == ssa.Value(hc) }, true) {
						okRes = true
					}
					// `return r.helper()`: the helper's verdict is the reader's
					if ret, isRet := i.(*ssa.Return); isRet {
						rv := core.ReturnValues(ret)
						if len(rv) > 0 && rv[len(rv)-1] == ssa.Value(hc) {
							okRes = true
						}
					}
				})
				if by.Found || !okRes {
					okCmp = false
				}
			}
		}
	}
	r.Check(okCmp, "C02-R3", fname(f), "success only if received checksum == Sum() (equality)", p.Pos(f.Pos()), "nil return requires the comparison to say 'equal'", "a fragment can be accepted without an equality match of its checksum")
}

func c02Pool(p *core.Prog, r *core.Report) {
	releasedByOwnersOnly(p, r, "C02-R4")
	if f := mustFunc(p, r, "", "ChecksumType", "New"); f != nil {
		ok := false
		core.EachInstr(f, func(i ssa.Instruction) {
			ret, isRet := i.(*ssa.Return)
			if !isRet {
				return
			}
			rv := core.ReturnValues(ret)[0]
			for _, c := range core.CallsIn(f, "Checksum.Reset") {
				if core.CallArgs(c)[0] == rv && before(c, ret) {
					ok = true
				}
			}
		})
		r.Check(ok, "C02-R4", fname(f), "New() resets the pooled object it returns", p.Pos(f.Pos()), "Reset() on the returned value", "a reused checksum object keeps the previous message's state")
	}
	// pool().Get() only from New
	for _, cs := range p.CallsTo("sync.Pool.Get") {
		if callResult(core.CallArgs(cs.Call)[0], "ChecksumType.pool") == nil {
			continue
		}
		r.Check(cs.Fn.Name() == "New", "C02-R4", fname(cs.Fn), "checksum pool Get only in ChecksumType.New", p.Pos(cs.Call.Pos()), "single acquisition point", "pooled checksum obtained without Reset")
	}
	// no Add/Sum after Release in the same function
	nRel := 0
	for _, cs := range p.CallsTo("Checksum.Release") {
		if pkgOf(cs.Fn) != core.Root {
			continue
		}
		nRel++
		obj := core.CallArgs(cs.Call)[0]
		key := core.AccessPath(obj)
		res := core.ReachAvoiding(cs.Fn, cs.Call, func(i ssa.Instruction) bool {
			c, ok := core.IsCall(i, "Checksum.Add", "Checksum.Sum")
			return ok && core.AccessPath(core.CallArgs(c)[0]) == key
		}, nil, nil)
		r.Check(!res.Found, "C02-R4", fname(cs.Fn), "no Add/Sum after Release", p.Pos(cs.Call.Pos()), "released object is not used again in this function", "a checksum object is used after being returned to the pool")
	}
	if nRel == 0 {
		r.Errorf("no Checksum.Release call found")
	}
	// noReleaseChecksum only in the relay fragment sender
	n := 0
	for _, f := range p.SrcFuncs {
		core.EachInstr(f, func(i ssa.Instruction) {
			if al, ok := i.(*ssa.Alloc); ok && strings.HasSuffix(core.Deref(al.Type()).String(), "noReleaseChecksum") {
				n++
				r.Check(strings.Contains(fname(f), "relayFragmentSender"), "C02-R4", fname(f), "noReleaseChecksum used only for the relay-managed checksum", p.Pos(i.Pos()), "relay owns the release", "the no-release wrapper is used outside the relay: pooled objects leak or are double-used")
			}
		})
	}
}

func c02Registry(p *core.Prog, r *core.Report) {
	d := p.NewDomain("", "ChecksumType")
	initF := p.SSA.Package(p.Pkg("")).Func("init")
	if initF == nil || d == nil {
		r.Errorf("package init / ChecksumType not found")
		return
	}
	// pool(T).New = closure ; closure returns newHashChecksum(T', hash)
	type reg struct {
		built string
		hash  string
	}
	got := map[string]reg{}
	var scan func(f *ssa.Function)
	scan = func(f *ssa.Function) {
		core.EachInstr(f, func(i ssa.Instruction) {
			st, ok := i.(*ssa.Store)
			if !ok {
				return
			}
			fld := core.AddrField(st.Addr)
			if fld == nil || fld.Name() != "New" {
				return
			}
			fa := st.Addr.(*ssa.FieldAddr)
			pc := callResult(fa.X, "ChecksumType.pool")
			if pc == nil {
				return
			}
			k, isK := core.ConstInt(core.CallArgs(pc)[0])
			if !isK {
				return
			}
			tname := d.Names[k]
			var cl *ssa.Function
			switch v := st.Val.(type) {
			case *ssa.MakeClosure:
				cl = v.Fn.(*ssa.Function)
			case *ssa.Function:
				cl = v
			}
			if cl == nil {
				return
			}
			rg := reg{built: "null"}
			core.EachInstr(cl, func(j ssa.Instruction) {
				if c, ok := core.IsCall(j, "newHashChecksum"); ok {
					a := core.CallArgs(c)
					if kk, isK := core.ConstInt(a[0]); isK {
						rg.built = d.Names[kk]
					}
					if hc, isC := core.Strip(a[1]).(*ssa.Call); isC {
						if o := core.CalleeObj(hc); o != nil {
							rg.hash = core.FuncKey(o)
							if o.Name() == "New" {
								// crc32.New(table): table must be the Castagnoli table
								rg.hash += "(" + tableOrigin(p, hc.Call.Args[0], initF) + ")"
							}
						}
					}
				}
			})
			got[tname] = rg
		})
	}
	scan(initF)
	for _, f := range p.SrcFuncs {
		if strings.HasPrefix(f.Name(), "init#") && pkgOf(f) == core.Root && f.Parent() == nil {
			scan(f)
		}
	}
	want := map[string]reg{
		"ChecksumTypeCrc32":  {"ChecksumTypeCrc32", "hash/crc32.NewIEEE"},
		"ChecksumTypeCrc32C": {"ChecksumTypeCrc32C", "hash/crc32.New(Castagnoli)"},
		"ChecksumTypeNone":   {"null", ""},
	}
	var names []string
	for n := range want {
		names = append(names, n)
	}
	sort.Strings(names)
	for _, n := range names {
		g := got[n]
		r.Check(g == want[n], "C02-R5", "package init", n+" pool builds "+want[n].built+" "+want[n].hash, "-", "constructor matches the type", fmt.Sprintf("pool of %s builds %q with %q", n, g.built, g.hash))
	}
	// ChecksumSize: crc32.Size exactly for Crc32 and Crc32C
	if f := mustFunc(p, r, "", "ChecksumType", "ChecksumSize"); f != nil {
		cells := []core.TableCell{{Name: "type", D: d, Match: func(v ssa.Value) bool { return v == ssa.Value(f.Params[0]) }}}
		rows, err := core.DecisionTable(f, cells, desc)
		if err != nil {
			r.Undecided("C02-R5", fname(f), "checksum size table", p.Pos(f.Pos()), err.Error())
		} else {
			table := map[string]string{}
			for _, row := range rows {
				for b := 0; b < d.N(); b++ {
					if row.Sets[0]&(1<<uint(b)) != 0 && b%2 == 1 {
						lo, _, _ := d.Range(b)
						table[d.Names[lo]] = row.Result
					}
				}
			}
			ok := table["ChecksumTypeCrc32"] == "4" && table["ChecksumTypeCrc32C"] == "4" && table["ChecksumTypeNone"] == "0"
			r.Check(ok, "C02-R5", fname(f), "size 4 for crc32 and crc32c, 0 for none", p.Pos(f.Pos()), fmt.Sprint(table), "checksum sizes: "+fmt.Sprint(table))
		}
	}
	// hashChecksum.TypeCode returns the stored type; Sum is hash.Sum
	if f := mustFunc(p, r, "", "hashChecksum", "TypeCode"); f != nil {
		ok := false
		core.EachInstr(f, func(i ssa.Instruction) {
			if ret, isRet := i.(*ssa.Return); isRet {
				if fl := core.LoadedField(core.ReturnValues(ret)[0]); fl != nil && fl.Name() == "checksumType" {
					ok = true
				}
			}
		})
		r.Check(ok, "C02-R5", fname(f), "TypeCode() returns the constructor's type", p.Pos(f.Pos()), "stored type returned", "type code does not reflect the constructed type")
	}
	// the running checksum accumulates: Add feeds the hash and never restarts
	// it (only Reset does), and the zero-length scratch slice Sum appends to is
	// assigned by the constructor only (a Sum that keeps its result makes the
	// next one longer than Size())
	{
		sumCache := p.Field("", "hashChecksum", "sumCache")
		for _, name := range []string{"Add", "Sum"} {
			f := mustFunc(p, r, "", "hashChecksum", name)
			if f == nil {
				continue
			}
			bad := ""
			writes := 0
			core.EachInstr(f, func(i ssa.Instruction) {
				if c, isC := i.(ssa.CallInstruction); isC && c.Common().IsInvoke() {
					switch c.Common().Method.Name() {
					case "Reset":
						bad = "the hash is restarted"
					case "Write":
						writes++
					}
				}
				if st, isSt := i.(*ssa.Store); isSt && sumCache != nil && core.AddrField(st.Addr) == sumCache {
					bad = "the scratch slice is reassigned"
				}
			})
			if name == "Add" && writes != 1 && bad == "" {
				bad = fmt.Sprintf("the bytes are written %d times", writes)
			}
			r.Check(bad == "", "C02-R5", fname(f), "the running checksum accumulates ("+name+")", p.Pos(f.Pos()), "one hash.Write per Add, no Reset, scratch slice untouched", "the checksum is not the running checksum of everything added: "+bad)
		}
	}
}

// tableOrigin names the crc32 table a value comes from (through package init stores / captured cells).
func tableOrigin(p *core.Prog, v ssa.Value, initF *ssa.Function) string {
	seen := map[ssa.Value]bool{}
	name := "?"
	var walk func(v ssa.Value)
	walk = func(v ssa.Value) {
		if v == nil || seen[v] {
			return
		}
		seen[v] = true
		switch x := v.(type) {
		case *ssa.Call:
			if o := core.CalleeObj(x); o != nil && core.FuncKey(o) == "hash/crc32.MakeTable" {
				if k, ok := core.ConstInt(x.Call.Args[0]); ok {
					switch uint32(k) {
					case 0x82f63b78:
						name = "Castagnoli"
					case 0xedb88320:
						name = "IEEE"
					case 0xeb31d82e:
						name = "Koopman"
					default:
						name = fmt.Sprintf("poly %#x", k)
					}
				}
			}
		case *ssa.UnOp:
			walk(x.X)
		case *ssa.FreeVar:
			fn := x.Parent()
			for k, fv := range fn.FreeVars {
				if fv == x {
					core.EachInstr(fn.Parent(), func(i ssa.Instruction) {
						if mc, ok := i.(*ssa.MakeClosure); ok && mc.Fn == ssa.Value(fn) {
							walk(mc.Bindings[k])
						}
					})
				}
			}
		case *ssa.Alloc:
			for _, ref := range *x.Referrers() {
				if st, ok := ref.(*ssa.Store); ok && st.Addr == ssa.Value(x) {
					walk(st.Val)
				}
			}
		}
	}
	walk(v)
	return name
}

// c02RelayChecksumLifetime: the checksum object of a modified relayed call is
// not used after it went back to the pool. An item that is entombed stays in
// the table (as a copy holding the same checksum) for the tombstone period, so
// either nothing that entombs releases the checksum, or every use of an
// item's checksum is behind the tombstone test. Each of the two is harmless
// alone; together a late continuation frame adds into an object that another
// message is using.
func c02RelayChecksumLifetime(p *core.Prog, r *core.Report) {
	mcF := p.Field("", "relayItem", "mutatedChecksum")
	if mcF == nil {
		r.Errorf("relayItem.mutatedChecksum does not resolve")
		return
	}
	isMC := func(v ssa.Value) bool {
		if f, ok := v.(*ssa.Field); ok {
			return core.FieldOfField(f) == mcF
		}
		return core.LoadedField(v) == mcF
	}
	var releasedWhileEntombed, usedOnTomb []string
	nUse := 0
	for _, f := range p.SrcFuncs {
		if pkgOf(f) != core.Root {
			continue
		}
		entombs := len(core.CallsIn(f, "relayItems.Entomb")) > 0
		core.EachInstr(f, func(i ssa.Instruction) {
			c, ok := i.(ssa.CallInstruction)
			if !ok {
				return
			}
			if rc, isRel := core.IsCall(i, "Checksum.Release"); isRel && isMC(core.CallArgs(rc)[0]) && entombs {
				releasedWhileEntombed = append(releasedWhileEntombed, fname(f)+" at "+p.Pos(i.Pos()))
			}
			// use: passed on (to the re-stamping helper) or Add/Sum called on it
			used := false
			for k, a := range core.CallArgs(c) {
				if isMC(a) {
					if _, isRel := core.IsCall(i, "Checksum.Release"); isRel && k == 0 {
						continue
					}
					used = true
				}
			}
			if !used {
				return
			}
			// only items fetched from the table can be tombstones
			if len(core.CallsIn(f, "relayItems.Get")) == 0 {
				return
			}
			nUse++
			tombFalse := factsAt(i.Block()).hasBool(func(v ssa.Value) bool {
				if fl, isF := v.(*ssa.Field); isF {
					return core.FieldOfField(fl).Name() == "tomb"
				}
				fl := core.LoadedField(v)
				return fl != nil && fl.Name() == "tomb"
			}, false)
			if !tombFalse {
				usedOnTomb = append(usedOnTomb, fname(f)+" at "+p.Pos(i.Pos()))
			}
		})
	}
	ok := len(releasedWhileEntombed) == 0 || len(usedOnTomb) == 0
	how := "released by " + strings.Join(releasedWhileEntombed, ", ") + " while the tombstone keeps it; used without the tombstone test by " + strings.Join(usedOnTomb, ", ")
	good := "no entombing path releases the checksum"
	if len(releasedWhileEntombed) > 0 {
		good = "every use is behind the tombstone test"
	}
	r.Check(ok && nUse > 0, "C02-R4", "package", "a relayed call's checksum object is not used after an entombing path released it", "-", good, how)
}

func c02Relay(p *core.Prog, r *core.Report) {
	c02RelayChecksumLifetime(p, r)
	f := mustFunc(p, r, "", "Relayer", "updateMutatedCallReqContinueChecksum")
	if f == nil {
		return
	}
	var add, upd ssa.Instruction
	for _, c := range core.CallsIn(f, "Checksum.Add") {
		add = c
	}
	for _, c := range core.CallsIn(f, "typed.BytesRef.Update") {
		if callResult(core.CallArgs(c)[1], "Checksum.Sum") != nil {
			upd = c
		}
	}
	ok := add != nil && upd != nil && before(add, upd)
	// the checksum used is the parameter (the relay item's mutatedChecksum)
	if ok {
		ok = core.CallArgs(add.(ssa.CallInstruction))[0] == ssa.Value(f.Params[2])
	}
	r.Check(ok, "C02-R6", fname(f), "Add(chunk) then checksumRef.Update(Sum()) with the call's checksum", p.Pos(f.Pos()), "continuation frame re-stamped after accumulating its chunk", "continuation frames of a modified call are not (correctly) re-stamped")
	if ok {
		// on every path: no return without the re-stamp (an empty chunk
		// still needs the running checksum, which differs from the
		// sender's once arg2 was modified), and no re-stamp without the Add.
		isRet := func(i ssa.Instruction) bool { _, r := i.(*ssa.Return); return r }
		skip := core.ReachAvoiding(f, nil, isRet, func(i ssa.Instruction) bool { return i == upd }, nil)
		noAdd := core.ReachAvoiding(f, nil, func(i ssa.Instruction) bool { return i == upd }, func(i ssa.Instruction) bool { return i == add }, nil)
		how := ""
		if skip.Found {
			how = "a path returns without re-stamping the frame: " + p.TrailString(skip) + " exit " + p.Pos(skip.Exit.Pos())
		} else if noAdd.Found {
			how = "the frame can be re-stamped without accumulating its chunk: " + p.TrailString(noAdd)
		}
		r.Check(how == "", "C02-R6", fname(f), "every path accumulates the chunk and re-stamps the frame", p.Pos(f.Pos()), "no return avoids Update(Sum()); no Update avoids Add", how)
	}
	// called with item.mutatedChecksum for callReqContinue frames only when non-nil
	if g := mustFunc(p, r, "", "Relayer", "handleNonCallReq"); g != nil {
		okSite := false
		for _, c := range core.CallsIn(g, "Relayer.updateMutatedCallReqContinueChecksum") {
			a := core.CallArgs(c)
			fl := fieldOfValue(a[2])
			if fl == "mutatedChecksum" {
				okSite = true
			}
		}
		r.Check(okSite, "C02-R6", fname(g), "continuation frames are re-stamped with item.mutatedChecksum", p.Pos(g.Pos()), "the relay item's checksum is passed", "re-stamp uses a different checksum object than the one the first frame was written with")
	}
}

func fieldOfValue(v ssa.Value) string {
	if fl := core.LoadedField(v); fl != nil {
		return fl.Name()
	}
	if f, ok := v.(*ssa.Field); ok {
		return core.FieldOfField(f).Name()
	}
	return ""
}
