package rules

import (
	"fmt"
	"go/token"
	"go/types"
	"sort"
	"strings"

	"golang.org/x/tools/go/ssa"

	"verif/sa/core"
)

func init() { Registry["C12"] = c12 }

// reviewedLeaks are fault-path exits on which a locally acquired frame is not
// handed back. The property tolerates leaks on fault paths; each entry was
// read and is keyed by function + how the frame was obtained + what is returned.
type reviewedLeak struct {
	n   int // number of distinct leaking exits with this key that were reviewed
	why string
}

var reviewedLeaks = map[string]reviewedLeak{
	"(*Connection).sendMessage|FramePool.Get|ErrSendBufferFull":                {1, "send buffer full: the control frame is dropped (fault path)"},
	"(*messageExchange).recvPeerFrame|recv|nil, (*messageExchange).checkFrame": {2, "frame with an unexpected id delivered to the exchange (protocol fault); two select arms"},
	"(*messageExchange).recvPeerFrameOfType|call|nil, errUnexpectedFrameType":  {1, "frame of an unexpected type for this exchange (protocol fault)"},
	"(*reqResReader).recvNextFragment|call|nil, (*reqResReader).failed":        {1, "fragment that does not parse: the reader fails the call (protocol fault)"},
	"(*Connection).handleFrameRelay|param|(*Relayer).Relay":                    {1, "malformed call req: Relay returns (no-release, err) from newLazyCallReq's error (protocol fault)"},
	"(*Relayer).Receive|param|true, \"\"":                                      {1, "late frame for a tombstoned / timing-out relay item is dropped (timeout fault)"},
	"(*Relayer).handleLocalCallReq|param|true":                                 {1, "fragmented call to the relay's local handler is refused with an error frame (unsupported input)"},
	"(*messageExchangeSet).forwardPeerFrame|param|nil":                         {1, "frame for an unknown (expired / cancelled) exchange is dropped (timeout fault)"},
}

func frameSpec(p *core.Prog, r *core.Report) (core.OwnSpec, func(ssa.CallInstruction) bool, bool) {
	frameT := p.Named("", "Frame")
	done := p.Func("", "readableFragment", "done")
	if frameT == nil || done == nil {
		r.Errorf("Frame type or readableFragment.done does not resolve")
		return core.OwnSpec{}, nil, false
	}
	ptr := types.NewPointer(frameT)
	// reachability of the alias owner's release point, through functions of the
	// analysed packages only (the call graph through the standard library's
	// interface dispatch is too coarse to be useful here)
	mayDone := p.CallersClosureWithin(map[*ssa.Function]bool{done: true}, p.InAnalysed)
	globalIDs := map[*ssa.Global]int8{}
	// once-wrappers: functions that call their func-typed parameter exactly once on every path and return its result
	once := map[*ssa.Function]int{}
	for _, f := range p.SrcFuncs {
		if idx, ok := onceWrapper(f); ok {
			once[f] = idx
		}
	}
	spec := core.OwnSpec{
		IsRes: func(t types.Type) bool { return types.Identical(t, ptr) },
		IsRelease: func(c ssa.CallInstruction) (ssa.Value, bool) {
			if _, ok := core.IsCall(c.(ssa.Instruction), "FramePool.Release"); ok {
				a := core.CallArgs(c)
				return a[1], true
			}
			return nil, false
		},
		IsAlias: func(c ssa.CallInstruction) (ssa.Value, bool) {
			if _, ok := core.IsCall(c.(ssa.Instruction), "parseInboundFragment"); ok {
				a := core.CallArgs(c)
				return a[1], true
			}
			return nil, false
		},
		MayReleaseAlias: func(c ssa.CallInstruction) bool {
			return p.MayCall(c, mayDone)
		},
		NonNilResult: func(c ssa.CallInstruction) bool {
			o := core.CalleeObj(c)
			if o == nil {
				return false
			}
			switch core.FuncKey(o) {
			case "fmt.Errorf", "errors.New":
				return true
			}
			return false
		},
		OnceWrapper: func(callee *ssa.Function) (int, bool) {
			idx, ok := once[callee]
			return idx, ok
		},
		IsCarrier: func(t types.Type) bool {
			n, ok := core.Deref(t).(*types.Named)
			if !ok {
				return false
			}
			st, ok := n.Underlying().(*types.Struct)
			if !ok || n.Obj().Pkg() == nil || n.Obj().Pkg().Path() != core.Root {
				return false
			}
			for i := 0; i < st.NumFields(); i++ {
				if st.Field(i).Embedded() && types.Identical(st.Field(i).Type(), ptr) {
					return true
				}
			}
			return false
		},
		GlobalID: func(g *ssa.Global) int8 {
			if id, ok := globalIDs[g]; ok {
				return id
			}
			id := int8(0)
			if types.Identical(core.Deref(g.Type()), types.Universe.Lookup("error").Type()) && len(globalIDs) < 100 {
				id = int8(2 + len(globalIDs))
			}
			globalIDs[g] = id
			return id
		},
	}
	isAcquire := func(c ssa.CallInstruction) bool {
		_, ok := core.IsCall(c.(ssa.Instruction), "FramePool.Get")
		return ok
	}
	return spec, isAcquire, true
}

// onceWrapper: f has a func-typed parameter that is called exactly once on
// every path to a return and whose result is what f returns.
func onceWrapper(f *ssa.Function) (int, bool) {
	for k, prm := range f.Params {
		if _, ok := prm.Type().Underlying().(*types.Signature); !ok {
			continue
		}
		var calls []*ssa.Call
		other := false
		for _, ref := range *prm.Referrers() {
			switch x := ref.(type) {
			case *ssa.Call:
				if x.Call.Value == prm {
					calls = append(calls, x)
				} else {
					other = true
				}
			case *ssa.DebugRef:
			default:
				other = true
			}
		}
		if other || len(calls) != 1 {
			continue
		}
		c := calls[0]
		// every path from entry to return passes the call
		miss := core.ReachAvoiding(f, nil, core.IsReturn, func(i ssa.Instruction) bool { return i == ssa.Instruction(c) }, nil)
		if miss.Found {
			continue
		}
		// not in a loop: the call cannot reach itself
		again := core.ReachAvoiding(f, c, func(i ssa.Instruction) bool { return i == ssa.Instruction(c) }, nil, nil)
		if again.Found {
			continue
		}
		// result returned
		ok := true
		core.EachInstr(f, func(i ssa.Instruction) {
			if ret, isRet := i.(*ssa.Return); isRet {
				if len(ret.Results) != 1 || core.ReturnValues(ret)[0] != ssa.Value(c) {
					ok = false
				}
			}
		})
		if ok {
			return k, true
		}
	}
	return 0, false
}

func c12(p *core.Prog, r *core.Report) {
	r.Explain = "Decides, for every function of package tchannel that holds a *Frame (parameter, pool Get, channel receive, call result, field load), on every path (path-sensitive on the boolean / nil results that guard hand-back, with inferred callee summaries and in-place analysis of closures): (R1) no path hands a frame back or over twice (pool Release, channel send, go hand-over, callee that consumes); (R2) no read/write/pass of a frame after it was handed back; (R3) the handler result protocol is consistent: the reader loop's `if releaseFrame {Release}` is checked against every (result, state) pair each handler can produce; (R4) a frame given to parseInboundFragment (alias owner = the fragment, released by its idempotent done()) is not also released directly once a call that can reach done() has intervened; the done() latch itself is checked; (R5) frames obtained locally are handed back or handed over on every exit except the reviewed fault-path exits. A leaking exit that returns a definitely non-nil error is a fault path by construction and tolerated. After a hand-back, reads through views of the frame (payload slices, read buffers wrapping them) count as uses. A message's pooled objects are released only by their owners; completing a response does not release the request's frames."
	r.NotDecided = "leaks on fault paths (tolerated by the property; listed in evidence); behaviour of user-supplied pools; cross-goroutine ordering between a send on a channel and the receiver's release (ownership is transferred at the send)."
	r.Rule("C12-R1", "E2 ownership", 20, "no double hand-back / hand-over of a frame on any path")
	r.Rule("C12-R2", "E2 ownership", 20, "no use of a frame after hand-back")
	r.Rule("C12-R3", "E2 summaries", 8, "handler (result, state) pairs consistent with the reader loop's release")
	r.Rule("C12-R4", "E2 alias", 2, "alias-owned frame not released directly after the alias owner may have run; done() is latched")
	releasedByOwnersOnly(p, r, "C12-R1")
	r.Rule("C12-R5", "E2 leaks", 8, "locally obtained frames are handed back/over on all exits but reviewed fault exits")

	spec, isAcquire, ok := frameSpec(p, r)
	if !ok {
		return
	}
	own := core.NewOwn(p, spec)
	var roots []core.OwnRoot
	collect := func() {
		roots = roots[:0]
		for _, f := range p.SrcFuncs {
			if f.Pkg == nil && f.Parent() == nil {
				continue
			}
			pk := f.Pkg
			for g := f; pk == nil && g != nil; g = g.Parent() {
				pk = g.Pkg
			}
			if pk == nil || pk.Pkg.Path() != core.Root {
				continue
			}
			roots = append(roots, own.Roots(f, isAcquire)...)
		}
	}
	var results []core.OwnResult
	for pass := 0; pass < 3; pass++ {
		own.Events = nil
		own2 := core.NewOwn(p, spec)
		own2.EntryFlags = own.EntryFlags
		own = own2
		collect()
		results = results[:0]
		for _, rt := range roots {
			results = append(results, own.AnalyseRoot(rt))
		}
		// propagate alias flags to callee parameters
		changed := false
		for ins, st := range own.SiteState {
			if st&core.StAlias == 0 {
				continue
			}
			ci, ok := ins.(ssa.CallInstruction)
			if !ok {
				continue
			}
			if _, isAlias := spec.IsAlias(ci); isAlias {
				continue
			}
			callee := ci.Common().StaticCallee()
			if callee == nil {
				continue
			}
			for ai, a := range core.CallArgs(ci) {
				if spec.IsRes(a.Type()) && ai < len(callee.Params) {
					if own.EntryFlags[callee] == nil {
						own.EntryFlags[callee] = map[int]uint8{}
					}
					if own.EntryFlags[callee][ai]&core.StAlias == 0 {
						own.EntryFlags[callee][ai] |= core.StAlias
						changed = true
					}
				}
			}
		}
		if !changed {
			break
		}
	}
	r.Stats["frame_roots"] = len(roots)
	r.Stats["own_function_runs"] = own.Analysed
	r.Stats["consume_events_seen"] = own.Consumes

	// violations by site
	bad := map[ssa.Instruction]core.OwnEvent{}
	for _, ev := range own.Events {
		if ev.Kind == "leak" {
			continue
		}
		bad[ev.Instr] = ev
	}
	// R1/R2 obligations: every consume site and every use site of every root
	type site struct {
		fn   *ssa.Function
		ins  ssa.Instruction
		kind string
	}
	seen := map[ssa.Instruction]bool{}
	var sites []site
	for _, f := range p.SrcFuncs {
		core.EachInstr(f, func(i ssa.Instruction) {
			if seen[i] {
				return
			}
			switch x := i.(type) {
			case ssa.CallInstruction:
				if _, ok := spec.IsRelease(x); ok {
					seen[i] = true
					sites = append(sites, site{f, i, "release"})
					return
				}
				for _, a := range core.CallArgs(x) {
					if spec.IsRes(a.Type()) {
						seen[i] = true
						k := "pass"
						if _, isGo := i.(*ssa.Go); isGo {
							k = "go"
						}
						sites = append(sites, site{f, i, k})
						return
					}
				}
			case *ssa.Send:
				if spec.IsRes(x.X.Type()) {
					seen[i] = true
					sites = append(sites, site{f, i, "send"})
				}
			case *ssa.Select:
				for _, st := range x.States {
					if st.Dir == types.SendOnly && spec.IsRes(st.Send.Type()) {
						seen[i] = true
						sites = append(sites, site{f, i, "send"})
					}
				}
			case *ssa.FieldAddr:
				if spec.IsRes(x.X.Type()) {
					seen[i] = true
					sites = append(sites, site{f, i, "access"})
				}
			}
		})
	}
	nth := map[string]int{}
	for _, s := range sites {
		rule := "C12-R1"
		if s.kind == "pass" || s.kind == "access" {
			rule = "C12-R2"
		}
		what := siteDesc(s.ins, s.kind)
		key := fname(s.fn) + "|" + what
		nth[key]++
		construct := what
		if nth[key] > 1 {
			construct = fmt.Sprintf("%s #%d", what, nth[key])
		}
		if ev, isBad := bad[s.ins]; isBad {
			rl := rule
			if ev.Kind == "double-consume" {
				rl = "C12-R1"
				if strings.Contains(ev.Note, "alias owner") {
					rl = "C12-R4"
				}
			} else {
				rl = "C12-R2"
			}
			r.Fail(rl, fname(s.fn), construct, p.Pos(s.ins.Pos()), ev.Note+" [frame: "+desc(ev.Root)+"]")
			delete(bad, s.ins)
		} else if s.kind == "access" {
			r.OkTrivial(rule, fname(s.fn), construct, p.Pos(s.ins.Pos()), "frame is owned on every path reaching this access")
		} else {
			r.Ok(rule, fname(s.fn), construct, p.Pos(s.ins.Pos()), "frame is owned (not yet handed back) on every path reaching this site")
		}
	}
	for ins, ev := range bad {
		rl := "C12-R2"
		if ev.Kind == "double-consume" {
			rl = "C12-R1"
		}
		r.Fail(rl, fname(ev.Fn), siteDesc(ins, "site"), p.Pos(ins.Pos()), ev.Note+" [frame: "+desc(ev.Root)+"]")
	}

	// R3: summaries of the handlers called from readFrames
	if rf := mustFunc(p, r, "", "Connection", "readFrames"); rf != nil {
		handlers := map[*ssa.Function]bool{}
		var walk func(f *ssa.Function, depth int)
		walk = func(f *ssa.Function, depth int) {
			allowIf = depth == 0
			if depth > 4 {
				return
			}
			core.EachInstr(f, func(i ssa.Instruction) {
				c, ok := i.(*ssa.Call)
				if !ok {
					return
				}
				cal := c.Call.StaticCallee()
				if cal == nil || cal.Blocks == nil || !p.InAnalysed(cal) {
					return
				}
				for ai, a := range core.CallArgs(c) {
					if (spec.IsRes(a.Type()) || spec.IsCarrier(a.Type())) && ai < len(cal.Params) && returnsBool(cal) && !handlers[cal] && flowsToFirstResult(f, c) {
						handlers[cal] = true
						walk(cal, depth+1)
					}
				}
			})
		}
		walk(rf, 0)
		for _, h := range core.SortedFuncs(handlers) {
			idx := -1
			for k, prm := range h.Params {
				if spec.IsRes(prm.Type()) || spec.IsCarrier(prm.Type()) {
					idx = k
				}
			}
			outs := own.Summary(h, idx, core.StOwned, 0)
			var pairs []string
			okAll := true
			for _, oc := range outs {
				res := int8(-1)
				if len(oc.Res) > 0 {
					res = oc.Res[0]
				}
				pairs = append(pairs, fmt.Sprintf("(%s,%s)", triStr(res), stStr(oc.St)))
				// result true (caller releases) requires the frame to be still owned and not consumed
				if res != 0 && oc.St&core.StConsumed != 0 {
					okAll = false
				}
			}
			sort.Strings(pairs)
			r.Check(okAll, "C12-R3", fname(h), "handler result protocol", p.Pos(h.Pos()),
				"possible (release?, state) pairs: "+strings.Join(pairs, " "), "a path returns 'release' (or an unknown result) after the frame was already handed back/over: "+strings.Join(pairs, " "))
		}
	}

	// R4: done() latch
	if d := mustFunc(p, r, "", "readableFragment", "done"); d != nil {
		isDone := mustField(p, r, "", "readableFragment", "isDone")
		var onDoneCall ssa.Instruction
		core.EachInstr(d, func(i ssa.Instruction) {
			if c, ok := i.(*ssa.Call); ok {
				if f := core.LoadedField(c.Call.Value); f != nil && f.Name() == "onDone" {
					onDoneCall = i
				}
			}
		})
		ok := false
		if onDoneCall != nil {
			fs := factsAt(onDoneCall.Block())
			guarded := fs.hasBool(func(v ssa.Value) bool { return core.LoadedField(v) == isDone }, false)
			// isDone set true on every path after the call
			miss := core.ReachAvoiding(d, onDoneCall, core.IsReturn, func(i ssa.Instruction) bool {
				st, ok := i.(*ssa.Store)
				if !ok || core.AddrField(st.Addr) != isDone {
					return false
				}
				b, isB := core.ConstBool(st.Val)
				return isB && b
			}, nil)
			ok = guarded && !miss.Found
		}
		r.Check(ok, "C12-R4", fname(d), "onDone() only under !isDone, then isDone = true", p.Pos(d.Pos()), "release through the fragment is idempotent", "done() is not latched: the frame can be released twice through its fragment")
		// onDone closures release exactly the parsed frame
		if pf := mustFunc(p, r, "", "", "parseInboundFragment"); pf != nil {
			n := 0
			// the function stored in fragment.onDone: a closure of
			// parseInboundFragment, or a method value (bound-method wrapper)
			core.EachInstr(pf, func(i ssa.Instruction) {
				st, ok := i.(*ssa.Store)
				if !ok {
					return
				}
				if fl := core.AddrField(st.Addr); fl == nil || fl.Name() != "onDone" {
					return
				}
				if mc, isMC := st.Val.(*ssa.MakeClosure); isMC {
					for _, g := range unwrapBound(mc.Fn.(*ssa.Function)) {
						n += len(core.CallsIn(g, "FramePool.Release"))
					}
				}
			})
			// and nothing else in parseInboundFragment releases the frame: its
			// callers keep ownership when it fails (they return "release")
			total := 0
			for _, g := range core.WithAnon(pf) {
				total += len(core.CallsIn(g, "FramePool.Release"))
			}
			closureRel := 0
			core.EachInstr(pf, func(i ssa.Instruction) {
				if st, ok := i.(*ssa.Store); ok {
					if fl := core.AddrField(st.Addr); fl != nil && fl.Name() == "onDone" {
						if mc, isMC := st.Val.(*ssa.MakeClosure); isMC {
							if cf, isF := mc.Fn.(*ssa.Function); isF && cf.Synthetic == "" {
								closureRel += len(core.CallsIn(cf, "FramePool.Release"))
							}
						}
					}
				}
			})
			r.Check(total-closureRel == 0, "C12-R4", fname(pf), "the parser itself never releases the frame (only the fragment's onDone does)", p.Pos(pf.Pos()), "no FramePool.Release outside the onDone function",
				fmt.Sprintf("parseInboundFragment releases the frame itself (%d release(s) outside onDone) although its callers still own it on failure: double release", total-closureRel))
			r.Check(n == 1, "C12-R4", fname(pf), "fragment.onDone releases the parsed frame once", p.Pos(pf.Pos()), "one release in the onDone closure", fmt.Sprintf("%d releases in onDone closures", n))
		}
	}

	// R5: leaks of locally obtained frames
	type leakGroup struct {
		fn, construct, pos string
		rets               map[*ssa.Return]bool
	}
	groups := map[string]*leakGroup{}
	var gorder []string
	faultExits := 0
	noteLeak := func(key, fn, construct, pos string, ret *ssa.Return) {
		// an exit that returns a definitely non-nil error is a fault path by
		// construction: the property tolerates a leak there
		if ret != nil && returnsNonNilError(ret) {
			faultExits++
			r.Ok("C12-R5", fn, construct+" [exit returns a non-nil error]", pos, "fault-path exit (non-nil error returned): leak tolerated by the property")
			return
		}
		g := groups[key]
		if g == nil {
			g = &leakGroup{fn, construct, pos, map[*ssa.Return]bool{}}
			groups[key] = g
			gorder = append(gorder, key)
		}
		g.rets[ret] = true
	}
	leakSeen := map[string]bool{}
	for _, res := range results {
		rt := res.Root
		if rt.Kind == "param" || rt.Kind == "field" {
			continue
		}
		how := rt.Kind
		if rt.Kind == "acquire" {
			how = "FramePool.Get"
		}
		anyLeak := false
		for _, oc := range res.Exits {
			if oc.St&core.StOwned == 0 || oc.St&(core.StEscaped|core.StAlias) != 0 {
				continue
			}
			// returned through a local helper / closure that is handed the
			// frame and returns a frame: the caller receives it
			if oc.Ret != nil && returnedThroughCall(oc.Ret, rt.Root) {
				continue
			}
			retDesc := "return"
			if oc.Ret != nil {
				var parts []string
				for _, v := range core.ReturnValues(oc.Ret) {
					parts = append(parts, shortRet(v))
				}
				retDesc = strings.Join(parts, ", ")
			}
			key := fname(rt.Fn) + "|" + how + "|" + retDesc
			anyLeak = true
			pos := "-"
			if oc.Ret != nil {
				pos = p.Pos(oc.Ret.Pos())
			}
			noteLeak(key, fname(rt.Fn), "exit "+retDesc+" with the "+how+" frame still owned", pos, oc.Ret)
		}
		if !anyLeak {
			key := fname(rt.Fn) + "|" + how + "|" + desc(rt.Root)
			if !leakSeen[key] {
				leakSeen[key] = true
				r.Ok("C12-R5", fname(rt.Fn), "frame from "+how+" ("+desc(rt.Root)+") handed back/over on every exit", p.Pos(rt.Root.Pos()), "all exit states are consumed/escaped")
			}
		}
	}
	for _, ev := range own.Events {
		if ev.Kind == "leak" {
			r.Fail("C12-R5", fname(ev.Fn), "re-acquire while owned: "+desc(ev.Root), p.Pos(ev.Instr.Pos()), ev.Note)
		}
	}
	// exits of frame-taking functions that keep the frame although other exits with the same
	// result hand it on: each must be a reviewed fault path
	var clk []string
	for k := range own.CalleeLeaks {
		clk = append(clk, k)
	}
	sort.Strings(clk)
	for _, k := range clk {
		ret := own.CalleeLeaks[k]
		fnn := fname(ret.Parent())
		var parts []string
		for _, v := range core.ReturnValues(ret) {
			parts = append(parts, shortRet(v))
		}
		key := fnn + "|param|" + strings.Join(parts, ", ")
		noteLeak(key, fnn, "exit "+strings.Join(parts, ", ")+" keeps the passed-in frame although other exits with the same result hand it on", p.Pos(ret.Pos()), ret)
	}
	var fault []string
	for _, key := range gorder {
		g := groups[key]
		rv, ok := reviewedLeaks[key]
		switch {
		case ok && len(g.rets) <= rv.n:
			r.Ok("C12-R5", g.fn, g.construct, g.pos, fmt.Sprintf("reviewed fault-path leak (%d exit(s)): %s", len(g.rets), rv.why))
			fault = append(fault, g.fn+": "+rv.why)
		case ok:
			r.Fail("C12-R5", g.fn, g.construct, g.pos, fmt.Sprintf("%d exits leak the frame with this result but only %d were reviewed as fault paths (key: %s)", len(g.rets), rv.n, key))
		default:
			r.Fail("C12-R5", g.fn, g.construct, g.pos, "the frame is neither handed back nor handed over on this exit, and the exit is not a reviewed fault path (key: "+key+")")
		}
	}
	sort.Strings(fault)
	r.Extra["reviewed_fault_path_leaks"] = fault
	// parameter leaks: informational list
	var info []string
	for _, res := range results {
		if res.Root.Kind != "param" || !returnsBool(res.Root.Fn) {
			continue
		}
		for _, oc := range res.Exits {
			if len(oc.Res) > 0 && oc.Res[0] == 0 && oc.St&core.StOwned != 0 && oc.St&(core.StConsumed|core.StEscaped|core.StAlias) == 0 {
				pos := "-"
				if oc.Ret != nil {
					pos = p.Pos(oc.Ret.Pos())
				}
				info = append(info, fname(res.Root.Fn)+" returns false with the frame still owned at "+pos)
			}
		}
	}
	sort.Strings(info)
	r.Extra["leaks_on_fault_paths"] = dedupe(info)
}

// flowsToFirstResult: the (first) result of call c reaches, through phis and
// tuple extraction only, the first returned value of f or the condition of a
// release in f (i.e. it is used as the "release?" verdict).
var allowIf bool

func flowsToFirstResult(f *ssa.Function, c *ssa.Call) bool {
	seen := map[ssa.Value]bool{}
	var reach func(v ssa.Value) bool
	reach = func(v ssa.Value) bool {
		if seen[v] {
			return false
		}
		seen[v] = true
		refs := v.Referrers()
		if refs == nil {
			return false
		}
		for _, ref := range *refs {
			switch x := ref.(type) {
			case *ssa.Return:
				if len(x.Results) > 0 && x.Results[0] == v {
					return true
				}
			case *ssa.Phi:
				if reach(x) {
					return true
				}
			case *ssa.Extract:
				if x.Index == 0 && reach(x) {
					return true
				}
			case *ssa.If:
				if allowIf {
					return true
				}
			case *ssa.Store:
				// defer-spilled named result
				if al, ok := x.Addr.(*ssa.Alloc); ok && x.Val == v {
					for _, r2 := range *al.Referrers() {
						if ld, ok := r2.(*ssa.UnOp); ok && reach(ld) {
							return true
						}
					}
				}
			}
		}
		return false
	}
	return reach(c)
}

func dedupe(s []string) []string {
	var out []string
	for i, x := range s {
		if i == 0 || x != s[i-1] {
			out = append(out, x)
		}
	}
	return out
}

// exitGuard names the innermost condition under which a return is reached (line-free).
func exitGuard(ret *ssa.Return) string {
	gs := core.GuardsAt(ret.Block())
	if len(gs) == 0 {
		return "always"
	}
	g := gs[len(gs)-1]
	s := desc(g.Cond)
	if !g.Pol {
		s = "!" + s
	}
	return s
}

func shortRet(v ssa.Value) string {
	v = core.Strip(v)
	switch x := v.(type) {
	case *ssa.Const:
		if x.Value == nil {
			return "nil"
		}
		return x.Value.ExactString()
	case *ssa.UnOp:
		if g, ok := x.X.(*ssa.Global); ok {
			return g.Name()
		}
	case *ssa.Call:
		if o := core.CalleeObj(x); o != nil {
			k := core.ShortKey(o)
			parts := strings.Split(k, ".")
			if len(parts) >= 2 && parts[0] != "fmt" {
				return "(" + "*" + parts[len(parts)-2] + ")." + parts[len(parts)-1]
			}
			return k
		}
	case *ssa.Phi:
		return "phi"
	case *ssa.Extract:
		return shortRet(x.Tuple)
	}
	if c := callResult(v); c != nil {
		return desc(c)
	}
	return desc(v)
}

func returnsBool(f *ssa.Function) bool {
	rs := f.Signature.Results()
	if rs.Len() == 0 {
		return false
	}
	b, ok := rs.At(0).Type().Underlying().(*types.Basic)
	return ok && b.Kind() == types.Bool
}

func triStr(v int8) string {
	switch v {
	case 0:
		return "false"
	case 1:
		return "true"
	}
	return "?"
}

func stStr(st uint8) string {
	var p []string
	if st&core.StOwned != 0 {
		p = append(p, "owned")
	}
	if st&core.StConsumed != 0 {
		p = append(p, "handed-off")
	}
	if st&core.StAlias != 0 {
		p = append(p, "aliased")
	}
	if st&core.StEscaped != 0 {
		p = append(p, "stored")
	}
	return strings.Join(p, "+")
}

func siteDesc(i ssa.Instruction, kind string) string {
	switch x := i.(type) {
	case ssa.CallInstruction:
		name := "call"
		if o := core.CalleeObj(x); o != nil {
			name = core.ShortKey(o)
		}
		pre := ""
		switch i.(type) {
		case *ssa.Go:
			pre = "go "
		case *ssa.Defer:
			pre = "defer "
		}
		var as []string
		for _, a := range core.CallArgs(x) {
			if isFrameT(a.Type()) {
				as = append(as, desc(a))
			}
		}
		return pre + name + "(" + strings.Join(as, ",") + ")"
	case *ssa.Send:
		return "send " + desc(x.X) + " on " + desc(x.Chan)
	case *ssa.Select:
		for _, st := range x.States {
			if st.Dir == types.SendOnly && isFrameT(st.Send.Type()) {
				return "select send " + desc(st.Send) + " on " + desc(st.Chan)
			}
		}
		return "select"
	case *ssa.FieldAddr:
		return "access " + desc(x)
	}
	return kind
}

func isFrameT(t types.Type) bool {
	pt, ok := t.(*types.Pointer)
	if !ok {
		return false
	}
	n, ok := pt.Elem().(*types.Named)
	return ok && n.Obj().Name() == "Frame" && n.Obj().Pkg() != nil && n.Obj().Pkg().Path() == core.Root
}

// returnsNonNilError: some error-typed result of this return is certainly
// non-nil (guarded by != nil on every path to the return, a package-level
// error sentinel, or a value that is never nil).
func returnsNonNilError(ret *ssa.Return) bool {
	errT := types.Universe.Lookup("error").Type()
	fs := factsAt(ret.Block())
	for _, v := range core.ReturnValues(ret) {
		if !types.Identical(v.Type(), errT) {
			continue
		}
		if k, isK := v.(*ssa.Const); isK && k.IsNil() {
			continue
		}
		if fs.nilCmp(func(x ssa.Value) bool { return x == v }, false) {
			return true
		}
		if u, isU := v.(*ssa.UnOp); isU && u.Op == token.MUL {
			if g, isG := u.X.(*ssa.Global); isG && (strings.HasPrefix(g.Name(), "err") || strings.HasPrefix(g.Name(), "Err")) {
				return true
			}
		}
		if core.NeverNil(v, 0) {
			return true
		}
	}
	return false
}

// recvTypeName: the short name of f's receiver type ("" for plain functions;
// closures take their parent's).
func recvTypeName(f *ssa.Function) string {
	for g := f; g != nil; g = g.Parent() {
		if recv := g.Signature.Recv(); recv != nil {
			return shortTypeName(recv.Type())
		}
	}
	return ""
}

// releasedByOwnersOnly: a pooled object that belongs to a message (its running
// checksum, its current frame) is given back only by the code that owns the
// message's life cycle: the fragment writer / reader for their checksum and
// fragments, the relayer when it finishes an item. A release from anywhere
// else (a sticky-error setter, a parser's error path, a table accessor) is
// either a second release of the same object on some path or a release while
// the owner still uses it.
func releasedByOwnersOnly(p *core.Prog, r *core.Report, rule string) {
	type spec struct {
		key     string
		what    string
		owners  map[string]bool
		finishR bool // a Relayer site must also finish the item
	}
	specs := []spec{
		{"Checksum.Release", "the message's checksum object", map[string]bool{"writableFragment": true, "fragmentingWriter": true, "fragmentingReader": true, "readableFragment": true, "Relayer": true, "noReleaseChecksum": true}, true},
		{"readableFragment.done", "the fragment's frame", map[string]bool{"fragmentingReader": true, "reqResReader": true, "readableFragment": true}, false},
	}
	for _, sp := range specs {
		n := 0
		for _, cs := range p.CallsTo(sp.key) {
			if !p.InAnalysed(cs.Fn) || pkgOf(cs.Fn) != core.Root {
				continue
			}
			n++
			owner := recvTypeName(cs.Fn)
			construct := fmt.Sprintf("%s released by its owner (#%d)", sp.what, n)
			if !sp.owners[owner] {
				r.Fail(rule, fname(cs.Fn), construct, p.Pos(cs.Call.Pos()), sp.what+" is released by "+fname(cs.Fn)+", which does not own the message's life cycle: the owner releases it as well (double release: two later users share one pooled object) or still uses it")
				continue
			}
			if owner == "Relayer" && sp.finishR && len(p.CallsDeep(cs.Fn, 1, "relayItems.Entomb", "relayItems.Delete")) == 0 {
				r.Fail(rule, fname(cs.Fn), construct, p.Pos(cs.Call.Pos()), "the relay releases the call's checksum object in a function that does not finish the item: later continuation frames of the call are forwarded without being re-stamped")
				continue
			}
			r.Ok(rule, fname(cs.Fn), construct, p.Pos(cs.Call.Pos()), "released by "+owner)
		}
		if n == 0 {
			r.Errorf("no call site of %s found", sp.key)
		}
	}
	// completing a normal response does not give the request's frames back:
	// the handler may still be reading its arguments (only the error answer,
	// which ends reading, and the reader itself do)
	if f := mustFunc(p, r, "", "InboundCallResponse", "doneSending"); f != nil {
		bad := p.CallsDeep(f, 3, "reqResReader.releasePreviousFragment")
		r.Check(len(bad) == 0, rule, fname(f), "completing a response leaves the request's frames to the reader", p.Pos(f.Pos()),
			"doneSending does not reach releasePreviousFragment", "completing the response releases the request's current frame while the handler may still read its arguments from it (the argument bytes become another message's)")
	}
}

// returnedThroughCall: one of the returned values is (a component of) the
// result of a call that was handed the frame and whose result type carries a
// *Frame: `return checked(frame)`.
func returnedThroughCall(ret *ssa.Return, root ssa.Value) bool {
	for _, v := range core.ReturnValues(ret) {
		if e, ok := v.(*ssa.Extract); ok {
			v = e.Tuple
		}
		c, ok := v.(*ssa.Call)
		if !ok {
			continue
		}
		passed := false
		for _, a := range c.Call.Args {
			if a == root {
				passed = true
			}
		}
		if !passed {
			continue
		}
		hasFrame := func(t types.Type) bool {
			pt, ok := t.(*types.Pointer)
			if !ok {
				return false
			}
			n, ok := pt.Elem().(*types.Named)
			return ok && n.Obj().Name() == "Frame"
		}
		t := c.Type()
		if hasFrame(t) {
			return true
		}
		if tup, ok := t.(*types.Tuple); ok {
			for k := 0; k < tup.Len(); k++ {
				if hasFrame(tup.At(k).Type()) {
					return true
				}
			}
		}
	}
	return false
}
