// Package rules holds the per-property rule instances.
package rules

import (
	"verif/sa/core"
)

// RuleFunc decides the structural clauses of one property.
type RuleFunc func(p *core.Prog, r *core.Report)

// Registry maps property ids to rule sets.
var Registry = map[string]RuleFunc{}

// ThoroughHooks are extra steps of the thorough tier per property.
var ThoroughHooks = map[string]func(p *core.Prog, r *core.Report){}

// Thorough runs the thorough-only steps.
func Thorough(prop string, p *core.Prog, r *core.Report) {
	if h, ok := ThoroughHooks[prop]; ok {
		h(p, r)
	}
}
