package rules

import (
	"fmt"
	"go/token"
	"go/types"
	"sort"
	"strings"

	"golang.org/x/tools/go/ssa"

	"verif/sa/core"
)

func init() { Registry["C20"] = c20 }

// sentinelCodes: documented codes of the exported / well-known error values.
var sentinelCodes = map[string]string{
	"ErrServerBusy":             "ErrCodeBusy",
	"ErrRequestCancelled":       "ErrCodeCancelled",
	"ErrTimeout":                "ErrCodeTimeout",
	"ErrTimeoutRequired":        "ErrCodeBadRequest",
	"ErrChannelClosed":          "ErrCodeDeclined",
	"ErrMethodTooLarge":         "ErrCodeProtocol",
	"ErrInvalidConnectionState": "ErrCodeNetwork",
	"errFrameNotSent":           "ErrCodeNetwork",
	"errBadRelayHost":           "ErrCodeDeclined",
	"errRelayMethodFragmented":  "ErrCodeBadRequest",
}

func c20(p *core.Prog, r *core.Report) {
	r.Explain = "Decides: (R1) SendSystemError builds the error frame from GetSystemErrorCode/GetSystemErrorMessage of the given error and the given id/span, and returns the construction error; (R2) no peer- or handler-supplied string is reinterpreted on the caller side: the error built from a received error/cancel frame takes code and message from the decoded fields, and no printf-style wrapper in the library is called with a non-constant format and no arguments; (R3) local conditions map to fixed codes: GetContextError maps DeadlineExceeded to the timeout error and Canceled to the cancelled error, the sentinel errors carry their documented codes (constant propagation through NewSystemError), connection loss is reported as a network error unless a system error says otherwise; (R4) outside relays a protocol-error frame reaches connectionError, and relay connections route error frames to the relayer; (R5) the application-error flag is written from the response's flag and read back from the same byte. (R6) A queued error frame is received before a later connection error, and the declined frame of a refused call is sent before the connection can close (shared with C04/C07). Connection loss maps to Network unless a received system error says otherwise; each relay failure reason carries its documented code (reason -> code table). No raw context error is returned to callers (census); the code a wrapped system error really carries is resolved through wrappers and closures. The error code points equal the specification's; a raw context error is neither returned nor stored as a sticky error; every protocol-error frame closes the connection whatever its id; SendSystemError queues the frame in every state but closed. The application-error flag is accepted only up to the pre-arg2 writer state; after errUnknownID every path of Relayer.Relay offers the frame to the connection's own outbound exchanges, whatever its type."
	r.NotDecided = "end-to-end delivery of every code x message size (the layout is C06's, delivery is C04/C08's); codes of relay-originated errors beyond the named sentinels."
	r.Rule("C20-R1", "E6 provenance", 4, "error frame carries the error's code and message")
	r.Rule("C20-R2", "E6 census", 4, "no received string used as a format; conversion preserves code and message")
	r.Rule("C20-R3", "E1 tables / constants", 10, "local conditions and sentinels map to their documented codes")
	r.Rule("C20-R4", "E1+E6", 3, "protocol errors close the connection outside relays; relays route error frames to the relayer")
	r.Rule("C20-R5", "E6 provenance", 3, "application-error flag written and read consistently")
	c20Frame(p, r)
	c20Format(p, r)
	c20Codes(p, r)
	wireCodes(p, r, "C20-R3", "error")
	c20Protocol(p, r)
	c20AppFlag(p, r)
	// shared obligations: a queued error frame wins over a later connection
	// error (with C04); the declined frame of a refused call is sent before
	// the connection can close (with C07)
	r.Rule("C20-R6", "E6 paths", 3, "a sent error frame is not lost to the connection closing")
	recvPriority(p, r, "C20-R6")
	refusalOrder(p, r, "C20-R6")
	errorFrameQueuedUnlessClosed(p, r, "C20-R6")
	errorFrameBeforeCompletion(p, r, "C20-R6")
}

func c20Frame(p *core.Prog, r *core.Report) {
	f := mustFunc(p, r, "", "Connection", "SendSystemError")
	if f == nil {
		return
	}
	want := map[string]func(ssa.Value) bool{
		"id":      func(v ssa.Value) bool { return v == ssa.Value(f.Params[1]) || loadsCellOf(v, f.Params[1]) },
		"errCode": func(v ssa.Value) bool { return callResult(v, "GetSystemErrorCode") != nil },
		"message": func(v ssa.Value) bool { return callResult(v, "GetSystemErrorMessage") != nil },
		"tracing": func(v ssa.Value) bool { return v == ssa.Value(f.Params[2]) || loadsCellOf(v, f.Params[2]) },
	}
	got := map[string]bool{}
	core.EachInstr(f, func(i ssa.Instruction) {
		st, ok := i.(*ssa.Store)
		if !ok {
			return
		}
		fld := core.AddrField(st.Addr)
		if fld == nil {
			return
		}
		if pred, ok := want[fld.Name()]; ok && shortTypeName(fieldOwnerType(p, fld)) == "errorMessage" {
			if pred(st.Val) {
				got[fld.Name()] = true
			}
		}
	})
	for _, k := range []string{"id", "errCode", "message", "tracing"} {
		r.Check(got[k], "C20-R1", fname(f), "errorMessage."+k+" from the caller's arguments", p.Pos(f.Pos()), "field stored from the expected source", "error frame field "+k+" is not taken from the error / id / span given")
	}
	// the argument of Code/Message is the err parameter
	okArg := true
	for _, c := range core.CallsIn(f, "GetSystemErrorCode", "GetSystemErrorMessage") {
		a := core.CallArgs(c)[0]
		if a != ssa.Value(f.Params[3]) && !loadsCellOf(a, f.Params[3]) {
			okArg = false
		}
	}
	r.Check(okArg, "C20-R1", fname(f), "code and message of the error that was passed in", p.Pos(f.Pos()), "both helpers receive the err parameter", "code/message are computed from a different error")
}

// loadsCellOf: v is a load of the cell a captured parameter was spilled into.
func loadsCellOf(v ssa.Value, prm *ssa.Parameter) bool {
	u, ok := v.(*ssa.UnOp)
	if !ok || u.Op != token.MUL {
		return false
	}
	al, ok := u.X.(*ssa.Alloc)
	if !ok {
		return false
	}
	for _, ref := range *al.Referrers() {
		if st, ok := ref.(*ssa.Store); ok && st.Addr == ssa.Value(al) && st.Val == ssa.Value(prm) {
			return true
		}
	}
	return false
}

// printfLike: functions of the analysed packages whose (format string, args ...interface{}) pair is forwarded to a fmt formatter.
func printfLike(p *core.Prog) map[*ssa.Function]int {
	out := map[*ssa.Function]int{}
	isFmt := func(o *types.Func) bool {
		if o == nil || o.Pkg() == nil || o.Pkg().Path() != "fmt" {
			return false
		}
		switch o.Name() {
		case "Sprintf", "Errorf", "Fprintf", "Printf":
			return true
		}
		return false
	}
	for changed := true; changed; {
		changed = false
		for _, f := range p.SrcFuncs {
			if _, done := out[f]; done || f.Signature.Variadic() == false {
				continue
			}
			n := f.Signature.Params().Len()
			if n < 2 {
				continue
			}
			fmtIdx := n - 2
			if b, ok := f.Signature.Params().At(fmtIdx).Type().Underlying().(*types.Basic); !ok || b.Kind() != types.String {
				continue
			}
			off := 0
			if f.Signature.Recv() != nil {
				off = 1
			}
			fmtParam := f.Params[fmtIdx+off]
			core.EachInstr(f, func(i ssa.Instruction) {
				c, ok := i.(ssa.CallInstruction)
				if !ok {
					return
				}
				args := c.Common().Args
				target := false
				fidx := -1
				if o := core.CalleeObj(c); isFmt(o) {
					target = true
					fidx = 0
					if o.Name() == "Fprintf" {
						fidx = 1
					}
				} else if cal := c.Common().StaticCallee(); cal != nil {
					if k, ok := out[cal]; ok {
						target, fidx = true, k
					}
				} else if c.Common().IsInvoke() {
					// Logger.Debugf etc.: treated as printf-like by name
					if m := c.Common().Method; m != nil && strings.HasSuffix(m.Name(), "f") && len(args) >= 1 {
						target, fidx = true, 0
					}
				}
				if target && fidx < len(args) && args[fidx] == ssa.Value(fmtParam) {
					if _, done := out[f]; !done {
						out[f] = fmtIdx + off
						changed = true
					}
				}
			})
		}
	}
	return out
}

func c20Format(p *core.Prog, r *core.Report) {
	pl := printfLike(p)
	r.Stats["printf_like_wrappers"] = len(pl)
	n := 0
	nth := map[string]int{}
	for _, f := range p.SrcFuncs {
		if !strings.HasPrefix(pkgOf(f), core.Root) {
			continue
		}
		core.EachInstr(f, func(i ssa.Instruction) {
			c, ok := i.(ssa.CallInstruction)
			if !ok {
				return
			}
			var fidx int
			name := ""
			if cal := c.Common().StaticCallee(); cal != nil {
				k, isPL := pl[cal]
				if !isPL {
					if o := core.CalleeObj(c); o != nil && o.Pkg() != nil && o.Pkg().Path() == "fmt" && (o.Name() == "Sprintf" || o.Name() == "Errorf") {
						k, isPL = 0, true
					}
				}
				if !isPL {
					return
				}
				fidx = k
				name = calleeShort(c)
				if strings.Contains(name, "Logger.") || strings.Contains(name, "logger.") {
					return // log text is not part of what reaches a caller
				}
			} else if c.Common().IsInvoke() && c.Common().Method != nil && strings.HasSuffix(c.Common().Method.Name(), "f") && strings.HasSuffix(core.ShortKey(c.Common().Method), "Logger."+c.Common().Method.Name()) {
				fidx = 0
				name = core.ShortKey(c.Common().Method)
			} else {
				return
			}
			args := c.Common().Args
			if fidx >= len(args) {
				return
			}
			format := args[fidx]
			if _, isConst := format.(*ssa.Const); isConst {
				return
			}
			// variadic slice empty?
			noArgs := false
			if last := args[len(args)-1]; core.IsNilConst(last) {
				noArgs = true
			}
			n++
			key := fname(f) + "|" + name
			nth[key]++
			construct := name + "(" + desc(format) + ") with a non-constant format"
			if nth[key] > 1 {
				construct += fmt.Sprintf(" #%d", nth[key])
			}
			if noArgs {
				r.Fail("C20-R2", fname(f), construct, p.Pos(i.Pos()), "a run-time string is used as a printf format with no arguments: '%' sequences in it are rewritten (a peer- or handler-supplied message is altered)")
			} else {
				// forwarding wrappers (format parameter passed on together with the args) are fine
				if prm, isP := format.(*ssa.Parameter); isP {
					if k, isPL := pl[f]; isPL && f.Params[k] == prm {
						r.OkTrivial("C20-R2", fname(f), construct, p.Pos(i.Pos()), "wrapper forwards its own format and arguments")
						return
					}
				}
				r.Ok("C20-R2", fname(f), construct, p.Pos(i.Pos()), "non-constant format is accompanied by arguments")
			}
		})
	}
	// conversion of received frames preserves code and message
	for _, m := range [][2]string{{"errorMessage", "AsSystemError"}, {"cancelMessage", "AsSystemError"}} {
		f := mustFunc(p, r, "", m[0], m[1])
		if f == nil {
			continue
		}
		msgOK, codeOK := false, false
		core.EachInstr(f, func(i ssa.Instruction) {
			st, ok := i.(*ssa.Store)
			if !ok {
				return
			}
			fld := core.AddrField(st.Addr)
			if fld == nil {
				return
			}
			owner := shortTypeName(fieldOwnerType(p, fld))
			if owner != "SystemError" {
				return
			}
			src := core.LoadedField(st.Val)
			if sf, isF := st.Val.(*ssa.Field); isF {
				src = core.FieldOfField(sf)
			}
			switch fld.Name() {
			case "msg":
				msgOK = src != nil && src.Name() == "message"
			case "code":
				if m[0] == "errorMessage" {
					codeOK = src != nil && src.Name() == "errCode"
				} else {
					k, isK := core.ConstInt(st.Val)
					d := p.NewDomain("", "SystemErrCode")
					codeOK = isK && d.Of(k) == d.OfName("ErrCodeCancelled")
				}
			}
		})
		r.Check(msgOK && codeOK, "C20-R2", fname(f), "SystemError{code, msg} taken verbatim from the decoded frame", p.Pos(f.Pos()), "code and message stored without reinterpretation", fmt.Sprintf("conversion does not copy code/message verbatim (code=%v msg=%v)", codeOK, msgOK))
	}
	if n == 0 {
		r.Ok("C20-R2", "package", "no printf-style call with a non-constant format", "-", fmt.Sprintf("%d printf-like wrappers, every call site uses a constant format", len(pl)))
	}
}

func c20Codes(p *core.Prog, r *core.Report) {
	d := p.NewDomain("", "SystemErrCode")
	// sentinels: package init stores NewSystemError(code, "...") into the global
	initF := p.SSA.Package(p.Pkg("")).Func("init")
	got := map[string]string{}
	if initF != nil {
		core.EachInstr(initF, func(i ssa.Instruction) {
			st, ok := i.(*ssa.Store)
			if !ok {
				return
			}
			g, ok := st.Addr.(*ssa.Global)
			if !ok {
				return
			}
			c := callResult(st.Val, "NewSystemError")
			if c == nil {
				return
			}
			if k, isK := core.ConstInt(core.CallArgs(c)[0]); isK {
				got[g.Name()] = d.Names[k]
			}
		})
	}
	var names []string
	for n := range sentinelCodes {
		names = append(names, n)
	}
	sort.Strings(names)
	for _, n := range names {
		r.Check(got[n] == sentinelCodes[n], "C20-R3", "package init", n+" carries "+sentinelCodes[n], "-", "constant code "+got[n], fmt.Sprintf("%s is built with %q", n, got[n]))
	}
	// NewSystemError stores its code parameter
	if f := mustFunc(p, r, "", "", "NewSystemError"); f != nil {
		ok := false
		core.EachInstr(f, func(i ssa.Instruction) {
			if st, isSt := i.(*ssa.Store); isSt {
				if fld := core.AddrField(st.Addr); fld != nil && fld.Name() == "code" && st.Val == ssa.Value(f.Params[0]) {
					ok = true
				}
			}
		})
		r.Check(ok, "C20-R3", fname(f), "SystemError.code = code parameter", p.Pos(f.Pos()), "code stored unchanged", "NewSystemError does not store the given code")
	}
	// GetContextError: DeadlineExceeded -> ErrTimeout ; Canceled -> ErrRequestCancelled ; else err
	if f := mustFunc(p, r, "", "", "GetContextError"); f != nil {
		m := map[string]string{}
		core.EachInstr(f, func(i ssa.Instruction) {
			ret, ok := i.(*ssa.Return)
			if !ok {
				return
			}
			rv := core.ReturnValues(ret)[0]
			fs := factsAt(ret.Block())
			cond := "else"
			for _, c := range fs.cmps {
				if c.Op != token.EQL {
					continue
				}
				for _, side := range []ssa.Value{c.X, c.Y} {
					if loadsGlobalPkg(side, "DeadlineExceeded") {
						cond = "DeadlineExceeded"
					}
					if loadsGlobalPkg(side, "Canceled") {
						cond = "Canceled"
					}
				}
			}
			switch {
			case loadsGlobal(rv, "ErrTimeout"):
				m[cond] = "ErrTimeout"
			case loadsGlobal(rv, "ErrRequestCancelled"):
				m[cond] = "ErrRequestCancelled"
			case rv == ssa.Value(f.Params[0]):
				m[cond] = "err"
			default:
				m[cond] = desc(rv)
			}
		})
		ok := m["DeadlineExceeded"] == "ErrTimeout" && m["Canceled"] == "ErrRequestCancelled" && m["else"] == "err"
		r.Check(ok, "C20-R3", fname(f), "DeadlineExceeded->ErrTimeout, Canceled->ErrRequestCancelled, else unchanged", p.Pos(f.Pos()), fmt.Sprint(m), "context error mapping is "+fmt.Sprint(m))
	}
	// GetSystemErrorCode: nil -> Invalid, SystemError -> its code, else Unexpected
	if f := mustFunc(p, r, "", "", "GetSystemErrorCode"); f != nil {
		var consts []string
		viaCode := false
		core.EachInstr(f, func(i ssa.Instruction) {
			ret, ok := i.(*ssa.Return)
			if !ok {
				return
			}
			rv := core.ReturnValues(ret)[0]
			if k, isK := core.ConstInt(rv); isK {
				consts = append(consts, d.Names[k])
			} else if callResult(rv, "SystemError.Code") != nil {
				viaCode = true
			}
		})
		sort.Strings(consts)
		ok := viaCode && strings.Join(consts, ",") == "ErrCodeInvalid,ErrCodeUnexpected"
		r.Check(ok, "C20-R3", fname(f), "nil->Invalid, SystemError->Code(), other->Unexpected", p.Pos(f.Pos()), "constants "+strings.Join(consts, ","), "code extraction returns "+strings.Join(consts, ",")+fmt.Sprintf(" viaCode=%v", viaCode))
	}
	// connection loss -> network error by default
	if f := mustFunc(p, r, "", "Connection", "logConnectionError"); f != nil {
		ok := false
		core.EachInstr(f, func(i ssa.Instruction) {
			if c, isC := core.IsCall(i, "NewWrappedSystemError"); isC {
				arg := core.CallArgs(c)[0]
				if phi, isPhi := arg.(*ssa.Phi); isPhi {
					// every constant the code can take is Network; the only
					// other source is the code of a received SystemError
					hasNet, onlyNet := false, true
					var walk func(v ssa.Value, d2 int)
					walk = func(v ssa.Value, d2 int) {
						if d2 > 6 {
							onlyNet = false
							return
						}
						if k, isK := core.ConstInt(v); isK {
							if d.Of(k) == d.OfName("ErrCodeNetwork") {
								hasNet = true
							} else {
								onlyNet = false
							}
							return
						}
						if ph, isP := v.(*ssa.Phi); isP {
							for _, e := range ph.Edges {
								walk(e, d2+1)
							}
							return
						}
						if callResult(v, "SystemError.Code") == nil {
							onlyNet = false
						}
					}
					walk(phi, 0)
					ok = hasNet && onlyNet
				}
				if k, isK := core.ConstInt(arg); isK && d.Of(k) == d.OfName("ErrCodeNetwork") {
					ok = true
				}
			}
		})
		r.Check(ok, "C20-R3", fname(f), "connection errors are wrapped as ErrCodeNetwork unless they are system errors", p.Pos(f.Pos()), "default code is network", "connection loss is not reported as a network error")
	}
}

// relayReasonCodes: the code carried by the error frame a relay sends for each
// of its own failure reasons (the reason is the metrics string given to
// RelayCall.Failed next to the frame; the codes are the documented ones: a
// destination that cannot be reached is a network error - callers retry it -,
// refusals are declined, the relay's own timer is a timeout).
var relayReasonCodes = map[string]string{
	"relay-bad-relay-host":       "ErrCodeDeclined",
	"relay-connection-failed":    "ErrCodeNetwork",
	"relay-client-conn-inactive": "ErrCodeDeclined",
	// the frame is built as NewWrappedSystemError(ErrCodeDeclined, err) but err
	// is already a Network system error, which the wrapper returns unchanged:
	// what callers have always received for this reason is Network (retried
	// under the default policy like Declined); that wire behaviour is the reference
	"relay-remote-inactive": "ErrCodeNetwork",
	"timeout":               "ErrCodeTimeout",
}

func c20RelayCodes(p *core.Prog, r *core.Report) {
	d := p.NewDomain("", "SystemErrCode")
	codeOf := func(v ssa.Value) string {
		v = core.Strip(v)
		for name, code := range sentinelCodes {
			if loadsGlobal(v, name) {
				return code
			}
		}
		if c := callResult(v, "NewWrappedSystemError"); c != nil && len(c.Call.Args) == 2 {
			// NewWrappedSystemError returns an existing SystemError unchanged:
			// the frame carries the code of the innermost system error
			if inner := systemErrorCodeOf(p, c.Call.Args[1], 0); inner != "" {
				return inner
			}
		}
		if c := callResult(v, "NewWrappedSystemError", "NewSystemError"); c != nil {
			if k, isK := core.ConstInt(c.Call.Args[0]); isK {
				for _, n := range []string{"ErrCodeTimeout", "ErrCodeCancelled", "ErrCodeBusy", "ErrCodeDeclined", "ErrCodeUnexpected", "ErrCodeBadRequest", "ErrCodeNetwork", "ErrCodeProtocol"} {
					if d.Of(k) == d.OfName(n) {
						return n
					}
				}
			}
		}
		return "a raw error (sent as ErrCodeUnexpected)"
	}
	n := 0
	for _, f := range p.SrcFuncs {
		if pkgOf(f) != core.Root || !strings.Contains(fname(f), "Relayer)") {
			continue
		}
		for _, snd := range core.CallsIn(f, "Connection.SendSystemError") {
			// the reason given to RelayCall.Failed in the same block
			reason := ""
			for _, j := range snd.Block().Instrs {
				if c, ok := isRelayCallMethod(j, "Failed"); ok {
					if k, isK := c.Common().Args[0].(*ssa.Const); isK && k.Value != nil {
						reason = strings.Trim(k.Value.ExactString(), "\"")
					}
				}
			}
			want, known := relayReasonCodes[reason]
			if !known {
				continue
			}
			n++
			got := codeOf(core.CallArgs(snd)[3])
			r.Check(got == want, "C20-R3", fname(f), "relay failure '"+reason+"' is sent as "+want, p.Pos(snd.Pos()), "error frame code "+got, "the relay's error frame for '"+reason+"' carries "+got+" instead of "+want)
		}
	}
	if n < 4 {
		r.Errorf("relay-originated error frames: found %d of the documented failure sites (expected at least 4)", n)
	}
}

// c20ContextErrors: wherever the library returns a context's error to its
// caller it goes through GetContextError (deadline -> timeout, cancel ->
// cancelled); a raw context.DeadlineExceeded / Canceled is reported by
// GetSystemErrorCode as "unexpected" and a relay wraps it as a network error.
func c20ContextErrors(p *core.Prog, r *core.Report, rule string) {
	isCtxErr := func(v ssa.Value) bool {
		c, ok := v.(*ssa.Call)
		if !ok || !c.Call.IsInvoke() || c.Call.Method.Name() != "Err" {
			return false
		}
		return strings.HasSuffix(c.Call.Value.Type().String(), "context.Context") || strings.HasSuffix(c.Call.Value.Type().String(), ".Context") || strings.HasSuffix(c.Call.Value.Type().String(), "ContextWithHeaders")
	}
	n := 0
	for _, f := range p.SrcFuncs {
		if pkgOf(f) != core.Root || f.Signature.Results().Len() == 0 {
			continue
		}
		core.EachInstr(f, func(i ssa.Instruction) {
			ret, ok := i.(*ssa.Return)
			if !ok {
				return
			}
			for _, v := range core.ReturnValues(ret) {
				var walk func(v ssa.Value, d int) bool
				walk = func(v ssa.Value, d int) bool {
					if d > 4 {
						return false
					}
					if isCtxErr(v) {
						return true
					}
					if ph, isPhi := v.(*ssa.Phi); isPhi {
						for _, e := range ph.Edges {
							if walk(e, d+1) {
								return true
							}
						}
					}
					return false
				}
				if walk(v, 0) {
					n++
					_, reviewed := rawContextErrorReviewed[fname(f)]
					r.Check(reviewed, rule, fname(f), "context error returned through GetContextError", p.Pos(ret.Pos()), "reviewed: "+rawContextErrorReviewed[fname(f)],
						"a context's raw error is returned to the caller: deadline / cancellation are reported as 'unexpected' instead of timeout / cancelled")
				}
			}
		})
	}
	// ... and a raw context error is not handed to a sticky-error setter (a
	// library function that stores its error parameter in a field: what it
	// keeps is what every later call on that reader / writer returns)
	for _, f := range p.SrcFuncs {
		if pkgOf(f) != core.Root {
			continue
		}
		core.EachInstr(f, func(i ssa.Instruction) {
			c, ok := i.(ssa.CallInstruction)
			if !ok {
				return
			}
			g := c.Common().StaticCallee()
			if g == nil || g.Blocks == nil || pkgOf(g) != core.Root {
				return
			}
			for k, a := range c.Common().Args {
				if !isCtxErr(a) || k >= len(g.Params) {
					continue
				}
				stored := false
				for _, ref := range *g.Params[k].Referrers() {
					if st, isSt := ref.(*ssa.Store); isSt && st.Val == ssa.Value(g.Params[k]) && core.AddrField(st.Addr) != nil {
						stored = true
					}
				}
				if stored {
					r.Fail(rule, fname(f), "context error kept through GetContextError", p.Pos(c.Pos()),
						"a context's raw error is stored by "+fname(g)+" as the sticky error of the operation: deadline / cancellation are reported as 'unexpected' instead of timeout / cancelled")
				}
			}
		})
	}
	// positive control: the mapping sites exist
	m := 0
	for _, cs := range p.CallsTo("GetContextError") {
		if isCtxErr(core.CallArgs(cs.Call)[0]) {
			m++
			r.Ok(rule, fname(cs.Fn), fmt.Sprintf("GetContextError(ctx.Err()) #%d", m), p.Pos(cs.Call.Pos()), "the context's error is converted before it is used as the operation's error")
		}
	}
	if m < 4 {
		r.Errorf("GetContextError(ctx.Err()) census found %d sites (expected at least 4)", m)
	}
	_ = n
}

// rawContextErrorReviewed: functions that legitimately return a context's raw error.
var rawContextErrorReviewed = map[string]string{}

func c20Protocol(p *core.Prog, r *core.Report) {
	c20RelayCodes(p, r)
	c20ContextErrors(p, r, "C20-R3")
	d := p.NewDomain("", "SystemErrCode")
	if f := mustFunc(p, r, "", "Connection", "handleError"); f != nil {
		ok := false
		for _, c := range core.CallsIn(f, "Connection.connectionError") {
			fs := factsAt(c.Block())
			if fs.hasCmp(func(v ssa.Value) bool { fl := core.LoadedField(v); return fl != nil && fl.Name() == "errCode" }, []token.Token{token.EQL}, d.Min(d.OfName("ErrCodeProtocol"))) {
				ok = true
			}
		}
		r.Check(ok, "C20-R4", fname(f), "errCode == ErrCodeProtocol -> connectionError", p.Pos(f.Pos()), "a protocol-error frame tears the connection down", "protocol-error frames no longer close the connection")
		// ... whatever else the frame carries (its id, its message): assuming the
		// code read is ErrCodeProtocol, no return is reachable that does not pass
		// connectionError
		hyp := map[ssa.Value]core.Set{}
		core.EachInstr(f, func(i ssa.Instruction) {
			if u, isU := i.(*ssa.UnOp); isU && u.Op == token.MUL {
				if fl := core.AddrField(u.X); fl != nil && fl.Name() == "errCode" {
					hyp[u] = d.OfName("ErrCodeProtocol")
				}
			}
		})
		if len(hyp) == 0 {
			r.Errorf("Connection.handleError: no read of the error code found")
		} else {
			fl := hypFlow(p, d, f, hyp)
			res := core.ReachAvoiding(f, nil, core.IsReturn, func(i ssa.Instruction) bool {
				_, is := core.IsCall(i, "Connection.connectionError")
				return is
			}, edgePrune(fl))
			r.Check(!res.Found, "C20-R4", fname(f), "every protocol-error frame closes the connection, whatever its id", p.Pos(f.Pos()),
				"assuming errCode == ErrCodeProtocol no return avoids connectionError", "a frame with code ErrCodeProtocol can be handled without closing the connection (an extra condition on the frame decides): "+p.TrailString(res))
		}
	}
	// a relay channel's own outgoing calls: a frame whose id the relayer does
	// not know is offered to the connection's outbound exchanges whatever its
	// type - the system error answering the relay's own call is such a frame
	if f := mustFunc(p, r, "", "Relayer", "Relay"); f != nil {
		n := 0
		for _, b := range f.Blocks {
			ifi, ok := b.Instrs[len(b.Instrs)-1].(*ssa.If)
			if !ok {
				continue
			}
			bo, ok := ifi.Cond.(*ssa.BinOp)
			if !ok || (bo.Op != token.EQL && bo.Op != token.NEQ) || !(loadsGlobal(bo.X, "errUnknownID") || loadsGlobal(bo.Y, "errUnknownID")) {
				continue
			}
			n++
			unknown := b.Succs[0]
			if bo.Op == token.NEQ {
				unknown = b.Succs[1]
			}
			isFwd := func(i ssa.Instruction) bool {
				_, is := core.IsCall(i, "messageExchangeSet.forwardPeerFrame")
				return is
			}
			first := unknown.Instrs[0]
			found := false
			var trail string
			if !isFwd(first) {
				res := core.ReachAvoiding(f, first, core.IsReturn, isFwd, nil)
				found, trail = res.Found, p.TrailString(res)
				if core.IsReturn(first) {
					found = true
				}
			}
			r.Check(!found, "C20-R4", fname(f), "frames with an id unknown to the relayer are offered to the connection's own calls, whatever their type", p.Pos(ifi.Pos()),
				"every path after errUnknownID passes outbound.forwardPeerFrame", "some frames with an unknown id (e.g. error frames) are dropped without being offered to the relay channel's own outgoing calls: the caller gets a timeout instead of the handler's system error: "+trail)
		}
		if n == 0 {
			r.Errorf("Relayer.Relay: no test of errUnknownID found")
		}
	}
	// dispatch: error frames go to handleError without relay, to the relayer with relay
	dm := p.NewDomain("", "messageType")
	if f := mustFunc(p, r, "", "Connection", "handleFrameNoRelay"); f != nil {
		ip := core.NewEnumInterp(p, dm)
		fl := ip.Flow(f, core.Ctx{})
		ok := false
		for _, c := range core.CallsIn(f, "Connection.handleError") {
			args := core.CallArgs(c)
			s, reach := fl.PathAt(core.AccessPath(args[1])+".&Header.&messageType", args[1], c)
			if reach && s == dm.OfName("messageTypeError") {
				ok = true
			}
		}
		r.Check(ok, "C20-R4", fname(f), "messageTypeError -> handleError", p.Pos(f.Pos()), "error frames and only error frames reach handleError", "error frames are not dispatched to handleError")
	}
	if f := mustFunc(p, r, "", "Connection", "handleFrameRelay"); f != nil {
		ip := core.NewEnumInterp(p, dm)
		fl := ip.Flow(f, core.Ctx{})
		ok := false
		for _, c := range core.CallsIn(f, "Relayer.Relay") {
			args := core.CallArgs(c)
			s, reach := fl.PathAt(core.AccessPath(args[1])+".&Header.&messageType", args[1], c)
			if reach && s&dm.OfName("messageTypeError") != 0 {
				ok = true
			}
		}
		r.Check(ok, "C20-R4", fname(f), "relay connections route error frames to the relayer", p.Pos(f.Pos()), "messageTypeError is among the types handed to Relay", "relay connections no longer forward error frames")
	}
}

func c20AppFlag(p *core.Prog, r *core.Report) {
	rcF := p.Field("", "callRes", "ResponseCode")
	dr := p.NewDomain("", "ResponseCode")
	if rcF == nil || dr == nil {
		r.Errorf("callRes.ResponseCode / ResponseCode do not resolve")
		return
	}
	appErr := dr.Min(dr.OfName("responseApplicationError"))
	// writer: in the inbound response's messageForFragment closure: ResponseCode = appError under response.applicationError
	if f := mustFunc(p, r, "", "Connection", "handleCallReq"); f != nil {
		ok := false
		// (the response object may be built in a helper of handleCallReq)
		for _, a := range p.FuncsDeep(f, 2) {
			core.EachInstr(a, func(i ssa.Instruction) {
				st, isSt := i.(*ssa.Store)
				if !isSt || core.AddrField(st.Addr) != rcF {
					return
				}
				if k, isK := core.ConstInt(st.Val); isK && k == appErr {
					fs := factsAt(st.Block())
					if fs.hasBool(func(v ssa.Value) bool { fl := core.LoadedField(v); return fl != nil && fl.Name() == "applicationError" }, true) {
						ok = true
					}
				}
			})
		}
		r.Check(ok, "C20-R5", fname(f), "ResponseCode = applicationError exactly when the response is flagged", p.Pos(f.Pos()), "store guarded by response.applicationError", "the application-error flag is not written from the response's flag")
	}
	if f := mustFunc(p, r, "", "InboundCallResponse", "SetApplicationError"); f != nil {
		ok := false
		core.EachInstr(f, func(i ssa.Instruction) {
			if st, isSt := i.(*ssa.Store); isSt {
				if fld := core.AddrField(st.Addr); fld != nil && fld.Name() == "applicationError" {
					if b, isB := core.ConstBool(st.Val); isB && b {
						ok = true
					}
				}
			}
		})
		r.Check(ok, "C20-R5", fname(f), "SetApplicationError sets the flag", p.Pos(f.Pos()), "applicationError = true", "SetApplicationError no longer sets the flag")
		// the flag travels in the header of the first response fragment, which
		// is built when arg2 is started: the flag can be set (with a nil result)
		// only while the writer has not passed the pre-arg2 state
		if dw := p.NewDomain("", "reqResWriterState"); dw != nil {
			pre2 := dw.Max(dw.OfName("reqResWriterPreArg2"))
			core.EachInstr(f, func(i ssa.Instruction) {
				st, isSt := i.(*ssa.Store)
				if !isSt {
					return
				}
				fld := core.AddrField(st.Addr)
				if fld == nil || fld.Name() != "applicationError" {
					return
				}
				set := dw.Declared()
				for _, c := range factsAt(st.Block()).cmps {
					x, y, op := c.X, c.Y, c.Op
					if _, isC := x.(*ssa.Const); isC {
						x, y = y, x
						op = mirror(op)
					}
					k, isK := core.ConstInt(y)
					if fl := core.LoadedField(x); isK && fl != nil && fl.Name() == "state" {
						set = dw.RefineConst(set, op, k)
					}
				}
				r.Check(dw.Max(set) <= pre2, "C20-R5", fname(f), "the flag is accepted only before the response header is built", p.Pos(st.Pos()),
					"states admitted to the store: "+dw.String(set), "SetApplicationError accepts the flag in "+dw.String(set)+": after arg2 was started the header already says OK, the handler is told nil and the caller never sees the flag")
			})
		}
	}
	if f := mustFunc(p, r, "", "OutboundCallResponse", "ApplicationError"); f != nil {
		ok := false
		core.EachInstr(f, func(i ssa.Instruction) {
			if bo, isB := i.(*ssa.BinOp); isB && bo.Op == token.EQL {
				if core.LoadedField(bo.X) == rcF {
					if k, isK := core.ConstInt(bo.Y); isK && k == appErr {
						ok = true
					}
				}
			}
		})
		r.Check(ok, "C20-R5", fname(f), "ApplicationError() = (ResponseCode == responseApplicationError)", p.Pos(f.Pos()), "reads the same byte it was written to", "the caller does not read the application-error flag from the response code")
	}
}

// systemErrorCodeOf: if v is certainly a SystemError built with a constant
// code (directly, through a phi, or as the result of a function all of whose
// non-nil returns are such), the name of that code; "" otherwise.
func systemErrorCodeOf(p *core.Prog, v ssa.Value, depth int) string {
	if depth > 3 {
		return ""
	}
	d := p.NewDomain("", "SystemErrCode")
	name := func(k int64) string {
		for _, n := range []string{"ErrCodeTimeout", "ErrCodeCancelled", "ErrCodeBusy", "ErrCodeDeclined", "ErrCodeUnexpected", "ErrCodeBadRequest", "ErrCodeNetwork", "ErrCodeProtocol"} {
			if d.Of(k) == d.OfName(n) {
				return n
			}
		}
		return ""
	}
	v = core.Strip(v)
	if c := callResult(v, "NewWrappedSystemError"); c != nil && len(c.Call.Args) == 2 {
		if in := systemErrorCodeOf(p, c.Call.Args[1], depth+1); in != "" {
			return in
		}
		if k, ok := core.ConstInt(c.Call.Args[0]); ok {
			return name(k)
		}
	}
	if c := callResult(v, "NewSystemError"); c != nil {
		if k, ok := core.ConstInt(c.Call.Args[0]); ok {
			return name(k)
		}
	}
	switch x := v.(type) {
	case *ssa.Extract:
		if c, ok := x.Tuple.(*ssa.Call); ok {
			if g := c.Call.StaticCallee(); g != nil && p.InAnalysed(g) && len(g.Blocks) > 0 {
				out := ""
				core.EachInstr(g, func(i ssa.Instruction) {
					ret, isRet := i.(*ssa.Return)
					if !isRet || x.Index >= len(ret.Results) {
						return
					}
					rv := core.ReturnValues(ret)[x.Index]
					if core.IsNilConst(rv) {
						return
					}
					if cde := systemErrorCodeOf(p, rv, depth+1); cde != "" {
						out = cde
					}
				})
				return out
			}
		}
	case *ssa.Call:
		if g := x.Call.StaticCallee(); g != nil && p.InAnalysed(g) && len(g.Blocks) > 0 && g.Signature.Results().Len() == 1 {
			// a wrapper that returns what its func argument returns (withStateRLock(f)):
			// look into the closure passed at this call site
			if idx, ok := onceWrapper(g); ok && idx < len(x.Call.Args) {
				if mc, isMC := x.Call.Args[idx].(*ssa.MakeClosure); isMC {
					out := ""
					core.EachInstr(mc.Fn.(*ssa.Function), func(i ssa.Instruction) {
						if ret, isRet := i.(*ssa.Return); isRet && len(ret.Results) == 1 && !core.IsNilConst(core.ReturnValues(ret)[0]) {
							if cde := systemErrorCodeOf(p, core.ReturnValues(ret)[0], depth+1); cde != "" {
								out = cde
							}
						}
					})
					if out != "" {
						return out
					}
				}
			}
			out := ""
			core.EachInstr(g, func(i ssa.Instruction) {
				if ret, isRet := i.(*ssa.Return); isRet && !core.IsNilConst(core.ReturnValues(ret)[0]) {
					if cde := systemErrorCodeOf(p, core.ReturnValues(ret)[0], depth+1); cde != "" {
						out = cde
					}
				}
			})
			return out
		}
	case *ssa.Phi:
		for _, e := range x.Edges {
			if cde := systemErrorCodeOf(p, e, depth+1); cde != "" {
				return cde
			}
		}
	}
	return ""
}
