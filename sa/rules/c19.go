package rules

import (
	"fmt"
	"go/token"
	"go/types"
	"sort"
	"strings"

	"golang.org/x/tools/go/ssa"

	"verif/sa/core"
)

func init() { Registry["C19"] = c19 }

// callActivityTypes: message types that count as call activity (property C19:
// call frames in either direction; pings, init and cancel do not count).
var callActivityTypes = map[string]bool{
	"messageTypeCallReq": true, "messageTypeCallReqContinue": true, "messageTypeCallRes": true, "messageTypeCallResContinue": true, "messageTypeError": true,
}

func c19(p *core.Prog, r *core.Report) {
	r.Explain = "Decides: (R1) the complete decision table of the activity predicate over every message type value (extracted from its CFG): true exactly for call req/res, their continuations and error frames, false for ping, init, cancel and unknown types; the two activity timestamps are stored only under that predicate, only by the two update functions, which are called only from the reader and writer loops with the frame just read / about to be written; (R2) the sweep closes a connection only under IsActive(), !hasPendingCalls() and membership in the idle list, whose append is guarded by now - later(lastRead, lastWrite) >= maxIdleTime; hasPendingCalls covers inbound, outbound and relayed calls; (R3) the health loop closes only under consecutiveFailures >= FailuresToClose, the counter is reset to 0 on success and incremented by one on failure, and cancellation leaves without closing; (R4) nothing reachable from the health loop waits for the loop's own termination (goroutine self-join). hasPendingCalls answers 'none' only after consulting inbound, outbound and relayed calls; a failed ping leaves the health loop uncounted only on 'cancelled' or 'invalid connection state'. Connection options (health defaults included) are defaulted when the connection is created. The accessors the sweep consults return their own timestamp. (R5) the relay pending count, input of the idle predicate, is balanced (shared with C09-R3); assuming HealthChecks.enabled() no return of callOnActive avoids starting the health-check goroutine."
	r.NotDecided = "behaviour over concrete tick / traffic timelines; that a sweep runs at all; clock behaviour."
	r.Rule("C19-R1", "E1 decision table + who-may-call", 12, "activity predicate table; timestamps written only under it from the reader/writer loops")
	r.Rule("C19-R2", "E6 guards", 5, "idle sweep closes exactly under its predicate")
	r.Rule("C19-R3", "E6 guards/phi", 3, "health loop: close at FailuresToClose consecutive failures, reset on success")
	r.Rule("C19-R4", "E4c self-join", 1, "no goroutine waits for its own exit")
	// "no pending calls" on a relay connection is its pending counter: a
	// counter that is not brought back to zero keeps the connection from ever
	// being swept (shared with C09-R3)
	r.Rule("C19-R5", "E6 who-may-call/paths", 6, "relay pending count (input of the idle predicate) is balanced (shared with C09)")
	r.Alias("C09-R3", "C19-R5")
	c09Pending(p, r)
	r.Alias("C09-R3", "")
	c19Activity(p, r)
	c19Sweep(p, r)
	c19Health(p, r)
	selfJoin(p, r, "C19-R4", "healthCheck")
}

func c19Activity(p *core.Prog, r *core.Report) {
	f := mustFunc(p, r, "", "", "isMessageTypeCall")
	d := p.NewDomain("", "messageType")
	if f == nil || d == nil {
		return
	}
	mtF := p.Field("", "FrameHeader", "messageType")
	cells := []core.TableCell{{Name: "type", D: d, Match: func(v ssa.Value) bool { return core.LoadedField(v) == mtF }}}
	rows, err := core.DecisionTable(f, cells, desc)
	if err != nil {
		r.Undecided("C19-R1", fname(f), "activity predicate table", p.Pos(f.Pos()), err.Error())
	} else {
		table := map[int]string{}
		for _, row := range rows {
			for b := 0; b < d.N(); b++ {
				if row.Sets[0]&(1<<uint(b)) != 0 {
					if old, ok := table[b]; ok && old != row.Result {
						r.Undecided("C19-R1", fname(f), "activity predicate table", p.Pos(f.Pos()), "ambiguous cell")
					}
					table[b] = row.Result
				}
			}
		}
		for b := 0; b < d.N(); b++ {
			lo, hi, ok := d.Range(b)
			if !ok {
				continue
			}
			name := fmt.Sprintf("other[%#x..%#x]", lo, hi)
			want := false
			if b%2 == 1 {
				name = d.Names[lo]
				want = callActivityTypes[name]
			}
			got, have := table[b]
			r.Check(have && got == fmt.Sprint(want), "C19-R1", fname(f), "isMessageTypeCall("+name+")", p.Pos(f.Pos()), "= "+got, fmt.Sprintf("predicate says %s (covered=%v), the property says %v", got, have, want))
		}
	}
	// with health checks enabled every active connection is probed, whichever
	// side opened it: assuming enabled(), no return of callOnActive avoids
	// starting the health-check goroutine
	if f := mustFunc(p, r, "", "Connection", "callOnActive"); f != nil {
		isStart := func(i ssa.Instruction) bool {
			g, ok := i.(*ssa.Go)
			if !ok {
				return false
			}
			for _, t := range p.Callees(g) {
				if t.Name() == "healthCheck" {
					return true
				}
			}
			return false
		}
		enabledTrue := func(from, to *ssa.BasicBlock) bool {
			if len(from.Succs) != 2 || from.Succs[0] == from.Succs[1] {
				return false
			}
			ifi, ok := from.Instrs[len(from.Instrs)-1].(*ssa.If)
			if !ok || callResult(ifi.Cond, "HealthCheckOptions.enabled") == nil {
				return false
			}
			return to == from.Succs[1]
		}
		n := 0
		core.EachInstr(f, func(i ssa.Instruction) {
			if isStart(i) {
				n++
			}
		})
		if n == 0 {
			r.Errorf("Connection.callOnActive: no `go c.healthCheck` found")
		} else {
			res := core.ReachAvoiding(f, nil, core.IsReturn, isStart, enabledTrue)
			r.Check(!res.Found, "C19-R3", fname(f), "enabled health checks run on every active connection", p.Pos(f.Pos()),
				"assuming HealthChecks.enabled() no return avoids `go healthCheck`", "health checks are enabled but some connections (another condition decides: direction, state) are never probed: an unresponsive peer on them is never detected: "+p.TrailString(res))
		}
	}
	// the accessors the sweep reads return their own timestamp: every atomic
	// Load in getLastActivityReadTime is on lastActivityRead, in
	// getLastActivityWriteTime on lastActivityWrite
	for _, acc := range [][2]string{{"getLastActivityReadTime", "lastActivityRead"}, {"getLastActivityWriteTime", "lastActivityWrite"}} {
		f := mustFunc(p, r, "", "Connection", acc[0])
		fld := mustField(p, r, "", "Connection", acc[1])
		if f == nil || fld == nil {
			continue
		}
		n, bad := 0, ""
		core.EachInstr(f, func(i ssa.Instruction) {
			c, ok := i.(*ssa.Call)
			if !ok {
				return
			}
			if o := core.CalleeObj(c); o == nil || o.Name() != "Load" {
				return
			}
			args := core.CallArgs(c)
			if len(args) == 0 {
				return
			}
			n++
			if got := core.AddrField(args[0]); got != fld {
				bad = "loads " + desc(args[0])
			}
		})
		r.Check(n > 0 && bad == "", "C19-R2", fname(f), "returns "+acc[1], p.Pos(f.Pos()), "the only atomic load is of "+acc[1],
			"the accessor the idle sweep consults does not return "+acc[1]+" ("+bad+"): frames in that direction no longer count as activity")
	}
	// timestamps
	rf := p.Func("", "Connection", "readFrames")
	wf := p.Func("", "Connection", "writeFrames")
	for _, side := range []struct {
		field, upd string
		loop       *ssa.Function
	}{{"lastActivityRead", "updateLastActivityRead", rf}, {"lastActivityWrite", "updateLastActivityWrite", wf}} {
		fld := mustField(p, r, "", "Connection", side.field)
		upd := mustFunc(p, r, "", "Connection", side.upd)
		if fld == nil || upd == nil {
			continue
		}
		// Store calls on the atomic
		for _, g := range p.SrcFuncs {
			core.EachInstr(g, func(i ssa.Instruction) {
				c, ok := i.(*ssa.Call)
				if !ok {
					return
				}
				o := core.CalleeObj(c)
				if o == nil || (o.Name() != "Store" && o.Name() != "Swap" && o.Name() != "Add" && o.Name() != "CAS") {
					return
				}
				args := core.CallArgs(c)
				if len(args) == 0 || core.AddrField(args[0]) != fld {
					return
				}
				guarded := factsAt(c.Block()).hasBool(func(v ssa.Value) bool { return callResult(v, "isMessageTypeCall") != nil }, true)
				r.Check(g == upd && guarded, "C19-R1", fname(g), side.field+"."+o.Name()+" under isMessageTypeCall(frame)", p.Pos(i.Pos()),
					"written only by "+side.upd+" under the activity predicate", "activity timestamp written outside the predicate (ping traffic would count as activity)")
			})
		}
		// callers of the update function
		n := 0
		for _, cs := range p.CallsTo("Connection." + side.upd) {
			n++
			r.Check(cs.Fn == side.loop, "C19-R1", fname(cs.Fn), "call "+side.upd, p.Pos(cs.Call.Pos()), "called from the connection's "+side.loop.Name()+" loop", "activity recorded from outside the frame loops")
		}
		if n == 0 {
			r.Fail("C19-R1", fname(upd), side.upd+" is called", p.Pos(upd.Pos()), "activity is never recorded: every connection looks idle")
		}
	}
}

func c19Sweep(p *core.Prog, r *core.Report) {
	f := mustFunc(p, r, "", "idleSweep", "checkIdleConnections")
	if f == nil {
		return
	}
	fn := fname(f)
	closes := core.CallsIn(f, "Connection.close")
	if len(closes) != 1 {
		r.Errorf("checkIdleConnections: expected one close call, found %d", len(closes))
		return
	}
	cl := closes[0]
	fs := factsAt(cl.Block())
	active := fs.hasBool(func(v ssa.Value) bool { return callResult(v, "Connection.IsActive") != nil }, true)
	pending := fs.hasBool(func(v ssa.Value) bool { return callResult(v, "Connection.hasPendingCalls") != nil }, false)
	r.Check(active, "C19-R2", fn, "close only if IsActive()", p.Pos(cl.Pos()), "dominated by IsActive() == true", "idle close is not restricted to active connections")
	r.Check(pending, "C19-R2", fn, "close only if !hasPendingCalls()", p.Pos(cl.Pos()), "dominated by hasPendingCalls() == false", "connections with pending calls can be closed as idle")
	// the closed connection ranges over the idle list; appends to it are guarded by idle >= maxIdleTime
	maxF := p.Field("", "idleSweep", "maxIdleTime")
	var appendOK, laterOK bool
	core.EachInstr(f, func(i ssa.Instruction) {
		c, ok := i.(*ssa.Call)
		if !ok {
			return
		}
		if b, isB := c.Call.Value.(*ssa.Builtin); !isB || b.Name() != "append" {
			return
		}
		afs := factsAt(c.Block())
		for _, cm := range afs.cmps {
			x, y, op := cm.X, cm.Y, cm.Op
			if core.LoadedField(y) != maxF {
				if core.LoadedField(x) == maxF {
					x, y, op = y, x, mirror(op)
				} else {
					continue
				}
			}
			if op != token.GEQ {
				continue
			}
			// x = now.Sub(lastActivityTime)
			sub := callResult(x, "time.Time.Sub")
			if sub == nil {
				continue
			}
			appendOK = true
			// lastActivityTime = phi(read, write) with the write edge under read.Before(write)
			last := core.CallArgs(sub)[1]
			if laterOfTwo(last) {
				laterOK = true
			}
		}
	})
	r.Check(appendOK, "C19-R2", fn, "idle list: now - lastActivity >= maxIdleTime", p.Pos(f.Pos()), "append guarded by the >= comparison with maxIdleTime", "idle criterion is not `>= maxIdleTime` of the time since the last activity")
	r.Check(laterOK, "C19-R2", fn, "lastActivity = later of last read and last write", p.Pos(f.Pos()), "write time replaces read time exactly when read.Before(write)", "idle time is not measured from the later of read and write activity")
	// the closed connection comes from the idle list
	fromList := false
	if rcv := core.CallArgs(cl)[0]; rcv != nil {
		fromList = derivesFromRange(rcv)
	}
	r.Check(fromList, "C19-R2", fn, "closed connection is an element of the idle list", p.Pos(cl.Pos()), "receiver is the range variable over idleConnections", "sweep closes a connection that is not in the idle list")
	// hasPendingCalls covers inbound, outbound, relay
	if h := mustFunc(p, r, "", "Connection", "hasPendingCalls"); h != nil {
		got := map[string]bool{}
		for _, c := range core.CallsIn(h, "messageExchangeSet.count") {
			got[recvFieldName(c)] = true
		}
		for _, c := range core.CallsIn(h, "Relayer.canClose") {
			_ = c
			got["relay"] = true
		}
		var ks []string
		for k := range got {
			ks = append(ks, k)
		}
		sort.Strings(ks)
		r.Check(got["inbound"] && got["outbound"] && got["relay"], "C19-R2", fname(h), "pending = inbound or outbound or relayed calls", p.Pos(h.Pos()), "covers "+strings.Join(ks, ","), "hasPendingCalls covers only "+strings.Join(ks, ","))
		// "no pending calls" is answered only after all three were looked at:
		// every return other than the constant true has passed the inbound
		// count, the outbound count and the relay's canClose
		notTrue := func(i ssa.Instruction, resolve func(ssa.Value) ssa.Value) bool {
			ret, isRet := i.(*ssa.Return)
			if !isRet {
				return false
			}
			// `return a || b || c` returns a phi that is the constant true on
			// the short-circuit edges: judge the value the path arrives with
			b, isB := core.ConstBool(resolve(core.ReturnValues(ret)[0]))
			return !isB || !b
		}
		how := ""
		for _, what := range []string{"inbound", "outbound", "relay"} {
			what := what
			res := core.ReachPhiSensitiveV(h, nil, notTrue, func(i ssa.Instruction) bool {
				if what == "relay" {
					_, is := core.IsCall(i, "Relayer.canClose")
					return is
				}
				c, is := core.IsCall(i, "messageExchangeSet.count")
				return is && recvFieldName(c) == what
			})
			if res.Found {
				how = "a path answers (possibly 'no pending calls') without looking at the " + what + " calls: " + p.TrailString(res)
			}
		}
		r.Check(how == "", "C19-R2", fname(h), "all three kinds of pending calls are consulted before answering 'none'", p.Pos(h.Pos()), "every non-true return passes inbound.count, outbound.count and relay.canClose", how)
	}
}

// laterOfTwo: v = phi(readTime, writeTime) where the writeTime edge is taken under readTime.Before(writeTime).
func laterOfTwo(v ssa.Value) bool {
	phi, ok := v.(*ssa.Phi)
	if !ok || len(phi.Edges) != 2 {
		return false
	}
	isRead := func(x ssa.Value) bool { return callResult(x, "Connection.getLastActivityReadTime") != nil }
	isWrite := func(x ssa.Value) bool { return callResult(x, "Connection.getLastActivityWriteTime") != nil }
	for i, e := range phi.Edges {
		if !isWrite(e) {
			continue
		}
		other := phi.Edges[1-i]
		if !isRead(other) {
			return false
		}
		pred := phi.Block().Preds[i]
		fs := factsAt(pred).add(edgeFacts(pred, phi.Block()))
		return fs.hasBool(func(b ssa.Value) bool {
			c := callResult(b, "time.Time.Before")
			if c == nil {
				return false
			}
			a := core.CallArgs(c)
			return isRead(a[0]) && isWrite(a[1])
		}, true)
	}
	return false
}

// derivesFromRange: v is an element read while ranging over a local slice.
func derivesFromRange(v ssa.Value) bool {
	switch x := v.(type) {
	case *ssa.UnOp:
		if ia, ok := x.X.(*ssa.IndexAddr); ok {
			_ = ia
			return true
		}
	case *ssa.Extract:
		if _, ok := x.Tuple.(*ssa.Next); ok {
			return true
		}
	case *ssa.Index:
		return true
	}
	return false
}

func c19Health(p *core.Prog, r *core.Report) {
	// the health options a connection runs with went through withDefaults()
	// when the connection was created (options can be changed on a live
	// channel through Channel.ConnectionOptions(); a zero FailuresToClose
	// would close at the first failure, a zero Timeout fail every ping)
	if nc := mustFunc(p, r, "", "Channel", "newConnection"); nc != nil {
		optsF := p.Field("", "Connection", "opts")
		ok := false
		core.EachInstr(nc, func(i ssa.Instruction) {
			if st, isSt := i.(*ssa.Store); isSt && core.AddrField(st.Addr) == optsF {
				v := st.Val
				for d := 0; d < 4; d++ {
					if u, isU := v.(*ssa.UnOp); isU && u.Op == token.MUL {
						if al, isAl := u.X.(*ssa.Alloc); isAl {
							for _, ref := range *al.Referrers() {
								if s2, isS := ref.(*ssa.Store); isS && s2.Addr == ssa.Value(al) {
									v = s2.Val
								}
							}
							continue
						}
					}
					break
				}
				if callResult(v, "ConnectionOptions.withDefaults") != nil {
					ok = true
				}
			}
		})
		if hw := p.Func("", "ConnectionOptions", "withDefaults"); hw != nil {
			ok = ok && len(core.CallsIn(hw, "HealthCheckOptions.withDefaults")) > 0
		}
		r.Check(ok, "C19-R3", fname(nc), "connection options (health defaults included) are defaulted when the connection is created", p.Pos(nc.Pos()), "Connection.opts = connectionOptions.withDefaults()", "a connection can run its health checks with undefaulted options (FailuresToClose 0: closed at the first failure)")
	}
	f := mustFunc(p, r, "", "Connection", "healthCheck")
	if f == nil {
		return
	}
	fn := fname(f)
	closes := core.CallsIn(f, "Connection.close")
	if len(closes) != 1 {
		r.Errorf("healthCheck: expected one close, found %d", len(closes))
		return
	}
	cl := closes[0]
	ftc := p.Field("", "HealthCheckOptions", "FailuresToClose")
	var counter ssa.Value
	for _, cm := range factsAt(cl.Block()).cmps {
		if cm.Op == token.GEQ && core.LoadedField(cm.Y) == ftc {
			counter = cm.X
		}
		if cm.Op == token.LEQ && core.LoadedField(cm.X) == ftc {
			counter = cm.Y
		}
	}
	r.Check(counter != nil, "C19-R3", fn, "close only if consecutiveFailures >= FailuresToClose", p.Pos(cl.Pos()), "dominated by the >= comparison with the option", "health close is not guarded by `failures >= FailuresToClose` (earlier or later close)")
	if counter != nil {
		// counter = phi + 1 where phi edges are 0 (init), 0 (success arm) or the incremented value (failure arm)
		inc, ok := counter.(*ssa.BinOp)
		okShape := false
		why := "counter is not phi+1"
		if ok && inc.Op == token.ADD {
			if k, isK := core.ConstInt(inc.Y); isK && k == 1 {
				if phi, isPhi := inc.X.(*ssa.Phi); isPhi {
					okShape = true
					var desc []string
					for i, e := range phi.Edges {
						pred := phi.Block().Preds[i]
						if k, isK := core.ConstInt(e); isK {
							if k != 0 {
								okShape = false
							}
							desc = append(desc, "0")
							// a zero edge from inside the loop must be the success arm (err == nil)
							if phi.Block().Dominates(pred) {
								fs := factsAt(pred).add(edgeFacts(pred, phi.Block()))
								if !fs.nilCmp(func(v ssa.Value) bool { return resultThrough(p, v, 0, "Connection.ping") }, true) {
									okShape = false
									why = "counter reset on a path that is not the successful ping"
								}
							}
						} else if e == ssa.Value(inc) {
							desc = append(desc, "+1")
						} else {
							okShape = false
							why = "unexpected counter source " + descV(e)
						}
					}
					if okShape {
						why = "counter edges: " + strings.Join(desc, ", ")
					}
					// the success arm must reset: some zero edge from inside the loop exists
					reset := false
					for i, e := range phi.Edges {
						if k, isK := core.ConstInt(e); isK && k == 0 && phi.Block().Dominates(phi.Block().Preds[i]) {
							reset = true
						}
					}
					if !reset {
						okShape = false
						why = "counter is never reset on success"
					}
				}
			}
		}
		r.Check(okShape, "C19-R3", fn, "counter: 0 initially, 0 after a successful ping, +1 after a failed one", p.Pos(cl.Pos()), why, why)
	}
	// cancellation exits without closing: returns guarded by ctx.Done arm or the cancelled/invalid-state test are not the close path
	n := 0
	core.EachInstr(f, func(i ssa.Instruction) {
		if _, ok := i.(*ssa.Return); ok && !core.IsRecoverBlock(i.Block()) {
			n++
		}
	})
	// every path from the loop's ctx.Done arm to a return avoids close
	var doneSel *ssa.Select
	core.EachInstr(f, func(i ssa.Instruction) {
		if s, ok := i.(*ssa.Select); ok && s.Blocking {
			for _, st := range s.States {
				if isCtxDone(st.Chan) {
					doneSel = s
				}
			}
		}
	})
	r.Check(doneSel != nil, "C19-R3", fn, "loop waits on tick or health-check context", p.Pos(f.Pos()), "select has the context Done() arm", "health loop cannot be cancelled")
	_ = types.Typ
	// a failed ping leaves the loop without being counted only when the
	// health checks were cancelled (error code Cancelled - a ping that merely
	// timed out is a failure) or the connection is no longer usable
	// the ping (or the helper that performs it and returns its error)
	var pings []ssa.CallInstruction
	core.EachInstr(f, func(i ssa.Instruction) {
		if c, ok := i.(*ssa.Call); ok && resultThrough(p, c, 0, "Connection.ping") {
			pings = append(pings, c)
		}
	})
	if counter != nil && len(pings) == 1 {
		inc, _ := counter.(*ssa.BinOp)
		errV := pings[0].Value()
		cancelled, _ := constVal(p, "ErrCodeCancelled")
		accepted := func(pred, to *ssa.BasicBlock) bool {
			ifi, ok := pred.Instrs[len(pred.Instrs)-1].(*ssa.If)
			if !ok || pred.Succs[0] != to {
				return false
			}
			bo, ok := ifi.Cond.(*ssa.BinOp)
			if !ok || bo.Op != token.EQL {
				return false
			}
			if callResult(bo.X, "GetSystemErrorCode") != nil {
				k, isK := core.ConstInt(bo.Y)
				return isK && k == cancelled
			}
			if bo.X == ssa.Value(errV) && loadsGlobal(bo.Y, "ErrInvalidConnectionState") {
				return true
			}
			return false
		}
		var loops []*core.Loop
		for _, l := range core.Loops(f) {
			loops = append(loops, l)
		}
		isBack := func(a, b *ssa.BasicBlock) bool {
			for _, l := range loops {
				if l.Header == b && l.Blocks[a] {
					return true
				}
			}
			return false
		}
		ok, how := true, ""
		for _, b := range f.Blocks {
			if !factsAt(b).nilCmp(func(v ssa.Value) bool { return v == ssa.Value(errV) }, false) || len(b.Preds) != 1 {
				continue
			}
			// b: first block of the failure arm
			res := core.ReachAvoiding(f, b.Instrs[0], func(i ssa.Instruction) bool {
				ret, isRet := i.(*ssa.Return)
				if !isRet {
					return false
				}
				for _, pr := range ret.Block().Preds {
					if !accepted(pr, ret.Block()) {
						return true
					}
				}
				return false
			}, func(i ssa.Instruction) bool { return inc != nil && i == ssa.Instruction(inc) }, isBack)
			if res.Found {
				ok, how = false, "a failed ping can end the health loop without being counted on a condition other than 'checks cancelled' / 'connection state invalid' (e.g. a ping timeout): "+p.TrailString(res)
			}
			break
		}
		r.Check(ok, "C19-R3", fn, "uncounted exit after a failed ping only when cancelled or the connection is unusable", p.Pos(pings[0].Pos()), "early returns on the failure arm are the true arms of GetSystemErrorCode(err) == ErrCodeCancelled / err == ErrInvalidConnectionState", how)
	}
}

func descV(v ssa.Value) string { return desc(v) }
