package rules

import (
	"fmt"
	"go/token"
	"go/types"
	"sort"
	"strings"

	"golang.org/x/tools/go/ssa"

	"verif/sa/core"
)

func init() { Registry["C11"] = c11 }

// selfJoin: for every channel field that is closed only inside one goroutine
// entry function (its "done" channel), no receive on that field may be
// reachable from that goroutine's own synchronous call tree. only!="" restricts
// the report to goroutines whose entry function has that name.
func selfJoin(p *core.Prog, r *core.Report, rule, only string) {
	// goroutine entry functions
	entries := map[*ssa.Function]bool{}
	for _, f := range p.SrcFuncs {
		core.EachInstr(f, func(i ssa.Instruction) {
			if g, ok := i.(*ssa.Go); ok {
				for _, t := range p.Callees(g) {
					entries[t] = true
				}
				if mc, ok := g.Call.Value.(*ssa.MakeClosure); ok {
					entries[mc.Fn.(*ssa.Function)] = true
				}
			}
		})
	}
	// close(x.F) census by field -> closing top-level functions
	closers := map[*types.Var]map[*ssa.Function]bool{}
	for _, f := range p.SrcFuncs {
		core.EachInstr(f, func(i ssa.Instruction) {
			var args []ssa.Value
			if c, ok := core.IsBuiltin(i, "close"); ok {
				args = c.Call.Args
			} else if d, ok := i.(*ssa.Defer); ok {
				if b, isB := d.Call.Value.(*ssa.Builtin); isB && b.Name() == "close" {
					args = d.Call.Args
				}
			}
			if len(args) == 0 {
				return
			}
			fld := core.LoadedField(args[0])
			if fld == nil {
				return
			}
			top := f
			for top.Parent() != nil {
				top = top.Parent()
			}
			if closers[fld] == nil {
				closers[fld] = map[*ssa.Function]bool{}
			}
			closers[fld][top] = true
		})
	}
	n := 0
	var flds []*types.Var
	for fld := range closers {
		flds = append(flds, fld)
	}
	sort.Slice(flds, func(i, j int) bool { return flds[i].Name() < flds[j].Name() })
	for _, fld := range flds {
		fs := closers[fld]
		if len(fs) != 1 {
			continue
		}
		var g *ssa.Function
		for f := range fs {
			g = f
		}
		if !entries[g] {
			continue
		}
		if only != "" && g.Name() != only {
			continue
		}
		n++
		reach := syncReach(p, g)
		var bad []string
		var at ssa.Instruction
		for _, w := range core.SortedFuncs(reach) {
			core.EachInstr(w, func(i ssa.Instruction) {
				waits := false
				switch x := i.(type) {
				case *ssa.UnOp:
					waits = x.Op == token.ARROW && core.LoadedField(x.X) == fld
				case *ssa.Select:
					if x.Blocking && len(x.States) == 1 && core.LoadedField(x.States[0].Chan) == fld {
						waits = true
					}
				}
				if waits {
					bad = append(bad, fname(w))
					at = i
				}
			})
		}
		construct := "goroutine " + g.Name() + " never waits for its own exit signal " + shortTypeName(fieldOwnerType(p, fld)) + "." + fld.Name()
		if len(bad) == 0 {
			r.Ok(rule, fname(g), construct, p.Pos(g.Pos()), fmt.Sprintf("no receive on %s among the %d functions reachable from the goroutine", fld.Name(), len(reach)))
		} else {
			path := callPath(p, g, at.Parent())
			r.Fail(rule, fname(g), construct, p.Pos(at.Pos()), "the goroutine can reach a wait for the channel only it closes: "+strings.Join(path, " -> ")+" -> <-"+fld.Name()+" (the goroutine never ends and whatever follows the wait never runs)")
		}
	}
	if n == 0 {
		r.Errorf("%s: no goroutine with a private done channel found (anchor moved)", rule)
	}
}

func fieldOwnerType(p *core.Prog, fld *types.Var) types.Type {
	for _, pk := range p.Pkgs {
		sc := pk.Types.Scope()
		for _, n := range sc.Names() {
			if tn, ok := sc.Lookup(n).(*types.TypeName); ok {
				if st, ok := tn.Type().Underlying().(*types.Struct); ok {
					for i := 0; i < st.NumFields(); i++ {
						if st.Field(i) == fld {
							return tn.Type()
						}
					}
				}
			}
		}
	}
	return fld.Type()
}

// callPath: a shortest call chain from `from` to `to` (function names).
func callPath(p *core.Prog, from, to *ssa.Function) []string {
	prev := map[*ssa.Function]*ssa.Function{from: nil}
	queue := []*ssa.Function{from}
	for len(queue) > 0 {
		f := queue[0]
		queue = queue[1:]
		if f == to {
			break
		}
		if f.Blocks == nil {
			continue
		}
		core.EachInstr(f, func(i ssa.Instruction) {
			c, ok := i.(ssa.CallInstruction)
			if !ok {
				return
			}
			if _, isGo := i.(*ssa.Go); isGo {
				return
			}
			for _, t := range p.Callees(c) {
				if _, seen := prev[t]; !seen && p.InAnalysed(t) {
					prev[t] = f
					queue = append(queue, t)
				}
			}
		})
	}
	var out []string
	for f := to; f != nil; f = prev[f] {
		out = append([]string{f.Name()}, out...)
		if f == from {
			break
		}
	}
	return out
}

func c11(p *core.Prog, r *core.Report) {
	r.Explain = "Decides structural necessary conditions of returning to a clean state: (R1) after every successful registration of a message exchange, every path either removes it (shutdown / removeExchange, possibly deferred) or hands it to a call object whose failure/completion methods reach shutdown; (R2) every removal re-evaluates the connection's close state: removeExchange and expireExchange call onRemoved, which newConnection binds to checkExchanges for both sets, and the inbound watcher expires the exchange on both of its arms; (R3) closed connections are dropped: the close-state callback is bound for both directions, removes closed connections from the channel and from both peers (dialled and announced host:port); (R4) every goroutine the library starts has an exit: each loop in a `go` target has an exit edge tied to a stop signal that some function raises (closed channel, cancelled context, closed socket), and no goroutine can reach a wait for its own exit signal; (R5) relay items are deleted after their tombstone period (Entomb schedules Delete). The dispatch goroutine of an inbound call leaves only through a handler or the failed-method-read arm; readMethod reports failures only through failed(); call objects shut the exchange down on every path unless an earlier failure did; only active connections are listed under a peer. (R6) the relay pending count is balanced (shared with C09); neither close notification of the two peers depends on the other peer being absent. A connection refused by Channel.addConnection is closed; the channel tracks only connections admitted in the client/listening state. Relay items are failed / finished under the id that keys this connection's table (shared with C08-R2). A lookup that stops an item's timer happens only where the item is then finished (shared with C09-R4)."
	r.NotDecided = "that concrete histories actually reach quiescence; leak-freedom under rare interleavings; timer goroutines of time.AfterFunc; user handler goroutines."
	r.Rule("C11-R1", "E6 paths", 3, "registered exchanges always get a remover")
	r.Rule("C11-R2", "E6 who-may-call", 6, "every removal re-evaluates the close state")
	r.Rule("C11-R3", "E6 provenance", 4, "closed connections are dropped from channel and peers")
	r.Rule("C11-R4", "E6 loops + E4c self-join", 6, "library goroutines have exits; none waits for its own exit")
	r.Rule("C11-R5", "E6 paths", 2, "relay items deleted after the tombstone period")
	c11Exchanges(p, r)
	c11Removal(p, r)
	c11Dropped(p, r)
	refusedConnIsClosed(p, r, "C11-R3")
	channelTracksOnlyOpen(p, r, "C11-R3")
	if f := mustFunc(p, r, "", "Peer", "addConnection"); f != nil {
		peerListOnlyActive(p, r, f, "C11-R3")
	}
	c11Goroutines(p, r)
	selfJoin(p, r, "C11-R4", "")
	c11Relay(p, r)
	// a relay connection is quiescent only when its pending count is back to
	// zero: the count is balanced on every path (shared with C09-R3 / C07-R7)
	r.Rule("C11-R6", "E6 who-may-call/paths", 6, "relay pending count is balanced (shared with C09)")
	r.Alias("C09-R3", "C11-R6")
	c09Pending(p, r)
	// ... and an item can only be brought back to zero if it is looked up
	// under the id that keys this connection's table (shared with C08-R2)
	c08PostRemapIDs(p, r, "C11-R6")
	r.Alias("C09-R4", "C11-R5")
	c09Forget(p, r)
	r.Alias("C09-R4", "")
	r.Alias("C09-R3", "")
}

func c11Exchanges(p *core.Prog, r *core.Report) {
	mexT := p.Named("", "messageExchange")
	isRemover := func(i ssa.Instruction) bool {
		if _, ok := core.IsCall(i, "messageExchange.shutdown", "messageExchangeSet.removeExchange"); ok {
			return true // includes deferred calls
		}
		// hand-over: store of the exchange into a field named mex
		if st, ok := i.(*ssa.Store); ok {
			if fld := core.AddrField(st.Addr); fld != nil && fld.Name() == "mex" && mexT != nil && types.Identical(core.Deref(st.Val.Type()), mexT) {
				return true
			}
		}
		return false
	}
	n := 0
	for _, cs := range p.CallsTo("messageExchangeSet.newExchange") {
		n++
		f := cs.Fn
		call := cs.Call.(*ssa.Call)
		// a deferred remover registered anywhere in the function covers every exit
		deferred := false
		core.EachInstr(f, func(i ssa.Instruction) {
			if d, ok := i.(*ssa.Defer); ok && isRemover(d) {
				deferred = true
			}
		})
		if deferred {
			r.Ok("C11-R1", fname(f), "exchange registered by newExchange is removed", p.Pos(call.Pos()), "deferred removeExchange covers every exit")
			continue
		}
		// error value of newExchange
		var errV ssa.Value
		for _, ref := range *call.Referrers() {
			if e, ok := ref.(*ssa.Extract); ok && e.Index == 1 {
				errV = e
			}
		}
		// search from the success edge: blocks where err == nil holds
		leak := core.PathResult{}
		for _, b := range f.Blocks {
			fs := factsAt(b)
			if errV == nil || !fs.nilCmp(func(v ssa.Value) bool { return v == errV }, true) {
				continue
			}
			first := b.Instrs[0]
			if isRemover(first) {
				continue
			}
			res := core.ReachAvoiding(f, first, core.IsReturn, isRemover, nil)
			if res.Found {
				leak = res
			}
			break
		}
		if leak.Found {
			r.Fail("C11-R1", fname(f), "exchange registered by newExchange is removed", p.Pos(call.Pos()), "a path returns with the exchange registered and neither removed nor handed to a call object: "+p.TrailString(leak))
		} else {
			r.Ok("C11-R1", fname(f), "exchange registered by newExchange is removed", p.Pos(call.Pos()), "every path from the success edge shuts the exchange down or hands it to the call object")
		}
	}
	if n < 3 {
		r.Errorf("expected at least 3 newExchange call sites, found %d", n)
	}
	// the goroutine that owns a freshly registered inbound exchange: it either
	// hands the call to a handler or leaves through the arm on which reading
	// the method failed, and readMethod reports a failure only through
	// reqResReader.failed (which shuts the exchange down). The expiry watcher
	// is started only after the method was read, so nothing else would ever
	// remove the exchange.
	if f := mustFunc(p, r, "", "InboundCall", "readMethod"); f != nil {
		var fromFailed func(v ssa.Value, d int) bool
		fromFailed = func(v ssa.Value, d int) bool {
			if d > 6 {
				return false
			}
			if callResult(v, "reqResReader.failed") != nil {
				return true
			}
			if ph, ok := v.(*ssa.Phi); ok {
				for _, e := range ph.Edges {
					if k, isK := e.(*ssa.Const); isK && k.IsNil() {
						continue
					}
					if !fromFailed(e, d+1) {
						return false
					}
				}
				return true
			}
			return false
		}
		ok, n := true, 0
		core.EachInstr(f, func(i ssa.Instruction) {
			ret, isRet := i.(*ssa.Return)
			if !isRet || len(ret.Results) != 1 {
				return
			}
			if k, isK := core.ReturnValues(ret)[0].(*ssa.Const); isK && k.IsNil() {
				return
			}
			n++
			if !fromFailed(core.ReturnValues(ret)[0], 0) {
				ok = false
			}
		})
		r.Check(ok && n > 0, "C11-R1", fname(f), "a failed method read is reported through failed() (exchange shut down)", p.Pos(f.Pos()),
			"every non-nil error returned is the result of reqResReader.failed", "readMethod can return an error without shutting the exchange down: the inbound exchange stays registered for ever (no watcher is running yet)")
	}
	// The argument streams of a call report every failure of their own through
	// failed(), which shuts the exchange down; an outbound exchange has no
	// watcher, so an error handed back any other way leaves it registered for
	// ever. A returned error is the result of failed(), the sticky error an
	// earlier failed() stored, nil, or (reader only) the peer's error frame,
	// which completes the call through doneReading.
	for _, m := range [][3]string{{"reqResWriter", "flushFragment", "reqResWriter.failed"}, {"reqResWriter", "argWriter", "reqResWriter.failed"},
		{"reqResReader", "argReader", "reqResReader.failed"}, {"reqResReader", "recvNextFragment", "reqResReader.failed"}} {
		f := mustFunc(p, r, "", m[0], m[1])
		if f == nil {
			continue
		}
		errF := p.Field("", m[0], "err")
		var okVal func(v ssa.Value, d int) bool
		okVal = func(v ssa.Value, d int) bool {
			if d > 6 {
				return false
			}
			if k, isK := v.(*ssa.Const); isK && k.IsNil() {
				return true
			}
			if callResult(v, m[2]) != nil {
				return true
			}
			if lf := core.LoadedField(v); lf != nil && lf == errF {
				return true
			}
			if mi, isMI := v.(*ssa.MakeInterface); isMI {
				if n, isN := mi.X.Type().(*types.Named); isN && n.Obj().Name() == "errorMessage" && m[0] == "reqResReader" {
					return true
				}
			}
			if ph, isPhi := v.(*ssa.Phi); isPhi {
				for _, e := range ph.Edges {
					if !okVal(e, d+1) {
						return false
					}
				}
				return true
			}
			return false
		}
		bad, n := "", 0
		core.EachInstr(f, func(i ssa.Instruction) {
			ret, isRet := i.(*ssa.Return)
			if !isRet {
				return
			}
			rv := core.ReturnValues(ret)
			if len(rv) == 0 {
				return
			}
			n++
			if !okVal(rv[len(rv)-1], 0) {
				bad = p.Pos(ret.Pos())
			}
		})
		r.Check(bad == "" && n > 0, "C11-R1", fname(f), "a failure of the argument stream is reported through failed() (exchange shut down)", p.Pos(f.Pos()),
			fmt.Sprintf("%d returns: nil, failed(...), the stored sticky error or the peer's error frame", n), "the return at "+bad+" hands back an error without failed(): the exchange is not shut down, and an outbound exchange has nothing else that removes it")
	}
	if f := mustFunc(p, r, "", "Connection", "dispatchInbound"); f != nil {
		rm := core.CallsIn(f, "InboundCall.readMethod")
		ok, how := len(rm) == 1, "readMethod call not found"
		if ok {
			errV := rm[0].Value()
			res := core.ReachAvoiding(f, nil, core.IsReturn, func(i ssa.Instruction) bool {
				if c, isC := i.(ssa.CallInstruction); isC && c.Common().IsInvoke() && c.Common().Method.Name() == "Handle" {
					return true
				}
				return false
			}, func(from, to *ssa.BasicBlock) bool {
				// do not follow the arm on which readMethod failed
				return factsAt(to).nilCmp(func(v ssa.Value) bool { return v == errV }, false) && !factsAt(from).nilCmp(func(v ssa.Value) bool { return v == errV }, false)
			})
			if res.Found {
				ok, how = false, "dispatchInbound can return without handing the call to a handler and without a failed method read: "+p.TrailString(res)
			}
		}
		r.Check(ok, "C11-R1", fname(f), "the dispatch goroutine hands the call over or leaves on the failed-read arm", p.Pos(f.Pos()), "every return is behind Handler.Handle or the readMethod error arm", how)
	}
	// call objects: failure and completion reach shutdown
	for _, m := range [][2]string{{"reqResWriter", "failed"}, {"reqResReader", "failed"}, {"InboundCallResponse", "doneSending"}, {"OutboundCallResponse", "doneReading"}} {
		f := mustFunc(p, r, "", m[0], m[1])
		if f == nil {
			continue
		}
		ok := len(core.CallsIn(f, "messageExchange.shutdown")) > 0
		how := "the call object no longer shuts its exchange down in " + m[1]
		if ok {
			// on every path, except where the object's err field is already
			// set (an earlier failed() has shut the exchange down)
			isErrFld := func(v ssa.Value) bool {
				fl := core.LoadedField(v)
				return fl != nil && fl.Name() == "err"
			}
			res := core.ReachAvoiding(f, nil, core.IsReturn, func(i ssa.Instruction) bool {
				_, is := core.IsCall(i, "messageExchange.shutdown")
				return is
			}, func(from, to *ssa.BasicBlock) bool {
				// the edge on which the err field is known non-nil
				ifi, isIf := from.Instrs[len(from.Instrs)-1].(*ssa.If)
				if !isIf || from.Succs[0] == from.Succs[1] {
					return false
				}
				bo, isBO := ifi.Cond.(*ssa.BinOp)
				if !isBO || (bo.Op != token.EQL && bo.Op != token.NEQ) {
					return false
				}
				isNil := func(v ssa.Value) bool { c, isC := v.(*ssa.Const); return isC && c.IsNil() }
				if !(isErrFld(bo.X) && isNil(bo.Y)) && !(isErrFld(bo.Y) && isNil(bo.X)) {
					return false
				}
				if bo.Op == token.EQL {
					return to == from.Succs[1]
				}
				return to == from.Succs[0]
			})
			if res.Found {
				ok = false
				how = m[1] + " can return without shutting the exchange down although no earlier failure did: " + p.TrailString(res)
			}
		}
		r.Check(ok, "C11-R1", fname(f), m[1]+" reaches mex.shutdown()", p.Pos(f.Pos()), "every path shuts the exchange down unless the object's err is already set", how)
	}
}

func c11Removal(p *core.Prog, r *core.Report) {
	for _, name := range []string{"removeExchange", "expireExchange"} {
		f := mustFunc(p, r, "", "messageExchangeSet", name)
		if f == nil {
			continue
		}
		// a call of the onRemoved field on every path that deleted something
		var onRemoved []ssa.Instruction
		core.EachInstr(f, func(i ssa.Instruction) {
			if c, ok := i.(*ssa.Call); ok {
				if fld := core.LoadedField(c.Call.Value); fld != nil && fld.Name() == "onRemoved" {
					onRemoved = append(onRemoved, i)
				}
			}
		})
		ok := len(onRemoved) > 0
		if ok {
			// every return that is not under "nothing was deleted" passes onRemoved
			del := core.CallsIn(f, "messageExchangeSet.deleteExchange")
			if len(del) == 1 {
				isOn := func(i ssa.Instruction) bool {
					for _, x := range onRemoved {
						if x == i {
							return true
						}
					}
					return false
				}
				res := core.ReachAvoiding(f, del[0], func(i ssa.Instruction) bool {
					ret, isRet := i.(*ssa.Return)
					if !isRet {
						return false
					}
					// returns under !found && !expired are fine
					fs := factsAt(ret.Block())
					nothing := fs.hasBool(func(v ssa.Value) bool {
						e, ok := v.(*ssa.Extract)
						return ok && e.Index == 0 && e.Tuple == del[0].Value()
					}, false) &&
						fs.hasBool(func(v ssa.Value) bool {
							e, ok := v.(*ssa.Extract)
							return ok && e.Index == 1 && e.Tuple == del[0].Value()
						}, false)
					return !nothing
				}, isOn, nil)
				ok = !res.Found
			}
		}
		r.Check(ok, "C11-R2", fname(f), name+" -> onRemoved() whenever something was removed", p.Pos(f.Pos()), "the close-state re-evaluation hook runs after every effective removal", "an exchange can be removed without re-evaluating the connection's close state (the connection never finishes closing)")
	}
	// bindings in newConnection
	if f := mustFunc(p, r, "", "Channel", "newConnection"); f != nil {
		want := map[string]string{"inbound.onRemoved": "checkExchanges", "outbound.onRemoved": "checkExchanges"}
		got := map[string]string{}
		// (in newConnection or a helper it calls to wire the callbacks)
		scan := func(i ssa.Instruction) {
			st, ok := i.(*ssa.Store)
			if !ok {
				return
			}
			fld := core.AddrField(st.Addr)
			if fld == nil || fld.Name() != "onRemoved" {
				return
			}
			set := ""
			if fa, ok := st.Addr.(*ssa.FieldAddr); ok {
				if sf := core.LoadedField(fa.X); sf != nil {
					set = sf.Name()
				}
			}
			if mc, ok := st.Val.(*ssa.MakeClosure); ok {
				for _, t := range unwrapBound(mc.Fn.(*ssa.Function)) {
					got[set+".onRemoved"] = t.Name()
				}
			}
		}
		for _, g := range p.FuncsDeep(f, 1) {
			core.EachInstr(g, scan)
		}
		for k, v := range want {
			r.Check(got[k] == v, "C11-R2", fname(f), k+" = "+v, p.Pos(f.Pos()), "bound at construction", fmt.Sprintf("%s is bound to %q", k, got[k]))
		}
	}
	// inbound watcher: both arms expire the exchange
	if f := mustFunc(p, r, "", "Connection", "dispatchInbound"); f != nil {
		okArms := false
		for _, a := range f.AnonFuncs {
			n := len(core.CallsIn(a, "messageExchange.inboundExpired"))
			if n >= 2 {
				okArms = true
			}
		}
		r.Check(okArms, "C11-R2", fname(f), "inbound watcher expires the exchange on both arms", p.Pos(f.Pos()), "context-done and error-latch arms both call inboundExpired", "an inbound exchange whose handler never finishes is not expired on every arm")
	}
	if f := mustFunc(p, r, "", "Connection", "checkExchanges"); f != nil {
		ok := len(core.CallsIn(f, "Connection.callOnCloseStateChange")) > 0
		r.Check(ok, "C11-R2", fname(f), "state change -> callOnCloseStateChange", p.Pos(f.Pos()), "channel/peers are told about close-state changes", "close-state changes are not reported")
	}
}

func unwrapBound(f *ssa.Function) []*ssa.Function {
	if f.Synthetic == "" {
		return []*ssa.Function{f}
	}
	var out []*ssa.Function
	for _, b := range f.Blocks {
		for _, i := range b.Instrs {
			if c, ok := i.(ssa.CallInstruction); ok {
				if t := c.Common().StaticCallee(); t != nil {
					out = append(out, t)
				}
			}
		}
	}
	return out
}

func c11Dropped(p *core.Prog, r *core.Report) {
	// OnCloseStateChange bound to connectionCloseStateChange in Connect and serve
	n := 0
	for _, f := range p.SrcFuncs {
		core.EachInstr(f, func(i ssa.Instruction) {
			st, ok := i.(*ssa.Store)
			if !ok {
				return
			}
			fld := core.AddrField(st.Addr)
			if fld == nil || fld.Name() != "OnCloseStateChange" {
				return
			}
			n++
			name := ""
			if mc, ok := st.Val.(*ssa.MakeClosure); ok {
				for _, t := range unwrapBound(mc.Fn.(*ssa.Function)) {
					name = t.Name()
				}
			}
			r.Check(name == "connectionCloseStateChange", "C11-R3", fname(f), "OnCloseStateChange = ch.connectionCloseStateChange", p.Pos(i.Pos()), "bound for this connection direction", "close-state callback bound to "+name)
		})
	}
	if n < 2 {
		r.Errorf("expected OnCloseStateChange to be bound for both directions, found %d bindings", n)
	}
	if f := mustFunc(p, r, "", "Channel", "connectionCloseStateChange"); f != nil {
		rm := len(core.CallsIn(f, "Channel.removeClosedConn")) == 1 && onEveryPath(f, "Channel.removeClosedConn")
		r.Check(rm, "C11-R3", fname(f), "removeClosedConn(c)", p.Pos(f.Pos()), "closed connections leave the channel's table", "closed connections are not removed from the channel")
		// peers for both host:ports
		keys := map[string]bool{}
		for _, ls := range peerLookupsDeep(p, f) {
			keys[desc(ls.Key)] = true
		}
		var ks []string
		for k := range keys {
			ks = append(ks, k)
		}
		sort.Strings(ks)
		both := len(keys) >= 2
		told := len(core.CallsIn(f, "Peer.connectionCloseStateChange"))
		for _, ls := range peerLookupsDeep(p, f) {
			// a helper that looks the peer up and tells it: once per call of the helper
			if ls.Via != nil && len(core.CallsIn(ls.At.Parent(), "Peer.connectionCloseStateChange")) > 0 {
				told++
			}
		}
		for _, a := range f.AnonFuncs {
			if len(core.CallsIn(a, "Peer.connectionCloseStateChange")) > 0 {
				told += len(peerLookupsDeep(p, f)) // the closure is the notifier: once per lookup site
			}
		}
		// neither notification may depend on the other peer being absent
		indep := true
		for _, ls := range peerLookupsDeep(p, f) {
			if ls.guards().hasBool(func(v ssa.Value) bool {
				ex, ok := v.(*ssa.Extract)
				if !ok || ex.Index != 1 {
					return false
				}
				c, isC := ex.Tuple.(*ssa.Call)
				if !isC || ssa.Instruction(c) == ls.At {
					return false
				}
				_, isGet := core.IsCall(c, "RootPeerList.Get")
				return isGet
			}, false) {
				indep = false
			}
		}
		r.Check(indep, "C11-R3", fname(f), "the dialled peer is told whether or not the announced peer exists", p.Pos(f.Pos()), "no lookup is conditional on another lookup failing", "the dialled-address peer is told about the close only when no peer exists for the announced address: otherwise it keeps the closed connection for ever")
		r.Check(both && told >= 2, "C11-R3", fname(f), "both the announced and the dialled peer are told", p.Pos(f.Pos()), "peers looked up by: "+strings.Join(ks, ", "), "only "+strings.Join(ks, ", ")+" is told about the close")
	}
	if f := mustFunc(p, r, "", "Channel", "removeClosedConn"); f != nil {
		d := p.NewDomain("", "connectionState")
		closed := d.Min(d.OfName("connectionClosed"))
		ok := false
		core.EachInstr(f, func(i ssa.Instruction) {
			if c, isC := core.IsBuiltin(i, "delete"); isC {
				fs := factsAt(c.Block())
				if fs.hasCmp(func(v ssa.Value) bool { return callResult(v, "Connection.readState") != nil }, []token.Token{token.EQL, token.GEQ}, closed) {
					ok = true
				}
			}
		})
		r.Check(ok, "C11-R3", fname(f), "delete(conns, id) exactly when the connection is Closed", p.Pos(f.Pos()), "guarded by readState() == connectionClosed", "connections are dropped from the channel in another state")
	}
}

func c11Goroutines(p *core.Prog, r *core.Report) {
	// stop signals that somebody raises: channel fields that are closed somewhere, cancel funcs that are called
	closedFields := map[string]bool{}
	for _, f := range p.SrcFuncs {
		core.EachInstr(f, func(i ssa.Instruction) {
			if c, ok := core.IsBuiltin(i, "close"); ok {
				if fld := core.LoadedField(c.Call.Args[0]); fld != nil {
					closedFields[fld.Name()] = true
				}
			}
			if c, ok := i.(*ssa.Call); ok {
				if fld := core.LoadedField(c.Call.Value); fld != nil && strings.Contains(strings.ToLower(fld.Name()), "quit") {
					closedFields["ctx:"+fld.Name()] = true
				}
			}
		})
	}
	n := 0
	seen := map[*ssa.Function]bool{}
	for _, f := range p.SrcFuncs {
		if pkgOf(f) != core.Root {
			continue
		}
		core.EachInstr(f, func(i ssa.Instruction) {
			g, ok := i.(*ssa.Go)
			if !ok {
				return
			}
			var targets []*ssa.Function
			targets = append(targets, p.Callees(g)...)
			if mc, ok := g.Call.Value.(*ssa.MakeClosure); ok {
				targets = append(targets, mc.Fn.(*ssa.Function))
			}
			for _, t := range targets {
				if seen[t] || t.Blocks == nil {
					continue
				}
				seen[t] = true
				n++
				loops := core.Loops(t)
				if len(loops) == 0 {
					r.OkTrivial("C11-R4", fname(t), "goroutine "+t.Name()+" has no loop", p.Pos(t.Pos()), "runs to completion")
					continue
				}
				for k, l := range loops {
					how, ok := loopExit(p, t, l, closedFields)
					r.Check(ok, "C11-R4", fname(t), fmt.Sprintf("goroutine loop #%d has an exit tied to a stop signal", k+1), p.Pos(l.Header.Instrs[0].Pos()), how, "loop in a library goroutine has no exit tied to a stop signal that is ever raised: "+how)
				}
			}
		})
	}
	if n < 6 {
		r.Errorf("expected at least 6 goroutine entry points in the library, found %d", n)
	}
}

// loopExit: the loop can be left, and (for select loops) through an arm on a stop signal somebody raises,
// or (for I/O loops) through the error arm of a blocking call, or it is a counted/range loop.
func loopExit(p *core.Prog, f *ssa.Function, l *core.Loop, raised map[string]bool) (string, bool) {
	hasExit := false
	for b := range l.Blocks {
		for _, s := range b.Succs {
			if !l.Blocks[s] {
				hasExit = true
			}
		}
		if len(b.Succs) == 0 {
			hasExit = true // return / panic inside
		}
	}
	if !hasExit {
		return "no exit edge at all", false
	}
	if kind, ok := classifyLoop(p, f, l, map[*ssa.Function]bool{}); ok && !strings.Contains(kind, "blocks") {
		return kind, true
	}
	var arms []string
	good := false
	for b := range l.Blocks {
		for _, i := range b.Instrs {
			switch x := i.(type) {
			case *ssa.Select:
				for _, st := range x.States {
					if st.Dir != types.RecvOnly {
						continue
					}
					if fld := core.LoadedField(st.Chan); fld != nil {
						arms = append(arms, fld.Name())
						if raised[fld.Name()] {
							good = true
						}
					}
					if isCtxDone(st.Chan) {
						arms = append(arms, "ctx.Done()")
						// the context's cancel function is called somewhere
						for k := range raised {
							if strings.HasPrefix(k, "ctx:") {
								good = true
							}
						}
					}
				}
			case *ssa.Call:
				if o := core.CalleeObj(x); o != nil {
					switch core.FuncKey(o) {
					case "io.ReadFull", "net.Listener.Accept", "net.Conn.Read":
						// the error arm of a blocking read/accept leaves the loop when the socket is closed
						arms = append(arms, core.FuncKey(o)+" error")
						good = true
					}
				}
			case *ssa.UnOp:
				if x.Op == token.ARROW {
					if fld := core.LoadedField(x.X); fld != nil && raised[fld.Name()] {
						arms = append(arms, fld.Name())
						good = true
					}
				}
			}
		}
	}
	sort.Strings(arms)
	if good {
		return "exits on: " + strings.Join(dedupe(arms), ", "), true
	}
	return "waits on: " + strings.Join(dedupe(arms), ", "), false
}

func c11Relay(p *core.Prog, r *core.Report) {
	if f := mustFunc(p, r, "", "relayItems", "Entomb"); f != nil {
		// time.AfterFunc(deleteAfter, func() { r.Delete(id) }) on the success path
		ok := false
		for _, c := range core.CallsIn(f, "time.AfterFunc") {
			if mc, isMC := core.CallArgs(c)[1].(*ssa.MakeClosure); isMC {
				if len(core.CallsIn(mc.Fn.(*ssa.Function), "relayItems.Delete")) == 1 {
					ok = true
				}
			}
		}
		r.Check(ok, "C11-R5", fname(f), "Entomb schedules Delete(id) after the tombstone period", p.Pos(f.Pos()), "time.AfterFunc(deleteAfter, Delete)", "tombstones are never deleted")
	}
	if f := mustFunc(p, r, "", "relayItems", "Delete"); f != nil {
		ok := false
		if itemsF := p.Field("", "relayItems", "items"); itemsF != nil {
			ok = len(mapDeletes(p, f, itemsF, 2)) > 0
		}
		r.Check(ok, "C11-R5", fname(f), "Delete removes the item from the table", p.Pos(f.Pos()), "delete(items, id)", "Delete does not remove the item")
	}
}
