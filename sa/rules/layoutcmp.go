package rules

import (
	"fmt"
	"strings"

	"verif/sa/core"
)

// specTok is one parsed token of a spec layout string.
type specTok struct {
	kind   string
	n      int64
	labels []string
	body   []specTok
}

func parseSpec(s string) []specTok {
	toks, _ := parseSpecAt(s, 0)
	return toks
}

func parseSpecAt(s string, i int) ([]specTok, int) {
	var out []specTok
	for i < len(s) {
		switch s[i] {
		case ' ':
			i++
			continue
		case ']':
			return out, i + 1
		}
		j := i
		for j < len(s) && s[j] != ' ' && s[j] != '[' && s[j] != ']' && s[j] != ':' {
			j++
		}
		t := specTok{kind: s[i:j]}
		if len(t.kind) > 1 && t.kind[0] == 'b' && t.kind[1] >= '0' && t.kind[1] <= '9' {
			fmt.Sscanf(t.kind[1:], "%d", &t.n)
			t.kind = "bytes"
		}
		i = j
		if i < len(s) && s[i] == '[' {
			t.body, i = parseSpecAt(s, i+1)
		}
		if i < len(s) && s[i] == ':' {
			j = i + 1
			for j < len(s) && s[j] != ' ' && s[j] != ']' {
				j++
			}
			t.labels = strings.Split(s[i+1:j], "|")
			i = j
		}
		out = append(out, t)
	}
	return out, i
}

// matchLayout compares an extracted layout with a spec; labels are compared
// (case-insensitively) only where the spec names the field.
func matchLayout(code core.Layout, spec []specTok) (bool, string) {
	if len(code) != len(spec) {
		return false, fmt.Sprintf("code has %d items [%s], specification has %d", len(code), code.String(), len(spec))
	}
	for i := range code {
		c, s := code[i], spec[i]
		if c.Kind != s.kind || (c.Kind == "bytes" && c.N != s.n) {
			ck := c.Kind
			if ck == "bytes" {
				ck = fmt.Sprintf("b%d", c.N)
			}
			sk := s.kind
			if sk == "bytes" {
				sk = fmt.Sprintf("b%d", s.n)
			}
			return false, fmt.Sprintf("item %d is %s in the code, %s in the specification", i+1, ck, sk)
		}
		if len(s.labels) > 0 {
			ok := false
			for _, l := range s.labels {
				if strings.EqualFold(l, c.Label) {
					ok = true
				}
			}
			if !ok {
				return false, fmt.Sprintf("item %d (%s) carries field %q, specification says %s", i+1, c.Kind, c.Label, strings.Join(s.labels, "|"))
			}
		}
		if len(s.body) > 0 || len(c.Body) > 0 {
			if ok, why := matchLayout(c.Body, s.body); !ok {
				return false, fmt.Sprintf("inside %s: %s", c.Kind, why)
			}
		}
	}
	return true, ""
}

// stripLabels renders kinds only.
func kindsOf(l core.Layout) string {
	var parts []string
	for _, n := range l {
		s := n.Kind
		if n.Kind == "bytes" {
			s = fmt.Sprintf("b%d", n.N)
		}
		if len(n.Body) > 0 {
			s += "[" + kindsOf(n.Body) + "]"
		}
		parts = append(parts, s)
	}
	return strings.Join(parts, " ")
}
