package rules

import (
	"fmt"
	"go/token"
	"strings"

	"golang.org/x/tools/go/ssa"

	"verif/sa/core"
)

func init() { Registry["C01"] = c01 }

func c01(p *core.Prog, r *core.Report) {
	r.Explain = "Decides structure of the fragmenting writer/reader state machines (not byte equality): (R1) frames cannot exceed 65535 bytes or wrap their size field: pooled frames have MaxFramePayloadSize payloads, size constants are consistent, stamped sizes are byte counts of the frame's own buffer; (R2) every fragment the writer obtains gets a chunk header written before the method returns on every non-error path (so every emitted frame has >= 1 chunk); (R3) the more-fragments flag: finish(false) happens only for the last argument and is followed by flush, doneSending and the Complete state, every other finish passes true, the flag is set exactly under that parameter, every flush is preceded by finish, and writer, reader and relay test the same mask; (R4) the writer's keep-fragment-open comparison is the exact negation of the next argument's precondition; (R5) chunk accounting: the bytes written, the bytes checksummed and the bytes counted are the same operand, and finish stores the count in the deferred header; (R6) after fetching a fragment inside the reader's Close, every path to success rejects a non-empty first chunk (it belongs to the argument being closed) and advances to the following chunk; (R7) Close of the last argument succeeds only with no chunks and no fragments remaining. (R8) io contracts at the argument seam: a successful Write returns the running total of the pieces accepted and continues with the unwritten rest, Read returns the bytes copied, and EnsureEmpty tests the byte count before any return (data delivered together with io.EOF is still reported). (R9) fragments carry the checksum of their own bytes: pooled checksum objects are not read after release and relays re-stamp what they rewrite (shared with C02). Frames already queued for a call are received before the connection's error is returned (shared with C04-R4); the scratch buffers of the byte codec are not used after being returned to their sync.Pool. ArgWriteHelper closes the argument writer only after a successful write (a failed write is not turned into a complete, truncated argument; shared with C10); a message's checksum object and a fragment's frame are released only by the code that owns the message's life cycle, and completing a response does not release the request's frames. The reader steps over the peer's checksum by the protocol's size table (farmhash included); a response's arg1 is read to its end before arg2 is handed out."
	r.NotDecided = "equality of the bytes read and written for all length/split/read-size combinations and fragment capacities; checksum values (C02)."
	r.Rule("C01-R1", "E6 invariants", 10, "frame <= 65535 bytes, size field cannot wrap")
	r.Rule("C01-R2", "E6 paths", 3, "every fragment obtained gets a chunk header")
	r.Rule("C01-R3", "E1+E6", 8, "more-fragments flag iff not the last frame")
	r.Rule("C01-R4", "E6 guards", 1, "keep-open guard = negation of the next argument's precondition")
	r.Rule("C01-R5", "E6 sameOperand", 3, "chunk accounting")
	r.Rule("C01-R6", "E6 paths", 2, "cross-fragment Close skips the end-of-argument chunk")
	r.Rule("C01-R7", "E6 guards", 1, "last Close succeeds only at the end of the message")
	frameInv(p, r, "C01-R1")
	c01Chunks(p, r)
	c01Flags(p, r)
	c01Accounting(p, r)
	c01Reader(p, r)
	r.Rule("C01-R8", "E6 provenance/guards", 3, "io contracts at the argument seam: Write reports the total, Read the bytes copied; EnsureEmpty reports trailing bytes whatever error accompanies them")
	c01IO(p, r)
	// a failed write must not be turned into a complete (truncated) argument: the helper closes the writer only after a successful write (shared with C10-R1)
	c10HelperClose(p, r, "C01-R8")
	// the arguments only arrive if every fragment's checksum is the checksum
	// of its own bytes: pooled checksum objects are not read after release and
	// relays re-stamp what they rewrite (shared with C02-R4 / C02-R6)
	// what the peer reads back: frames already queued for the call reach the
	// reader before a connection error does (shared with C04-R4), and the
	// scratch buffers of the byte codec that rewrites arguments are not
	// touched after they went back to their pool (shared with C04-R7)
	r.Rule("C01-R10", "E6 paths / E2 ownership", 3, "delivered frames are read before the connection error; codec scratch buffers are not used after release")
	recvPriority(p, r, "C01-R10")
	noUseAfterPut(p, r, "C01-R10", "/typed")
	releasedByOwnersOnly(p, r, "C01-R10")
	// a response's arg1 may carry bytes: the caller-side accessor reads it to
	// its end before it hands out arg2 (closing an argument that still has
	// data is an error by design, so merely closing it makes a well-formed
	// response unreadable)
	if f := mustFunc(p, r, "", "OutboundCallResponse", "Arg2Reader"); f != nil {
		isA2 := func(i ssa.Instruction) bool {
			_, ok := core.IsCall(i, "reqResReader.arg2Reader")
			return ok
		}
		isDrain := func(i ssa.Instruction) bool {
			_, ok := core.IsCall(i, "ArgReadHelper.Read", "io/ioutil.ReadAll", "io.ReadAll", "io.Copy")
			return ok
		}
		n := 0
		core.EachInstr(f, func(i ssa.Instruction) {
			if isA2(i) {
				n++
			}
		})
		if n == 0 {
			r.Errorf("OutboundCallResponse.Arg2Reader: no arg2Reader call found")
		} else {
			res := core.ReachAvoiding(f, nil, isA2, isDrain, nil)
			r.Check(!res.Found, "C01-R10", fname(f), "response arg1 is read to its end before arg2 is handed out", p.Pos(f.Pos()),
				"every path to arg2Reader() passes a read of arg1 to end-of-argument", "arg1 of a response is skipped without being read: a response whose arg1 is not empty can no longer be read: "+p.TrailString(res))
		}
	}
	// the reader steps over the peer's checksum field by this table: a wrong size shifts the chunk boundaries
	checksumSizes(p, r, "C01-R10")
	r.Rule("C01-R9", "E6 who-may-call + ordering", 6, "fragments carry the checksum of their own bytes (shared with C02)")
	r.Alias("C02-R4", "C01-R9")
	r.Alias("C02-R6", "C01-R9")
	c02Pool(p, r)
	c02Relay(p, r)
	r.Alias("C02-R4", "")
	r.Alias("C02-R6", "")
}

func isErrGuarded(b *ssa.BasicBlock) bool {
	// block reached only when an error value is non-nil
	fs := factsAt(b)
	return fs.nilCmp(func(v ssa.Value) bool {
		return types_isError(v)
	}, false)
}

func types_isError(v ssa.Value) bool {
	return strings.HasSuffix(v.Type().String(), "error")
}

func c01Chunks(p *core.Prog, r *core.Report) {
	isChunkHeader := func(i ssa.Instruction) bool {
		if _, ok := core.IsCall(i, "newWritableChunk"); ok {
			return true
		}
		if c, ok := core.IsCall(i, "typed.WriteBuffer.WriteUint16"); ok {
			if fl := core.LoadedField(core.CallArgs(c)[0]); fl != nil && fl.Name() == "contents" {
				return true
			}
		}
		return false
	}
	n := 0
	for _, name := range []string{"BeginArgument", "Flush", "Close", "Write"} {
		f := p.Func("", "fragmentingWriter", name)
		if f == nil {
			continue
		}
		for _, c := range core.CallsIn(f, "fragmentSender.newFragment") {
			n++
			res := core.ReachAvoiding(f, c, func(i ssa.Instruction) bool {
				ret, ok := i.(*ssa.Return)
				if !ok {
					return false
				}
				return !isErrGuarded(ret.Block())
			}, isChunkHeader, nil)
			r.Check(!res.Found, "C01-R2", fname(f), "fragment from newFragment gets a chunk header before returning", p.Pos(c.Pos()),
				"every non-error path passes newWritableChunk / WriteUint16(0)", "a fragment can be left (and later flushed) without any chunk: "+p.TrailString(res))
		}
	}
	if n < 3 {
		r.Errorf("expected 3 newFragment sites in the fragmenting writer, found %d", n)
	}
	// newWritableChunk reserves the 16-bit header
	if f := mustFunc(p, r, "", "", "newWritableChunk"); f != nil {
		ok := len(core.CallsIn(f, "typed.WriteBuffer.DeferUint16")) == 1
		r.Check(ok, "C01-R2", fname(f), "chunk header reserved (DeferUint16)", p.Pos(f.Pos()), "two bytes reserved for the chunk length", "a chunk no longer reserves its length header")
	}
	// R4: keep-open guard vs precondition
	cl := mustFunc(p, r, "", "fragmentingWriter", "Close")
	ba := mustFunc(p, r, "", "fragmentingWriter", "BeginArgument")
	if cl != nil && ba != nil {
		hdr, _ := constVal(p, "chunkHeaderSize")
		isRemaining := func(v ssa.Value) bool { return callResult(v, "typed.WriteBuffer.BytesRemaining") != nil }
		// BeginArgument panics under remaining <= hdr
		var panicOp token.Token
		core.EachInstr(ba, func(i ssa.Instruction) {
			if _, ok := i.(*ssa.Panic); ok {
				for _, c := range factsAt(i.Block()).cmps {
					if isRemaining(c.X) {
						if k, isK := core.ConstInt(c.Y); isK && k == hdr {
							panicOp = c.Op
						}
					}
				}
			}
		})
		// Close returns nil (keeps the fragment open) under remaining > hdr
		var keepOp token.Token
		core.EachInstr(cl, func(i ssa.Instruction) {
			ret, ok := i.(*ssa.Return)
			if !ok || !core.IsNilConst(core.ReturnValues(ret)[0]) {
				return
			}
			// the keep-open return is the successful one that is not preceded by a flush
			for _, fc := range core.CallsIn(cl, "fragmentSender.flushFragment") {
				if before(fc, ret) {
					return
				}
			}
			for _, c := range factsAt(ret.Block()).cmps {
				if isRemaining(c.X) {
					if k, isK := core.ConstInt(c.Y); isK && k == hdr {
						keepOp = c.Op
					}
				}
			}
		})
		ok := panicOp == token.LEQ && keepOp == token.GTR
		if panicOp == token.LEQ && keepOp == token.ILLEGAL {
			// the keep-open return is not guarded by a single dominating test
			// (e.g. `if remaining <= hdr { flush … }; return nil`): decide it on
			// paths instead - assuming remaining <= hdr, no successful return
			// is reachable without flushing the fragment
			isFlush := func(i ssa.Instruction) bool { _, is := core.IsCall(i, "fragmentSender.flushFragment"); return is }
			res := core.ReachAvoiding(cl, nil, func(i ssa.Instruction) bool {
				ret, isRet := i.(*ssa.Return)
				return isRet && core.IsNilConst(core.ReturnValues(ret)[0])
			}, isFlush, func(a, b *ssa.BasicBlock) bool {
				ifi, isIf := a.Instrs[len(a.Instrs)-1].(*ssa.If)
				if !isIf || a.Succs[0] == a.Succs[1] {
					return false
				}
				cmps, _ := core.ExpandCond(ifi.Cond, a.Succs[0] == b)
				for _, c := range cmps {
					if !isRemaining(c.X) {
						continue
					}
					if k, isK := core.ConstInt(c.Y); isK && k == hdr && c.Op == token.GTR {
						return true // contradicts the assumption remaining <= hdr
					}
				}
				return false
			})
			if !res.Found {
				ok, keepOp = true, token.GTR
			}
		}
		r.Check(ok, "C01-R4", fname(cl), "keep open iff BytesRemaining() > chunkHeaderSize; BeginArgument requires the same", p.Pos(cl.Pos()),
			"Close keeps the fragment under '>' and BeginArgument panics under '<=' of the same quantity and constant", fmt.Sprintf("keep-open guard (%v) is not the negation of the next argument's panic guard (%v)", keepOp, panicOp))
	}
}

func c01Flags(p *core.Prog, r *core.Report) {
	d := p.NewDomain("", "fragmentingWriterState")
	stateF := p.Field("", "fragmentingWriter", "state")
	// finish calls
	nFalse := 0
	for _, name := range []string{"Flush", "Close", "Write", "BeginArgument"} {
		f := p.Func("", "fragmentingWriter", name)
		if f == nil {
			continue
		}
		for _, c := range core.CallsIn(f, "writableFragment.finish") {
			arg := core.CallArgs(c)[1]
			b, isConst := core.ConstBool(arg)
			if !isConst {
				r.Fail("C01-R3", fname(f), "finish(<non-constant>)", p.Pos(c.Pos()), "the more-fragments verdict is not a constant at this site")
				continue
			}
			if b {
				r.Ok("C01-R3", fname(f), "finish(true) on a non-final flush", p.Pos(c.Pos()), "more fragments follow")
				continue
			}
			nFalse++
			// guarded by state == InLastArgument (value `last`)
			guard := factsAt(c.Block()).hasBool(func(v ssa.Value) bool {
				bo, ok := v.(*ssa.BinOp)
				if !ok || bo.Op != token.EQL || core.LoadedField(bo.X) != stateF {
					return false
				}
				k, isK := core.ConstInt(bo.Y)
				return isK && d.Of(k) == d.OfName("fragmentingWriteInLastArgument")
			}, true)
			// followed on all paths by flushFragment and doneSending, and state Complete stored before
			missFlush := core.ReachAvoiding(f, c, core.IsReturn, func(i ssa.Instruction) bool { _, ok := core.IsCall(i, "fragmentSender.flushFragment"); return ok }, nil)
			missDone := core.ReachAvoiding(f, c, core.IsReturn, func(i ssa.Instruction) bool { _, ok := core.IsCall(i, "fragmentSender.doneSending"); return ok }, nil)
			complete := false
			core.EachInstr(f, func(i ssa.Instruction) {
				if st, ok := i.(*ssa.Store); ok && core.AddrField(st.Addr) == stateF && st.Block() == c.Block() {
					if k, isK := core.ConstInt(st.Val); isK && d.Of(k) == d.OfName("fragmentingWriteComplete") {
						complete = true
					}
				}
			})
			ok := guard && !missFlush.Found && !missDone.Found && complete
			r.Check(ok, "C01-R3", fname(f), "finish(false) only for the last argument, then flush, doneSending, Complete", p.Pos(c.Pos()),
				"guarded by state == InLastArgument; flush and doneSending on all paths; state = Complete", fmt.Sprintf("last-frame marking is wrong (guard=%v flush=%v done=%v complete=%v)", guard, !missFlush.Found, !missDone.Found, complete))
		}
		// each flushFragment(x) preceded by finish in the same function
		for _, c := range core.CallsIn(f, "fragmentSender.flushFragment") {
			okPre := false
			for _, fc := range core.CallsIn(f, "writableFragment.finish") {
				if before(fc, c) {
					okPre = true
				}
			}
			r.Check(okPre, "C01-R3", fname(f), "flushFragment preceded by finish", p.Pos(c.Pos()), "flags and checksum are stamped before the flush", "a fragment is flushed without being finished")
		}
	}
	if nFalse != 1 {
		r.Errorf("expected exactly one finish(false) site, found %d", nFalse)
	}
	// writableFragment.finish sets the flag exactly under its parameter
	if f := mustFunc(p, r, "", "writableFragment", "finish"); f != nil {
		mask, _ := constVal(p, "hasMoreFragmentsFlag")
		ok := false
		for _, c := range core.CallsIn(f, "typed.ByteRef.Update") {
			k, isK := core.ConstInt(core.CallArgs(c)[1])
			g := factsAt(c.Block()).hasBool(func(v ssa.Value) bool { return v == ssa.Value(f.Params[1]) }, true)
			if isK && k == mask && g {
				ok = true
			}
		}
		r.Check(ok, "C01-R3", fname(f), "flag byte |= hasMoreFragmentsFlag exactly when hasMoreFragments", p.Pos(f.Pos()), "flag set under the parameter", "the more-fragments flag is not set from the parameter")
	}
	// mask agreement: reader and relay helpers test hasMoreFragmentsFlag
	mask, _ := constVal(p, "hasMoreFragmentsFlag")
	for _, n := range [][2]string{{"fragmentingReader", "recvAndParseNextFragment"}, {"", "finishesCall"}, {"", "hasMoreFragments"}, {"lazyCallReq", "HasMoreFragments"}} {
		f := mustFunc(p, r, "", n[0], n[1])
		if f == nil {
			continue
		}
		ok := false
		for _, g := range p.FuncsDeep(f, 2) {
			core.EachInstr(g, func(i ssa.Instruction) {
				if bo, isB := i.(*ssa.BinOp); isB && bo.Op == token.AND {
					if k, isK := core.ConstInt(bo.Y); isK && k == mask {
						ok = true
					}
				}
			})
		}
		r.Check(ok, "C01-R3", fname(f), "tests the same more-fragments mask", p.Pos(f.Pos()), fmt.Sprintf("& %#x", mask), "more-fragments test uses a different mask")
	}
}

func c01Accounting(p *core.Prog, r *core.Report) {
	f := mustFunc(p, r, "", "writableChunk", "writeAsFits")
	if f == nil {
		return
	}
	var added, written, counted ssa.Value
	sizeF := p.Field("", "writableChunk", "size")
	core.EachInstr(f, func(i ssa.Instruction) {
		if c, ok := core.IsCall(i, "Checksum.Add"); ok {
			added = core.CallArgs(c)[1]
		}
		if c, ok := core.IsCall(i, "typed.WriteBuffer.WriteBytes"); ok {
			written = core.CallArgs(c)[1]
		}
		if st, ok := i.(*ssa.Store); ok && core.AddrField(st.Addr) == sizeF {
			// size + uint16(len(b))
			if bo, isB := st.Val.(*ssa.BinOp); isB && bo.Op == token.ADD && core.LoadedField(bo.X) == sizeF {
				if lx := lenOperand(bo.Y); lx != nil {
					counted = lx
				}
			}
		}
	})
	ok := added != nil && added == written && written == counted
	r.Check(ok, "C01-R5", fname(f), "Add(b), WriteBytes(b), size += len(b) on the same b", p.Pos(f.Pos()), "one operand", fmt.Sprintf("written, checksummed and counted bytes differ (add=%s write=%s count=%s)", desc(added), desc(written), desc(counted)))
	// the slice is capped at the room left
	capOK := false
	if phi, isPhi := added.(*ssa.Phi); isPhi {
		for _, e := range phi.Edges {
			if sl, isSl := e.(*ssa.Slice); isSl && sl.Low == nil && callResult(sl.High, "typed.WriteBuffer.BytesRemaining") != nil {
				capOK = true
			}
		}
	}
	r.Check(capOK, "C01-R5", fname(f), "b capped at the fragment's remaining room", p.Pos(f.Pos()), "b = b[:BytesRemaining()] when longer", "chunk writes are not capped at the fragment's room")
	// every fragment that is flushed has the current chunk's deferred length
	// header filled in with the chunk's byte count first (directly or through
	// a helper such as writableChunk.finish)
	isUpd := func(i ssa.Instruction) bool {
		direct := func(j ssa.Instruction) bool {
			c, ok := core.IsCall(j, "typed.Uint16Ref.Update")
			return ok && core.LoadedField(core.CallArgs(c)[1]) == sizeF
		}
		if direct(i) {
			return true
		}
		if c, ok := i.(*ssa.Call); ok {
			if g := c.Call.StaticCallee(); g != nil && p.InAnalysed(g) && len(g.Blocks) > 0 {
				has := false
				core.EachInstr(g, func(j ssa.Instruction) {
					if direct(j) {
						has = true
					}
				})
				return has && onEveryPathPred(g, direct)
			}
		}
		return false
	}
	nFlush := 0
	for _, name := range []string{"Flush", "Close"} {
		g := mustFunc(p, r, "", "fragmentingWriter", name)
		if g == nil {
			continue
		}
		for k, fl := range core.CallsIn(g, "fragmentSender.flushFragment") {
			nFlush++
			res := core.ReachAvoiding(g, nil, func(i ssa.Instruction) bool { return i == fl.(ssa.Instruction) }, isUpd, nil)
			r.Check(!res.Found, "C01-R5", fname(g), fmt.Sprintf("flush #%d: deferred chunk header = size before the fragment is sent", k+1), p.Pos(fl.Pos()),
				"sizeRef.Update(size) on every path to flushFragment", "a fragment can be flushed with its last chunk's length header not filled in: "+p.TrailString(res))
		}
	}
	if nFlush < 2 {
		r.Errorf("fragmentingWriter: expected flushFragment in Flush and Close, found %d", nFlush)
	}
}

func c01Reader(p *core.Prog, r *core.Report) {
	f := mustFunc(p, r, "", "fragmentingReader", "Close")
	if f == nil {
		return
	}
	curF := p.Field("", "fragmentingReader", "curChunk")
	remF := p.Field("", "fragmentingReader", "remainingChunks")
	moreF := p.Field("", "fragmentingReader", "hasMoreFragments")
	recvs := core.CallsIn(f, "fragmentingReader.recvAndParseNextFragment")
	if len(recvs) == 0 {
		r.Errorf("fragmentingReader.Close no longer fetches the next fragment")
	}
	isNilRet := func(i ssa.Instruction) bool {
		ret, ok := i.(*ssa.Return)
		return ok && core.IsNilConst(core.ReturnValues(ret)[0])
	}
	for _, c := range recvs {
		// (i) every nil return reachable from the fetch is guarded by len(curChunk) <= 0 established after the fetch
		// (ii) and passes a store curChunk = remainingChunks[0]
		isAdvance := func(i ssa.Instruction) bool {
			st, ok := i.(*ssa.Store)
			if !ok || core.AddrField(st.Addr) != curF {
				return false
			}
			if ld, isLd := st.Val.(*ssa.UnOp); isLd {
				if ia, isIA := ld.X.(*ssa.IndexAddr); isIA && core.LoadedField(ia.X) == remF {
					return true
				}
			}
			return false
		}
		missAdvance := core.ReachAvoiding(f, c, isNilRet, isAdvance, nil)
		r.Check(!missAdvance.Found, "C01-R6", fname(f), "after the fetch: advance to the chunk following the end-of-argument chunk", p.Pos(c.Pos()),
			"every successful path stores remainingChunks[0] into curChunk", "Close can succeed with the fetched fragment's first chunk as the next argument's data (shifted / empty argument): "+p.TrailString(missAdvance))
		// reject non-empty: the advance store is guarded by len(curChunk) <= 0 tested after the fetch
		okReject := false
		core.EachInstr(f, func(i ssa.Instruction) {
			if !isAdvance(i) || !c.Block().Dominates(i.Block()) {
				return
			}
			for _, cm := range factsAt(i.Block()).cmps {
				lx := lenOperand(cm.X)
				if lx != nil && core.LoadedField(lx) == curF {
					if k, isK := core.ConstInt(cm.Y); isK && k == 0 && (cm.Op == token.LEQ || cm.Op == token.EQL) {
						if ld, isLd := lx.(*ssa.UnOp); isLd && c.Block().Dominates(ld.Block()) && ld.Block() != f.Blocks[0] {
							okReject = true
						}
					}
				}
			}
		})
		r.Check(okReject, "C01-R6", fname(f), "after the fetch: a non-empty first chunk is an error", p.Pos(c.Pos()),
			"advance only under len(curChunk) == 0 re-tested after the fetch", "data left in the argument being closed is silently attributed to the next argument")
	}
	// R7: last: nil only when no chunks and no fragments remain
	d := p.NewDomain("", "fragmentingReadState")
	stateF := p.Field("", "fragmentingReader", "state")
	okLast := false
	core.EachInstr(f, func(i ssa.Instruction) {
		if !isNilRet(i) {
			return
		}
		fs := factsAt(i.Block())
		isLast := fs.hasBool(func(v ssa.Value) bool {
			bo, ok := v.(*ssa.BinOp)
			if !ok || bo.Op != token.EQL || core.LoadedField(bo.X) != stateF {
				return false
			}
			k, isK := core.ConstInt(bo.Y)
			return isK && d.Of(k) == d.OfName("fragmentingReadInLastArgument")
		}, true)
		if !isLast {
			return
		}
		noChunks := fs.hasCmp(func(v ssa.Value) bool { lx := lenOperand(v); return lx != nil && core.LoadedField(lx) == remF }, []token.Token{token.LEQ, token.EQL}, 0)
		noFrags := fs.hasBool(func(v ssa.Value) bool { return core.LoadedField(v) == moreF }, false)
		if noChunks && noFrags {
			okLast = true
		}
	})
	if !okLast {
		// the two conditions may not dominate the successful return as plain
		// facts (`if last && (chunks || more) { fail }; if last { ok }`): decide
		// on paths - assuming this is the last argument and chunks (resp.
		// fragments) remain, no successful return is reachable
		isLastV := func(v ssa.Value) bool {
			bo, ok := v.(*ssa.BinOp)
			if !ok || bo.Op != token.EQL || core.LoadedField(bo.X) != stateF {
				return false
			}
			k, isK := core.ConstInt(bo.Y)
			return isK && d.Of(k) == d.OfName("fragmentingReadInLastArgument")
		}
		reach := func(chunks bool) bool {
			return core.ReachAvoiding(f, nil, isNilRet, nil, func(a, b *ssa.BasicBlock) bool {
				ifi, isIf := a.Instrs[len(a.Instrs)-1].(*ssa.If)
				if !isIf || a.Succs[0] == a.Succs[1] {
					return false
				}
				cmps, bools := core.ExpandCond(ifi.Cond, a.Succs[0] == b)
				for _, x := range bools {
					if isLastV(x.V) && !x.Pol {
						return true // contradicts "last argument"
					}
					if !chunks && core.LoadedField(x.V) == moreF && !x.Pol {
						return true // contradicts "more fragments follow"
					}
				}
				for _, c := range cmps {
					if core.LoadedField(c.X) == stateF {
						if k, isK := core.ConstInt(c.Y); isK && d.Of(k) == d.OfName("fragmentingReadInLastArgument") && c.Op == token.NEQ {
							return true
						}
					}
					if chunks {
						if lx := lenOperand(c.X); lx != nil && core.LoadedField(lx) == remF {
							if k, isK := core.ConstInt(c.Y); isK && k == 0 && (c.Op == token.LEQ || c.Op == token.EQL || c.Op == token.LSS) {
								return true // contradicts "chunks remain"
							}
						}
					}
				}
				return false
			}).Found
		}
		if !reach(true) && !reach(false) {
			okLast = true
		}
	}
	r.Check(okLast, "C01-R7", fname(f), "last argument closes successfully only with no chunks and no fragments left", p.Pos(f.Pos()), "nil return guarded by len(remainingChunks)==0 && !hasMoreFragments", "the reader can report the message complete while chunks or fragments remain")
}

// c01IO: the io.Writer / io.Reader contracts of the fragmenting writer and
// reader, which callers such as io.Copy and bufio rely on (a short count with
// a nil error makes them fail or re-send data), and the trailing-bytes check
// used by the thrift/json layers after parsing an argument.
func c01IO(p *core.Prog, r *core.Report) {
	if f := mustFunc(p, r, "", "fragmentingWriter", "Write"); f != nil {
		was := core.CallsIn(f, "writableChunk.writeAsFits")
		var add *ssa.BinOp
		var acc *ssa.Phi
		if len(was) == 1 {
			wv := was[0].Value()
			core.EachInstr(f, func(i ssa.Instruction) {
				bo, ok := i.(*ssa.BinOp)
				if !ok || bo.Op != token.ADD {
					return
				}
				for _, pr := range [][2]ssa.Value{{bo.X, bo.Y}, {bo.Y, bo.X}} {
					ph, isPhi := pr[0].(*ssa.Phi)
					if !isPhi || pr[1] != ssa.Value(wv) {
						continue
					}
					zero, self := false, false
					for _, e := range ph.Edges {
						if k, isK := core.ConstInt(e); isK && k == 0 {
							zero = true
						}
						if e == ssa.Value(bo) {
							self = true
						}
					}
					if zero && self {
						add, acc = bo, ph
					}
				}
			})
		}
		ok, how := add != nil, "no running total of the bytes accepted by writeAsFits"
		if ok {
			core.EachInstr(f, func(i ssa.Instruction) {
				ret, isRet := i.(*ssa.Return)
				if !isRet || !core.IsNilConst(core.ReturnValues(ret)[1]) {
					return
				}
				if v := core.ReturnValues(ret)[0]; v != ssa.Value(add) {
					ok, how = false, "a successful Write returns "+desc(v)+" instead of the total number of bytes accepted (io.Writer: n < len(p) with a nil error)"
				}
			})
			// the remainder written next is b[bytesWritten:]
			rest := false
			core.EachInstr(f, func(i ssa.Instruction) {
				if sl, isSl := i.(*ssa.Slice); isSl && sl.Low == ssa.Value(was[0].Value()) && sl.High == nil {
					rest = true
				}
			})
			if ok && !rest {
				ok, how = false, "the loop does not continue with b[bytesWritten:]"
			}
		}
		_ = acc
		r.Check(ok, "C01-R8", fname(f), "Write returns the sum of the pieces written; continues with the unwritten rest", p.Pos(f.Pos()), "success return = running total; b = b[n:]", how)
	}
	if f := mustFunc(p, r, "", "fragmentingReader", "Read"); f != nil {
		// every return's count is the running total of the copy() results
		var add *ssa.BinOp
		core.EachInstr(f, func(i ssa.Instruction) {
			bo, ok := i.(*ssa.BinOp)
			if !ok || bo.Op != token.ADD {
				return
			}
			for _, pr := range [][2]ssa.Value{{bo.X, bo.Y}, {bo.Y, bo.X}} {
				ph, isPhi := pr[0].(*ssa.Phi)
				c, isC := pr[1].(*ssa.Call)
				if !isPhi || !isC {
					continue
				}
				if b, isB := c.Call.Value.(*ssa.Builtin); !isB || b.Name() != "copy" {
					continue
				}
				for _, e := range ph.Edges {
					if e == ssa.Value(bo) {
						add = bo
					}
				}
			}
		})
		ok, how := add != nil, "no running total of the bytes copied"
		if ok {
			core.EachInstr(f, func(i ssa.Instruction) {
				ret, isRet := i.(*ssa.Return)
				if !isRet {
					return
				}
				v := core.ReturnValues(ret)[0]
				if k, isK := core.ConstInt(v); isK && k == 0 {
					return // early error returns before anything was copied
				}
				if v != ssa.Value(add) {
					ok, how = false, "Read returns "+desc(v)+" instead of the number of bytes copied"
				}
			})
		}
		r.Check(ok, "C01-R8", fname(f), "Read returns the number of bytes copied into the caller's buffer", p.Pos(f.Pos()), "every non-zero count returned is the running total of copy()", how)
	}
	if f := mustFunc(p, r, "internal/argreader", "", "EnsureEmpty"); f != nil {
		var rd *ssa.Call
		core.EachInstr(f, func(i ssa.Instruction) {
			if c, ok := i.(*ssa.Call); ok && c.Call.IsInvoke() && c.Call.Method.Name() == "Read" {
				rd = c
			}
		})
		ok, how := rd != nil, "no Read of the reader"
		if ok {
			var nV ssa.Value
			for _, ref := range *rd.Referrers() {
				if e, isE := ref.(*ssa.Extract); isE && e.Index == 0 {
					nV = e
				}
			}
			// every return not guarded by n <= 0 must be the trailing-bytes error: i.e. no
			// return is reachable from the Read on the n > 0 side except through the arm that reports it
			isPosTest := func(i ssa.Instruction) bool {
				ifi, isIf := i.(*ssa.If)
				if !isIf {
					return false
				}
				bo, isBO := ifi.Cond.(*ssa.BinOp)
				return isBO && ((bo.Op == token.GTR && bo.X == nV) || (bo.Op == token.NEQ && bo.X == nV) || (bo.Op == token.LSS && bo.Y == nV))
			}
			res := core.ReachAvoiding(f, rd, core.IsReturn, isPosTest, nil)
			if nV == nil || res.Found {
				ok, how = false, "EnsureEmpty can return before testing the byte count (a Read that yields data together with io.EOF is reported as empty): "+p.TrailString(res)
			} else {
				// the n > 0 arm returns a non-nil error
				core.EachInstr(f, func(i ssa.Instruction) {
					if isPosTest(i) {
						arm := i.Block().Succs[0]
						if ret, isRet := arm.Instrs[len(arm.Instrs)-1].(*ssa.Return); !isRet || core.IsNilConst(core.ReturnValues(ret)[0]) {
							ok, how = false, "the n > 0 arm does not return an error"
						}
					}
				})
			}
		}
		r.Check(ok, "C01-R8", fname(f), "trailing bytes are an error even when the Read also reports EOF", p.Pos(f.Pos()), "the byte count is tested before any return", how)
	}
}
