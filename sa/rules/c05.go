package rules

import (
	"fmt"
	"go/token"
	"go/types"
	"sort"
	"strings"

	"golang.org/x/tools/go/ssa"

	"verif/sa/core"
)

func init() { Registry["C05"] = c05 }

// outboundRoots: the entry points of an outbound call as seen by a caller.
var outboundRoots = [][2]string{
	{"Channel", "BeginCall"}, {"Peer", "BeginCall"}, {"SubChannel", "BeginCall"}, {"Channel", "Connect"}, {"Channel", "Ping"}, {"Connection", "ping"},
	{"reqResWriter", "arg1Writer"}, {"reqResWriter", "arg2Writer"}, {"reqResWriter", "arg3Writer"},
	{"reqResReader", "arg1Reader"}, {"reqResReader", "arg2Reader"}, {"reqResReader", "arg3Reader"},
	{"fragmentingWriter", "Write"}, {"fragmentingWriter", "Close"}, {"fragmentingWriter", "Flush"},
	{"fragmentingReader", "Read"}, {"fragmentingReader", "Close"},
}

func isCtxDone(v ssa.Value) bool {
	c, ok := v.(*ssa.Call)
	if !ok {
		return false
	}
	o := core.CalleeObj(c)
	if o == nil || o.Name() != "Done" {
		return false
	}
	k := core.FuncKey(o)
	return strings.HasSuffix(k, "context.Context.Done")
}

func c05(p *core.Prog, r *core.Report) {
	r.Explain = "Decides, over the synchronous call tree of the outbound-call entry points (BeginCall on channel/peer/sub-channel, Connect, ping, the argument writers and readers): (R1) every blocking wait is context-aware: each blocking select has an arm on a context's Done(); no bare channel send/receive waits for a peer; the dialer receives the caller's context (or one derived from it); handshake I/O is ordered after a deadline taken from the context; and no mutex acquired on that tree is ever held, anywhere in the package, across a network-bound operation (dial, handshake, connection I/O, blocking select); (R2) connection failure unblocks callers: connectionError and protocolError reach stopExchanges for both exchange sets, stopExchanges notifies every exchange, and every blocking select of the exchange has the error-latch arm; (R4) calls with less than a millisecond left fail locally with the timeout error and the context handed to connection acquisition and to the call is the caller's. A failed frame write reaches connectionError (closing the socket alone leaves the exchanges running). The handshake's deadline reset is deferred before its failure handler (so the error frame is written under the deadline); (R5) a retried call's outcome carries nothing decoded by a failed attempt (shared with C18). (R6) only completely read frames are dispatched and every read error ends the reader loop through the connection error handler (shared with C03-R3). (R7) no method re-acquires the mutex of the object it is called on while that mutex is held; the wait for the health checker's exit is entered only while it was not stopped before."
	r.NotDecided = "wall-clock bounds and scheduling slack; behaviour at each byte offset of a cut connection; that the response delivered is the right one (C01/C02/C04 cover necessary parts)."
	r.Rule("C05-R1", "E4c blocking/ctx", 8, "blocking waits on the outbound call path are context-aware; no mutex held across network-bound operations")
	r.Rule("C05-R2", "E6 paths", 6, "connection failure notifies every exchange; exchange waits have the error-latch arm")
	r.Rule("C05-R4", "E6 guards/provenance", 4, "sub-millisecond budgets fail locally; the caller's context bounds connect and call")

	c05Blocking(p, r)
	c05Failure(p, r)
	c05Budget(p, r)
	// exactly one outcome: a retried call reports nothing decoded by a failed attempt (shared with C18-R4)
	// the result a caller gets is made of frames that were read completely:
	// the reader dispatches a frame only if both reads of the iteration
	// succeeded, and every read error ends the loop through the error handler
	// (shared with C03-R3)
	// a caller stuck behind a lock never returns: no method re-acquires the
	// mutex of the object it is called on while that mutex is held (shared
	// with C04-R6), and only the first stopper waits for the health-check
	// goroutine to exit
	r.Rule("C05-R7", "E4 locksets / E6 guards", 2, "no re-entrant lock acquisition on the call path; the wait for the health checker's exit is entered once")
	noReentrantLock(p, r, p.ComputeLocks(), "C05-R7")
	c05StopHealthOnce(p, r)
	r.Rule("C05-R6", "E6 guards/paths", 2, "only completely read frames are dispatched; every read error fails the connection")
	c03ReaderLoop(p, r, "C05-R6")
	r.Rule("C05-R5", "E6 provenance", 1, "a retried call's outcome carries nothing of a failed attempt (shared with C18)")
	r.Alias("C18-R4", "C05-R5")
	c18RetryState(p, r)
	r.Alias("C18-R4", "")
}

// c05Blocking: R1 (shared with C14 as the caller-side wait rule).
func c05Blocking(p *core.Prog, r *core.Report) {
	var roots []*ssa.Function
	for _, n := range outboundRoots {
		if f := mustFunc(p, r, "", n[0], n[1]); f != nil {
			roots = append(roots, f)
		}
	}
	reach := syncReach(p, roots...)
	r.Stats["outbound_tree_functions"] = len(reach)
	locks := p.ComputeLocks()

	// network-bound operations and the mutexes ever held across them
	netFns := map[*ssa.Function]bool{}
	isNetOp := func(i ssa.Instruction) bool {
		switch x := i.(type) {
		case *ssa.Select:
			return x.Blocking
		case *ssa.Call:
			if fld := core.LoadedField(x.Call.Value); fld != nil && fld.Name() == "dialer" {
				return true
			}
			if o := core.CalleeObj(x); o != nil {
				switch core.FuncKey(o) {
				case "io.ReadFull", "net.Conn.Read", "net.Conn.Write", "time.Sleep", "net.Listener.Accept":
					return true
				}
				if core.ShortKey(o) == "Frame.WriteOut" || core.ShortKey(o) == "Frame.ReadIn" || core.ShortKey(o) == "Frame.ReadBody" {
					return true
				}
			}
		}
		return false
	}
	for _, f := range p.SrcFuncs {
		core.EachInstr(f, func(i ssa.Instruction) {
			if isNetOp(i) {
				netFns[f] = true
			}
		})
	}
	mayNet := p.CallersClosureWithin(netFns, p.InAnalysed)
	heldAcrossNet := map[types.Object]string{}
	for _, f := range p.SrcFuncs {
		core.EachInstr(f, func(i ssa.Instruction) {
			ls := locks.At(i)
			if len(ls) == 0 {
				return
			}
			net := isNetOp(i)
			if c, ok := i.(*ssa.Call); ok && !net {
				net = p.MayCall(c, mayNet)
			}
			if !net {
				return
			}
			for m := range ls {
				if _, ok := heldAcrossNet[m]; !ok {
					heldAcrossNet[m] = fname(f) + " at " + p.Pos(i.Pos())
				}
			}
		})
	}

	nth := map[string]int{}
	add := func(ok bool, f *ssa.Function, construct string, i ssa.Instruction, okHow, bad string) {
		key := fname(f) + "|" + construct
		nth[key]++
		if nth[key] > 1 {
			construct = fmt.Sprintf("%s #%d", construct, nth[key])
		}
		r.Check(ok, "C05-R1", fname(f), construct, p.Pos(i.Pos()), okHow, bad)
	}
	for _, f := range core.SortedFuncs(reach) {
		core.EachInstr(f, func(i ssa.Instruction) {
			switch x := i.(type) {
			case *ssa.Select:
				if !x.Blocking {
					return
				}
				has := false
				var arms []string
				for _, st := range x.States {
					arms = append(arms, desc(st.Chan))
					if st.Dir == types.RecvOnly && isCtxDone(st.Chan) {
						has = true
					}
				}
				add(has, f, "blocking select ["+strings.Join(arms, " | ")+"]", i, "has a context Done() arm", "blocking select without a context Done() arm: the caller cannot leave at its deadline")
			case *ssa.UnOp:
				if x.Op != token.ARROW {
					return
				}
				ok, why := reviewedBareWait(p, x)
				add(ok, f, "receive "+desc(x.X), i, why, "bare channel receive on the outbound call path: not bounded by the caller's context")
			case *ssa.Send:
				add(false, f, "send on "+desc(x.Chan), i, "", "bare channel send on the outbound call path: not bounded by the caller's context")
			case *ssa.Call:
				if obj, acq, _, ok := lockOpExported(i); ok && acq {
					if where, bad := heldAcrossNet[obj]; bad {
						add(false, f, "Lock "+core.LockName(obj), i, "", "this mutex is held across a network-bound operation in "+where+": a caller blocks in Lock() behind another caller's dial/handshake with no context arm")
					}
					return
				}
				if fld := core.LoadedField(x.Call.Value); fld != nil && fld.Name() == "dialer" {
					ctxArg := x.Call.Args[0]
					ok := ctxDerivesFromParam(ctxArg, f)
					add(ok, f, "dial with the caller's context", i, "dialer receives the context parameter (or a WithTimeout child of it)", "dialer does not receive the caller's context")
				}
			}
		})
	}
	// handshake: deadline set before any I/O, from the context
	for _, name := range []string{"outboundHandshake", "inboundHandshake"} {
		f := mustFunc(p, r, "", "Channel", name)
		if f == nil {
			continue
		}
		var dl ssa.Instruction
		for _, c := range core.CallsIn(f, "setInitDeadline") {
			dl = c
		}
		{
			var def ssa.Instruction
			for _, a := range f.AnonFuncs {
				if len(core.CallsIn(a, "Channel.initError")) == 1 {
					core.EachInstr(f, func(i ssa.Instruction) {
						if d, ok := i.(*ssa.Defer); ok {
							if mc, ok := d.Call.Value.(*ssa.MakeClosure); ok && mc.Fn == ssa.Value(a) {
								def = i
							}
						}
					})
				}
			}
			handshakeDeferOrder(p, r, f, def, "C05-R1")
		}
		ok := dl != nil
		if ok {
			for _, c := range core.CallsIn(f, "Channel.writeMessage", "Channel.readMessage") {
				if !before(dl, c) {
					ok = false
				}
			}
		}
		pos := p.Pos(f.Pos())
		r.Check(ok, "C05-R1", fname(f), "setInitDeadline precedes all handshake I/O", pos, "deadline installed first", "handshake reads/writes before a deadline is set: a silent peer blocks the caller")
	}
	if f := mustFunc(p, r, "", "", "setInitDeadline"); f != nil {
		ok := false
		for _, c := range core.CallsIn(f, "net.Conn.SetDeadline") {
			arg := core.CallArgs(c)[1]
			// phi(ctx.Deadline(), now+5s)
			if derives(p, arg, func(v ssa.Value) bool {
				cc, isC := v.(*ssa.Call)
				if !isC {
					return false
				}
				o := core.CalleeObj(cc)
				return o != nil && o.Name() == "Deadline" && strings.HasSuffix(core.FuncKey(o), "context.Context.Deadline")
			}, nil, 0, map[ssa.Value]bool{}) {
				ok = true
			}
		}
		r.Check(ok, "C05-R1", fname(f), "SetDeadline(ctx.Deadline() or default)", p.Pos(f.Pos()), "deadline derives from the context", "handshake deadline is not taken from the context")
	}

}

func lockOpExported(i ssa.Instruction) (types.Object, bool, core.LockMode, bool) {
	return core.LockOp(i)
}

// reviewedBareWait: bare receives that are joins of a goroutine that was just told to stop.
func reviewedBareWait(p *core.Prog, x *ssa.UnOp) (bool, string) {
	fld := core.LoadedField(x.X)
	if fld == nil {
		return false, ""
	}
	f := x.Parent()
	switch fld.Name() {
	case "healthCheckDone":
		// must be preceded by the cancellation of the health-check context in the same function
		ok := false
		core.EachInstr(f, func(i ssa.Instruction) {
			if c, isC := i.(*ssa.Call); isC {
				if cf := core.LoadedField(c.Call.Value); cf != nil && cf.Name() == "healthCheckQuit" && before(i, x) {
					ok = true
				}
			}
		})
		if ok {
			return true, "join of the health-check goroutine right after cancelling its context (self-join is judged by C11-R4 / C19-R4)"
		}
	case "newConnLock":
		return true, "release of the per-peer connect slot (buffered, never blocks when held)"
	}
	return false, ""
}

// ctxDerivesFromParam: v is the function's context parameter or a child made by context.With*.
func ctxDerivesFromParam(v ssa.Value, f *ssa.Function) bool {
	memo := map[ssa.Value]bool{}
	var walk0 func(v ssa.Value) bool
	walk := func(v ssa.Value) bool {
		if res, ok := memo[v]; ok {
			return res
		}
		memo[v] = true // optimistic for cycles through phis
		res := walk0(v)
		memo[v] = res
		return res
	}
	walk0 = func(v ssa.Value) bool {
		switch x := v.(type) {
		case *ssa.Parameter:
			return strings.HasSuffix(x.Type().String(), "context.Context")
		case *ssa.Phi:
			for _, e := range x.Edges {
				if !walk(e) {
					return false
				}
			}
			return true
		case *ssa.Extract:
			return walk(x.Tuple)
		case *ssa.Call:
			if o := core.CalleeObj(x); o != nil && strings.HasPrefix(o.Name(), "With") && strings.HasSuffix(o.Pkg().Path(), "context") {
				return walk(x.Call.Args[0])
			}
		case *ssa.MakeInterface:
			return walk(x.X)
		case *ssa.UnOp:
			if al, ok := x.X.(*ssa.Alloc); ok {
				okAll := false
				for _, ref := range *al.Referrers() {
					if st, ok := ref.(*ssa.Store); ok && st.Addr == ssa.Value(al) {
						if !walk(st.Val) {
							return false
						}
						okAll = true
					}
				}
				return okAll
			}
		}
		return false
	}
	return walk(v)
}

// ioErrorsReachConnectionError: both I/O loops hand a failed read / write to
// connectionError, which stops the exchanges (waking callers and cancelling
// handler contexts). Closing the socket alone is not enough: after
// closeNetwork the read loop deliberately ignores its errors.
func ioErrorsReachConnectionError(p *core.Prog, r *core.Report, rule string) {
	f := mustFunc(p, r, "", "Connection", "writeFrames")
	if f == nil {
		return
	}
	n := 0
	for _, w := range core.CallsIn(f, "Frame.WriteOut") {
		n++
		errV := w.Value()
		ok, how := false, "no error arm for the write"
		for _, b := range f.Blocks {
			if !factsAt(b).nilCmp(func(v ssa.Value) bool { return v == ssa.Value(errV) }, false) || len(b.Preds) != 1 {
				continue
			}
			isCE := func(i ssa.Instruction) bool { _, is := core.IsCall(i, "Connection.connectionError"); return is }
			res := core.ReachAvoiding(f, b.Instrs[0], core.IsReturn, isCE, nil)
			ok = !res.Found || isCE(b.Instrs[0])
			if !ok {
				how = "a failed frame write leaves the writer loop without connectionError: the exchanges are never stopped (callers keep waiting, handler contexts stay live): " + p.TrailString(res)
			}
			break
		}
		r.Check(ok, rule, fname(f), "write error -> connectionError before the writer exits", p.Pos(w.Pos()), "every path on the error arm passes connectionError", how)
	}
	if n == 0 {
		r.Errorf("writeFrames: no Frame.WriteOut call found")
	}
}

func c05Failure(p *core.Prog, r *core.Report) {
	ioErrorsReachConnectionError(p, r, "C05-R2")
	for _, name := range []string{"connectionError", "protocolError"} {
		f := mustFunc(p, r, "", "Connection", name)
		if f == nil {
			continue
		}
		sets := map[string]bool{}
		for _, c := range p.CallsDeep(f, 2, "messageExchangeSet.stopExchanges") {
			sets[recvFieldName(c)] = true
		}
		// reached on every path where this invocation won the stoppedExchanges CAS
		ok := sets["inbound"] && sets["outbound"]
		var ks []string
		for k := range sets {
			ks = append(ks, k)
		}
		sort.Strings(ks)
		r.Check(ok, "C05-R2", fname(f), "stopExchanges on inbound and outbound", p.Pos(f.Pos()), "both exchange sets are stopped", "exchange sets stopped: "+strings.Join(ks, ","))
	}
	if f := mustFunc(p, r, "", "messageExchangeSet", "stopExchanges"); f != nil {
		// Notify is called inside a range loop over the copied exchanges
		ok := false
		for _, c := range core.CallsIn(f, "errNotifier.Notify") {
			for _, l := range core.Loops(f) {
				if l.Blocks[c.Block()] {
					ok = true
				}
			}
		}
		r.Check(ok, "C05-R2", fname(f), "every copied exchange is notified", p.Pos(f.Pos()), "Notify inside the loop over the exchanges", "not every exchange is notified of the connection failure")
	}
	exchangeWaitsHaveLatch(p, r, "C05-R2")
}

// exchangeWaitsHaveLatch (shared by C05 and C04): a wait on an exchange is released when the exchange is shut down or its connection fails.
func exchangeWaitsHaveLatch(p *core.Prog, r *core.Report, rule string) {
	// every blocking select in mex.go / reqres.go that waits for the peer has the error-latch arm
	for _, n := range [][2]string{{"messageExchange", "recvPeerFrame"}, {"messageExchange", "forwardPeerFrame"}, {"reqResWriter", "flushFragment"}} {
		f := mustFunc(p, r, "", n[0], n[1])
		if f == nil {
			continue
		}
		cnt := 0
		core.EachInstr(f, func(i ssa.Instruction) {
			sel, ok := i.(*ssa.Select)
			if !ok || !sel.Blocking {
				return
			}
			cnt++
			has := false
			for _, st := range sel.States {
				if fld := core.LoadedField(st.Chan); fld != nil && fld.Name() == "c" && st.Dir == types.RecvOnly {
					has = true // errNotifier.c
				}
			}
			r.Check(has, rule, fname(f), "blocking select has the exchange error-latch arm", p.Pos(i.Pos()), "wakes up when the connection fails", "wait does not observe the exchange's error latch: a connection failure leaves the caller blocked until its deadline")
		})
		if cnt == 0 {
			r.Errorf("%s: no blocking select found", fname(f))
		}
	}
}

func c05Budget(p *core.Prog, r *core.Report) {
	if f := mustFunc(p, r, "", "Connection", "beginCall"); f != nil {
		ok := false
		core.EachInstr(f, func(i ssa.Instruction) {
			ret, isRet := i.(*ssa.Return)
			if !isRet || len(ret.Results) != 2 || !loadsGlobal(core.ReturnValues(ret)[1], "ErrTimeout") {
				return
			}
			fs := factsAt(ret.Block())
			for _, c := range fs.cmps {
				if c.Op == token.LSS {
					if k, isK := core.ConstInt(c.Y); isK && k == 1000000 {
						// ttl = deadline.Sub(now)
						if cc := callResult(c.X, "time.Time.Sub"); cc != nil {
							ok = true
						}
					}
				}
			}
		})
		r.Check(ok, "C05-R4", fname(f), "ttl < 1ms -> ErrTimeout locally", p.Pos(f.Pos()), "guarded by deadline.Sub(now) < time.Millisecond", "sub-millisecond budgets are not failed locally")
	}
	if f := mustFunc(p, r, "", "Peer", "BeginCall"); f != nil {
		ctxP := f.Params[1]
		okConn, okCall := false, false
		for _, c := range core.CallsIn(f, "Peer.GetConnection") {
			if core.CallArgs(c)[1] == ssa.Value(ctxP) {
				okConn = true
			}
		}
		for _, c := range core.CallsIn(f, "Connection.beginCall") {
			if core.CallArgs(c)[1] == ssa.Value(ctxP) {
				okCall = true
			}
		}
		r.Check(okConn && okCall, "C05-R4", fname(f), "the caller's context bounds GetConnection and beginCall", p.Pos(f.Pos()), "same context parameter passed to both", "connection acquisition or the call does not run under the caller's context")
	}
	if f := mustFunc(p, r, "", "Peer", "GetConnection"); f != nil {
		ctxP := f.Params[1]
		ok := false
		for _, c := range core.CallsIn(f, "Peer.Connect") {
			if core.CallArgs(c)[1] == ssa.Value(ctxP) {
				ok = true
			}
		}
		r.Check(ok, "C05-R4", fname(f), "Connect runs under the caller's context", p.Pos(f.Pos()), "context parameter passed on", "Connect does not receive the caller's context")
	}
	if f := mustFunc(p, r, "", "Channel", "Connect"); f != nil {
		// handshake gets the (possibly shortened) context
		ok := false
		for _, c := range core.CallsIn(f, "Channel.outboundHandshake") {
			if ctxDerivesFromParam(core.CallArgs(c)[1], f) {
				ok = true
			}
		}
		r.Check(ok, "C05-R4", fname(f), "handshake runs under the caller's context", p.Pos(f.Pos()), "context (or its WithTimeout child) passed to the handshake", "handshake does not run under the caller's context")
	}
}

// c05StopHealthOnce: connectionError (which runs on callers' goroutines too:
// a failed cancel send, a failed Ping) starts with stopHealthCheck. The wait
// for the health goroutine's exit inside it is entered only while the health
// context has not been cancelled yet: later callers return at once instead of
// queueing behind a health goroutine that may itself be stuck.
func c05StopHealthOnce(p *core.Prog, r *core.Report) {
	f := mustFunc(p, r, "", "Connection", "stopHealthCheck")
	if f == nil {
		return
	}
	n := 0
	core.EachInstr(f, func(i ssa.Instruction) {
		u, ok := i.(*ssa.UnOp)
		if !ok || u.Op != token.ARROW {
			return
		}
		if fl := core.LoadedField(u.X); fl == nil || fl.Name() != "healthCheckDone" {
			return
		}
		n++
		guarded := factsAt(i.Block()).nilCmp(func(v ssa.Value) bool {
			c, isC := v.(*ssa.Call)
			return isC && c.Call.IsInvoke() && c.Call.Method.Name() == "Err"
		}, true)
		r.Check(guarded, "C05-R7", fname(f), "wait for the health checker only if it was not stopped before", p.Pos(i.Pos()),
			"<-healthCheckDone is guarded by healthCheckCtx.Err() == nil", "every caller of connectionError waits for the health-check goroutine's exit, also after it was already stopped: a caller's goroutine (cancel, Ping) is parked behind a health goroutine that may never exit")
	})
	if n == 0 {
		r.Errorf("Connection.stopHealthCheck: no wait on healthCheckDone found")
	}
}
