package rules

import (
	"fmt"
	"go/types"
	"sort"
	"strings"

	"golang.org/x/tools/go/ssa"

	"verif/sa/core"
)

func init() { Registry["C09"] = c09 }

var relayReports = []string{"relay.RelayCall.SentBytes", "relay.RelayCall.ReceivedBytes", "relay.RelayCall.CallResponse", "relay.RelayCall.Succeeded", "relay.RelayCall.Failed",
	"RelayCall.SentBytes", "RelayCall.ReceivedBytes", "RelayCall.CallResponse", "RelayCall.Succeeded", "RelayCall.Failed"}

func isRelayCallMethod(i ssa.Instruction, names ...string) (ssa.CallInstruction, bool) {
	c, ok := i.(ssa.CallInstruction)
	if !ok || !c.Common().IsInvoke() || c.Common().Method == nil {
		return nil, false
	}
	recv := c.Common().Value.Type().String()
	if !strings.HasSuffix(recv, "RelayCall") && !strings.HasSuffix(recv, "sentBytesReporter") {
		return nil, false
	}
	for _, n := range names {
		if c.Common().Method.Name() == n {
			return c, true
		}
	}
	return nil, false
}

func c09(p *core.Prog, r *core.Report) {
	r.Explain = "Decides: (R1) every End() on a registered relay item is control-dependent on an exclusive transition that this invocation won (Delete ok, Entomb ok, and for the fail path additionally the timer stop), and Delete/Entomb report success only on the path that mutated the table under the write lock and never for an existing tombstone; (R2) on every admission path of the relay that returns before the items are registered, a started call is ended exactly once (path counting over the acyclic CFG); (R3) the pending counter is incremented only by admission and decremented exactly once after each won transition and on the admission roll-back, each time re-evaluating the close state; (R4) registering an item always arms its timer for the same id and table, tombstones are scheduled for deletion, and timers are released only by Delete; (R5) relay statistics are not reported on an item that may already have been ended: a report on an item fetched from the table must be made under the table lock or after winning the timer stop. An id still present in the table (live or tombstone) is never admitted again. The timer of a looked-up item is stopped under the table lock; every successful return of Entomb turned a live item into a tombstone; the pending roll-back is path-counted (exactly one decrement on every unregistered return after admission). A frame the receiving relayer cannot queue fails that side's item on every path. A lookup that stops an item's timer happens only in a function that goes on to entomb / delete the item. Items are failed under the id that keys this connection's table (shared with C08-R2); frames of an ended call are dropped before anything is reported for them (shared with C10-R3)."
	r.NotDecided = "the actual outcomes of the races between response, timeout, cancel and connection loss; tombstone timing."
	r.Rule("C09-R1", "E6 guards", 6, "End only after a won exclusive transition")
	r.Rule("C09-R2", "E6 path counting", 3, "admission failures end a started call exactly once")
	r.Rule("C09-R3", "E6 who-may-call/paths", 6, "pending counter balanced")
	r.Rule("C09-R4", "E6 ordering/who-may-call", 4, "items are armed, entombed items deleted, timers released once")
	r.Rule("C09-R5", "E4+E6", 5, "nothing reported after End")
	c09End(p, r)
	c09Admission(p, r)
	c09Pending(p, r)
	c08PostRemapIDs(p, r, "C09-R3")
	c09Forget(p, r)
	// a frame of a call that has ended is dropped before anything is reported for it (shared with C10-R3)
	r.Alias("C10-R3", "C09-R5")
	c10Relay(p, r)
	r.Alias("C10-R3", "")
	c09Reports(p, r)
}

func okOf(key string, idx int) func(ssa.Value) bool {
	return func(v ssa.Value) bool {
		e, ok := v.(*ssa.Extract)
		if !ok || e.Index != idx {
			return false
		}
		c, ok := e.Tuple.(*ssa.Call)
		if !ok {
			return false
		}
		_, is := core.IsCall(c, key)
		return is
	}
}

func c09End(p *core.Prog, r *core.Report) {
	type site struct {
		fn    string
		needs []struct {
			name string
			pred func(ssa.Value) bool
		}
	}
	need := func(name string, pred func(ssa.Value) bool) struct {
		name string
		pred func(ssa.Value) bool
	} {
		return struct {
			name string
			pred func(ssa.Value) bool
		}{name, pred}
	}
	sites := []site{
		{"timeoutRelayItem", []struct {
			name string
			pred func(ssa.Value) bool
		}{need("Entomb ok", okOf("relayItems.Entomb", 1))}},
		{"failRelayItem", []struct {
			name string
			pred func(ssa.Value) bool
		}{need("timer stopped by this caller", okOf("relayItems.Get", 1)), need("Entomb ok", okOf("relayItems.Entomb", 1))}},
		{"finishRelayItem", []struct {
			name string
			pred func(ssa.Value) bool
		}{need("Delete ok", okOf("relayItems.Delete", 1))}},
	}
	for _, s := range sites {
		f := mustFunc(p, r, "", "Relayer", s.fn)
		if f == nil {
			continue
		}
		n := 0
		core.EachInstr(f, func(i ssa.Instruction) {
			c, ok := isRelayCallMethod(i, "End")
			if !ok {
				return
			}
			n++
			fs := factsAt(c.Block())
			for _, nd := range s.needs {
				r.Check(fs.hasBool(nd.pred, true), "C09-R1", fname(f), "End() requires: "+nd.name, p.Pos(c.Pos()), "dominating guard", "End can run although this invocation did not win the transition ("+nd.name+"): the call may be ended twice")
			}
		})
		if n == 0 {
			r.Fail("C09-R1", fname(f), "End() on the winning path", p.Pos(f.Pos()), "this completion path never ends the call")
		}
	}
	// Entomb / Delete: success only on the mutating path, not for tombstones
	itemsF := p.Field("", "relayItems", "items")
	if f := mustFunc(p, r, "", "relayItems", "Entomb"); f != nil {
		ok := true
		nTrue := 0
		core.EachInstr(f, func(i ssa.Instruction) {
			ret, isRet := i.(*ssa.Return)
			if !isRet {
				return
			}
			rv := core.ReturnValues(ret)
			if b, isB := core.ConstBool(rv[1]); isB && !b {
				return
			}
			if c, isC := rv[1].(*ssa.Extract); isC {
				if _, fromDelete := core.IsCall(c.Tuple.(ssa.Instruction), "relayItems.Delete"); fromDelete {
					return // too many tombstones: falls back to Delete, judged by Delete's own rule
				}
			}
			nTrue++
			// the path stored the item back (map update) and was guarded by !item.tomb
			fs := factsAt(ret.Block())
			notTomb := fs.hasBool(func(v ssa.Value) bool {
				if fl, isF := v.(*ssa.Field); isF {
					return core.FieldOfField(fl).Name() == "tomb"
				}
				fl := core.LoadedField(v)
				return fl != nil && fl.Name() == "tomb"
			}, false)
			upd := false
			for _, j := range ret.Block().Instrs {
				if mu, isMU := j.(*ssa.MapUpdate); isMU && core.LoadedField(mu.Map) == itemsF {
					upd = true
				}
			}
			if !(notTomb && upd) {
				ok = false
			}
		})
		if nTrue == 0 {
			ok = false
		}
		r.Check(ok, "C09-R1", fname(f), "Entomb succeeds only when it turned a live item into a tombstone", p.Pos(f.Pos()), "true only after storing the tomb under !item.tomb", "Entomb can succeed for an item that is already a tombstone (two paths both 'win')")
	}
	if f := mustFunc(p, r, "", "relayItems", "Delete"); f != nil {
		ok := false
		core.EachInstr(f, func(i ssa.Instruction) {
			ret, isRet := i.(*ssa.Return)
			if !isRet {
				return
			}
			rv := core.ReturnValues(ret)
			// !item.tomb after delete
			if u, isU := rv[1].(*ssa.UnOp); isU && u.Op.String() == "!" {
				del := false
				for _, j := range mapDeletes(p, f, itemsF, 2) {
					if before(j, ret) {
						del = true
					}
				}
				ok = del
			}
		})
		r.Check(ok, "C09-R1", fname(f), "Delete reports completion only for a live item it removed", p.Pos(f.Pos()), "returns !item.tomb after delete(items, id)", "Delete can report completion for a tombstone or without removing the item")
	}
}

// pathCounts computes, for each return of an acyclic function, the min and max number of
// events on paths from `from` to it; prune vetoes CFG edges.
func pathCounts(f *ssa.Function, from ssa.Instruction, isEvent core.InstrPred, prune func(a, b *ssa.BasicBlock) bool) map[*ssa.Return][2]int {
	return pathCountsW(f, from, func(i ssa.Instruction) (int, int) {
		if isEvent(i) {
			return 1, 1
		}
		return 0, 0
	}, prune)
}

// pathCountsW: for every return reachable from `from` (the function entry when
// nil), the minimum and maximum sum of event weights over the acyclic paths to
// it; weight(i) gives the (min, max) number of events instruction i stands for.
func pathCountsW(f *ssa.Function, from ssa.Instruction, weight func(ssa.Instruction) (int, int), prune func(a, b *ssa.BasicBlock) bool) map[*ssa.Return][2]int {
	type mm struct{ lo, hi int }
	res := map[*ssa.Return][2]int{}
	memo := map[*ssa.BasicBlock]map[*ssa.Return]mm{}
	var walk func(b *ssa.BasicBlock, start int, depth int) map[*ssa.Return]mm
	walk = func(b *ssa.BasicBlock, start int, depth int) map[*ssa.Return]mm {
		if start == 0 {
			if m, ok := memo[b]; ok {
				return m
			}
		}
		out := map[*ssa.Return]mm{}
		if depth > 400 {
			return out
		}
		cnt, cntHi := 0, 0
		for k := start; k < len(b.Instrs); k++ {
			i := b.Instrs[k]
			lo, hi := weight(i)
			cnt += lo
			cntHi += hi
			if ret, ok := i.(*ssa.Return); ok {
				out[ret] = mm{cnt, cntHi}
			}
		}
		for _, s := range b.Succs {
			if prune != nil && prune(b, s) {
				continue
			}
			if s.Dominates(b) {
				continue // back edge: not expected here
			}
			for ret, v := range walk(s, 0, depth+1) {
				nv := mm{v.lo + cnt, v.hi + cntHi}
				if old, ok := out[ret]; ok {
					if old.lo < nv.lo {
						nv.lo = old.lo
					}
					if old.hi > nv.hi {
						nv.hi = old.hi
					}
				}
				out[ret] = nv
			}
		}
		if start == 0 {
			memo[b] = out
		}
		return out
	}
	if from == nil {
		for ret, v := range walk(f.Blocks[0], 0, 0) {
			res[ret] = [2]int{v.lo, v.hi}
		}
		return res
	}
	b := from.Block()
	idx := 0
	for k, i := range b.Instrs {
		if i == from {
			idx = k + 1
		}
	}
	for ret, v := range walk(b, idx, 0) {
		res[ret] = [2]int{v.lo, v.hi}
	}
	return res
}

// nilPrune builds an edge filter that drops the edges requiring v == nil.
func nilPrune(v ssa.Value) func(a, b *ssa.BasicBlock) bool {
	return func(a, b *ssa.BasicBlock) bool {
		ifi, ok := a.Instrs[len(a.Instrs)-1].(*ssa.If)
		if !ok || a.Succs[0] == a.Succs[1] {
			return false
		}
		cmps, _ := core.ExpandCond(ifi.Cond, a.Succs[0] == b)
		for _, c := range cmps {
			if (c.X == v && core.IsNilConst(c.Y)) || (c.Y == v && core.IsNilConst(c.X)) {
				if c.Op.String() == "==" {
					return true
				}
			}
		}
		return false
	}
}

// endWeight: the number of RelayCall.End events an instruction stands for: 1
// for the call itself; for a call to a helper of the analysed packages that
// receives the relay call `callV` as an argument, the (min, max) number of End
// calls on the helper's paths (the relay call taken as non-nil there too).
func endWeight(p *core.Prog, callV ssa.Value, depth int) func(ssa.Instruction) (int, int) {
	return func(i ssa.Instruction) (int, int) {
		if _, ok := isRelayCallMethod(i, "End"); ok {
			return 1, 1
		}
		c, ok := i.(*ssa.Call)
		if !ok || depth <= 0 {
			return 0, 0
		}
		g := c.Call.StaticCallee()
		if g == nil || !p.InAnalysed(g) || len(g.Blocks) == 0 {
			return 0, 0
		}
		var prm ssa.Value
		for k, a := range c.Call.Args {
			if a == callV && k < len(g.Params) {
				prm = g.Params[k]
			}
		}
		if prm == nil {
			return 0, 0
		}
		lo, hi, first := 0, 0, true
		for _, v := range pathCountsW(g, nil, endWeight(p, prm, depth-1), nilPrune(prm)) {
			if first || v[0] < lo {
				lo = v[0]
			}
			if first || v[1] > hi {
				hi = v[1]
			}
			first = false
		}
		return lo, hi
	}
}

func c09Admission(p *core.Prog, r *core.Report) {
	f := mustFunc(p, r, "", "Relayer", "handleCallReq")
	if f == nil {
		return
	}
	var start *ssa.Call
	core.EachInstr(f, func(i ssa.Instruction) {
		if c, ok := i.(*ssa.Call); ok && c.Call.IsInvoke() && c.Call.Method != nil && c.Call.Method.Name() == "Start" {
			start = c
		}
	})
	if start == nil {
		r.Errorf("relay admission: RelayHost.Start call not found")
		return
	}
	var callV ssa.Value
	for _, ref := range *start.Referrers() {
		if e, ok := ref.(*ssa.Extract); ok && e.Index == 0 {
			callV = e
		}
	}
	isEnd := func(i ssa.Instruction) bool { _, ok := isRelayCallMethod(i, "End"); return ok }
	// assume call != nil: prune edges that require call == nil
	prune := func(a, b *ssa.BasicBlock) bool {
		ifi, ok := a.Instrs[len(a.Instrs)-1].(*ssa.If)
		if !ok || a.Succs[0] == a.Succs[1] {
			return false
		}
		cmps, _ := core.ExpandCond(ifi.Cond, a.Succs[0] == b)
		for _, c := range cmps {
			if (c.X == callV && core.IsNilConst(c.Y)) || (c.Y == callV && core.IsNilConst(c.X)) {
				if c.Op.String() == "==" {
					return true // call == nil excluded
				}
			}
		}
		return false
	}
	_ = isEnd
	counts := pathCountsW(f, start, endWeight(p, callV, 2), prune)
	adds := core.CallsIn(f, "Relayer.addRelayItem")
	var rets []*ssa.Return
	for ret := range counts {
		rets = append(rets, ret)
	}
	sort.Slice(rets, func(i, j int) bool { return rets[i].Pos() < rets[j].Pos() })
	nth := 0
	for _, ret := range rets {
		registered := false
		for _, a := range adds {
			if before(a, ret) {
				registered = true
			}
		}
		mmv := counts[ret]
		nth++
		if registered {
			r.Check(mmv[1] == 0, "C09-R2", fname(f), fmt.Sprintf("return #%d after the items are registered does not End directly", nth), p.Pos(ret.Pos()),
				"completion is left to the item's transitions", fmt.Sprintf("End is called %d..%d times on a path that also registered the relay items", mmv[0], mmv[1]))
			continue
		}
		r.Check(mmv[0] == 1 && mmv[1] == 1, "C09-R2", fname(f), fmt.Sprintf("admission return #%d ends the started call exactly once", nth), p.Pos(ret.Pos()),
			"End count on every path = 1", fmt.Sprintf("End is called between %d and %d times on paths to this return (call started, items not registered)", mmv[0], mmv[1]))
	}
	if len(rets) < 4 {
		r.Errorf("relay admission: expected several returns after Start, found %d", len(rets))
	}
}

// isPendingDec: i takes one off the relay's pending count: a call of
// Relayer.decrementPending, or its body inlined (pending.Dec()).
func isPendingDec(i ssa.Instruction) bool {
	if _, ok := core.IsCall(i, "Relayer.decrementPending"); ok {
		return true
	}
	c, ok := i.(*ssa.Call)
	if !ok {
		return false
	}
	o := core.CalleeObj(c)
	if o == nil || o.Name() != "Dec" {
		return false
	}
	if top := c.Parent(); top != nil && top.Name() == "decrementPending" {
		return false // the helper's own body
	}
	return recvFieldName(c) == "pending"
}

func c09Pending(p *core.Prog, r *core.Report) {
	// Inc only in canHandleNewCall
	n := 0
	for _, f := range p.SrcFuncs {
		core.EachInstr(f, func(i ssa.Instruction) {
			c, ok := i.(*ssa.Call)
			if !ok {
				return
			}
			o := core.CalleeObj(c)
			if o == nil || (o.Name() != "Inc" && o.Name() != "Add" && o.Name() != "Store") {
				return
			}
			args := core.CallArgs(c)
			if len(args) == 0 || recvFieldName(c) != "pending" {
				return
			}
			n++
			top := f
			for top.Parent() != nil {
				top = top.Parent()
			}
			r.Check(top.Name() == "canHandleNewCall" && o.Name() == "Inc", "C09-R3", fname(f), "pending."+o.Name(), p.Pos(i.Pos()), "incremented only by admission", "pending counter changed outside admission")
		})
	}
	if n == 0 {
		r.Errorf("pending.Inc not found")
	}
	// decrementPending: exactly once after each won transition
	for _, s := range []struct {
		fn  string
		won func(ssa.Value) bool
	}{{"timeoutRelayItem", okOf("relayItems.Entomb", 1)}, {"failRelayItem", okOf("relayItems.Entomb", 1)}, {"finishRelayItem", okOf("relayItems.Delete", 1)}} {
		f := mustFunc(p, r, "", "Relayer", s.fn)
		if f == nil {
			continue
		}
		// (the helper, or its body inlined: pending.Dec())
		var decs []ssa.Instruction
		core.EachInstr(f, func(i ssa.Instruction) {
			if isPendingDec(i) {
				decs = append(decs, i)
			}
		})
		okGuard := len(decs) == 1 && factsAt(decs[0].Block()).hasBool(s.won, true)
		// every path from the won edge to a return passes it
		okPath := false
		if len(decs) == 1 {
			for _, b := range f.Blocks {
				fs := factsAt(b)
				if fs.hasBool(s.won, true) && len(b.Preds) >= 1 {
					first := b.Instrs[0]
					isDec := func(i ssa.Instruction) bool { return i == decs[0] }
					if isDec(first) {
						okPath = true
					} else {
						okPath = !core.ReachAvoiding(f, first, core.IsReturn, isDec, nil).Found
					}
					break
				}
			}
		}
		r.Check(okGuard && okPath, "C09-R3", fname(f), "decrementPending exactly once after the won transition", p.Pos(f.Pos()), "one call, guarded by the transition's ok, on every winning path", fmt.Sprintf("pending is not decremented exactly once on the winning path (calls=%d guarded=%v allPaths=%v)", len(decs), okGuard, okPath))
	}
	if f := mustFunc(p, r, "", "Relayer", "handleCallReq"); f != nil {
		// path counting from the relay's own successful admission (which
		// incremented pending): every return before the relay items are
		// registered undoes it exactly once, every return after registration
		// leaves it to the items' transitions
		var own ssa.CallInstruction
		for _, c := range core.CallsIn(f, "Relayer.canHandleNewCall") {
			if core.CallArgs(c)[0] == ssa.Value(f.Params[0]) && own == nil {
				own = c
			}
		}
		if own == nil {
			r.Errorf("relay handleCallReq: own canHandleNewCall not found")
		} else {
			var canV ssa.Value
			for _, ref := range *own.Value().Referrers() {
				if ex, isEx := ref.(*ssa.Extract); isEx && ex.Index == 0 {
					canV = ex
				}
			}
			prune := func(a, b *ssa.BasicBlock) bool {
				ifi, ok := a.Instrs[len(a.Instrs)-1].(*ssa.If)
				if !ok || a.Succs[0] == a.Succs[1] {
					return false
				}
				_, bf := core.ExpandCond(ifi.Cond, a.Succs[0] == b)
				for _, x := range bf {
					if x.V == canV && !x.Pol {
						return true // the not-admitted arm: nothing was incremented
					}
				}
				return false
			}
			weight := func(i ssa.Instruction) (int, int) {
				if isPendingDec(i) {
					return 1, 1
				}
				return 0, 0
			}
			counts := pathCountsW(f, own.(ssa.Instruction), weight, prune)
			adds := core.CallsIn(f, "Relayer.addRelayItem")
			var rets []*ssa.Return
			for ret := range counts {
				rets = append(rets, ret)
			}
			sort.Slice(rets, func(i, j int) bool { return rets[i].Pos() < rets[j].Pos() })
			okAll, how := len(rets) >= 3, fmt.Sprintf("%d returns after admission", len(rets))
			for _, ret := range rets {
				registered := false
				for _, a := range adds {
					if before(a, ret) {
						registered = true
					}
				}
				c := counts[ret]
				if registered && c[1] != 0 {
					okAll, how = false, fmt.Sprintf("return at %s decrements pending although the relay items were registered (the items' completion decrements again)", p.Pos(ret.Pos()))
				}
				if !registered && (c[0] != 1 || c[1] != 1) {
					okAll, how = false, fmt.Sprintf("return at %s: pending is decremented %d..%d times on the paths to it after a successful admission that did not register the call", p.Pos(ret.Pos()), c[0], c[1])
				}
			}
			r.Check(okAll, "C09-R3", fname(f), "admission roll-back decrements pending once", p.Pos(f.Pos()), "every unregistered return after admission passes exactly one decrementPending; registered returns none", how)
		}
	}
	// a decrement written out in place of the helper keeps the helper's second
	// half: the close state is re-evaluated on every path after it
	for _, f := range p.SrcFuncs {
		if pkgOf(f) != core.Root || f.Name() == "decrementPending" {
			continue
		}
		f := f
		core.EachInstr(f, func(i ssa.Instruction) {
			if _, isHelper := core.IsCall(i, "Relayer.decrementPending"); isHelper || !isPendingDec(i) {
				return
			}
			res := core.ReachAvoiding(f, i, core.IsReturn, func(j ssa.Instruction) bool {
				_, is := core.IsCall(j, "Connection.checkExchanges")
				return is
			}, nil)
			r.Check(!res.Found, "C09-R3", fname(f), "in-place decrement re-evaluates the close state", p.Pos(i.Pos()), "checkExchanges() follows on every path",
				"pending is decremented without re-evaluating the close state: a connection waiting for its last relayed call never finishes closing")
		})
	}
	if f := mustFunc(p, r, "", "Relayer", "decrementPending"); f != nil {
		ok := len(core.CallsIn(f, "Connection.checkExchanges")) == 1 && onEveryPath(f, "Connection.checkExchanges") && onEveryPath(f, "go.uber.org/atomic.Uint32.Dec")
		r.Check(ok, "C09-R3", fname(f), "decrement re-evaluates the close state", p.Pos(f.Pos()), "checkExchanges()", "connections waiting for relayed calls are not re-checked")
	}
}

// c09StopImpliesFinish: looking an item up with stopTimeout disarms the only
// thing that would still end the call if nobody answers. A lookup may ask for
// that only in a function that goes on to finish the item (entomb / delete it,
// directly or through finishRelayItem / failRelayItem); a mere probe (the
// duplicate-id test at admission) passes the constant false.
func c09StopImpliesFinish(p *core.Prog, r *core.Report) {
	n := 0
	for _, cs := range p.CallsTo("relayItems.Get") {
		if !p.InAnalysed(cs.Fn) || pkgOf(cs.Fn) != core.Root {
			continue
		}
		args := core.CallArgs(cs.Call)
		if len(args) != 3 {
			continue
		}
		n++
		construct := fmt.Sprintf("items.Get(id, stopTimeout=%s): a stopped timer's item is finished", desc(args[2]))
		if b, isC := core.ConstBool(args[2]); isC && !b {
			r.Ok("C09-R4", fname(cs.Fn), construct, p.Pos(cs.Call.Pos()), "a probe: the timer is left armed")
			continue
		}
		fin := p.CallsDeep(cs.Fn, 2, "relayItems.Entomb", "relayItems.Delete")
		r.Check(len(fin) > 0, "C09-R4", fname(cs.Fn), construct, p.Pos(cs.Call.Pos()),
			"the function goes on to entomb / delete the item", "the lookup stops the item's timer but nothing in this function finishes the item: if the call is never answered it is never ended and keeps its item and pending count for ever")
	}
	if n < 3 {
		r.Errorf("expected at least three relayItems.Get sites in the relay, found %d", n)
	}
}

func c09Forget(p *core.Prog, r *core.Report) {
	c09StopImpliesFinish(p, r)
	if f := mustFunc(p, r, "", "Relayer", "addRelayItem"); f != nil {
		adds := core.CallsIn(f, "relayItems.Add")
		starts := core.CallsIn(f, "relayTimer.Start")
		ok := len(adds) == 1 && len(starts) == 1 && before(adds[0], starts[0])
		if ok {
			a, s := core.CallArgs(adds[0]), core.CallArgs(starts[0])
			// same table and id
			ok = a[0] == s[2] && a[1] == s[3]
		}
		r.Check(ok, "C09-R4", fname(f), "items.Add(id, item) then timeout.Start(ttl, items, id, …)", p.Pos(f.Pos()), "timer armed for the same table and id", "a registered item is not given a timer for its own id/table: it can stay forever")
		// timer obtained from the pool per item
		r.Check(len(core.CallsIn(f, "relayTimerPool.Get")) == 1, "C09-R4", fname(f), "one timer per item", p.Pos(f.Pos()), "timeouts.Get()", "item without its own timer")
	}
	// an id that is still in the table (live or tombstone) is never admitted
	// again: admission overwrites the entry, and the tombstone's pending
	// deletion (time.AfterFunc in Entomb, keyed by id) would then delete the
	// new call's item.
	if f := mustFunc(p, r, "", "Relayer", "getDestination"); f != nil {
		var get ssa.CallInstruction
		for _, c := range core.CallsIn(f, "relayItems.Get") {
			if get == nil {
				get = c
			}
		}
		ok, how := false, "no lookup of the caller's id before admission"
		if get != nil {
			var okV ssa.Value
			for _, ref := range *get.Value().Referrers() {
				if ex, isEx := ref.(*ssa.Extract); isEx && ex.Index == 2 {
					okV = ex
				}
			}
			idOK := false
			if fa := core.LoadedField(core.CallArgs(get)[1]); fa != nil && fa.Name() == "ID" {
				idOK = true
			}
			if okV != nil && idOK {
				res := core.ReachAvoiding(f, get.(ssa.Instruction), func(i ssa.Instruction) bool {
					ret, isRet := i.(*ssa.Return)
					if !isRet || len(ret.Results) != 3 {
						return false
					}
					k, isK := core.ReturnValues(ret)[1].(*ssa.Const)
					return !isK || k.Value == nil || k.Value.String() != "false"
				}, nil, func(from, to *ssa.BasicBlock) bool {
					if ifi, isIf := from.Instrs[len(from.Instrs)-1].(*ssa.If); isIf && ifi.Cond == okV {
						return to == from.Succs[1] && from.Succs[0] != from.Succs[1]
					}
					return false
				})
				ok = !res.Found
				how = "the lookup found an entry for the id (live or tombstone) and the call can still be admitted: " + p.TrailString(res)
			} else {
				how = "the duplicate lookup is not on the frame's id / its found-result is not tested"
			}
		}
		r.Check(ok, "C09-R4", fname(f), "an id present in the table (live or tombstone) is never admitted", p.Pos(f.Pos()), "every path on which the lookup of Header.ID succeeds returns not-admitted", how)
	}
	// a frame the receiving relayer cannot queue ends the call there: after a
	// successful lookup (which may already have stopped the item's timer for a
	// finishing frame) every "not sent" return passes failRelayItem, otherwise
	// the item stays live with no timer and pending never returns to zero
	if f := mustFunc(p, r, "", "Relayer", "Receive"); f != nil {
		gets := core.CallsIn(f, "relayItems.Get")
		ok, how := len(gets) == 1, "item lookup not found"
		if ok {
			var okV ssa.Value
			for _, ref := range *gets[0].Value().Referrers() {
				if ex, isEx := ref.(*ssa.Extract); isEx && ex.Index == 2 {
					okV = ex
				}
			}
			res := core.ReachAvoiding(f, gets[0].(ssa.Instruction), func(i ssa.Instruction) bool {
				ret, isRet := i.(*ssa.Return)
				if !isRet {
					return false
				}
				b, isB := core.ConstBool(core.ReturnValues(ret)[0])
				return isB && !b
			}, func(i ssa.Instruction) bool {
				_, is := core.IsCall(i, "Relayer.failRelayItem")
				return is
			}, func(a, b *ssa.BasicBlock) bool {
				ifi, isIf := a.Instrs[len(a.Instrs)-1].(*ssa.If)
				if !isIf || a.Succs[0] == a.Succs[1] {
					return false
				}
				_, bf := core.ExpandCond(ifi.Cond, a.Succs[0] == b)
				for _, x := range bf {
					if x.V == okV && !x.Pol {
						return true // the not-found arm has no item to fail
					}
				}
				return false
			})
			if res.Found {
				ok, how = false, "a frame that could not be queued is reported as not sent without failing the receiving side's item: "+p.TrailString(res)
			}
		}
		r.Check(ok, "C09-R4", fname(f), "a frame that cannot be queued fails the receiver's item", p.Pos(f.Pos()), "every not-sent return after the lookup passes failRelayItem", how)
	}
	// the timer of a looked-up item is stopped while the table lock is still
	// held: Delete (write lock) releases the timer to the pool, so a Stop after
	// the lock is dropped can hit a timer already re-armed for another call
	if f := mustFunc(p, r, "", "relayItems", "Get"); f != nil {
		mu := p.Field("", "relayItems", "RWMutex")
		locks := p.ComputeLocks()
		stops := core.CallsIn(f, "relayTimer.Stop")
		ok := len(stops) > 0 && mu != nil
		for _, c := range stops {
			if locks.At(c.(ssa.Instruction))[mu] == core.NotHeld {
				ok = false
			}
		}
		r.Check(ok, "C09-R4", fname(f), "timeout.Stop() of a looked-up item runs under the table lock", p.Pos(f.Pos()), "lock held at every Stop call", "the item's timer is stopped after the table lock was dropped: it may already have been released and re-armed for another call")
	}
	for _, cs := range p.CallsTo("relayTimer.Release") {
		r.Check(cs.Fn.Name() == "Delete", "C09-R4", fname(cs.Fn), "timer released only by relayItems.Delete", p.Pos(cs.Call.Pos()), "single release point, after the item left the table", "a relay timer is released while its item may still be used")
	}
	if f := mustFunc(p, r, "", "relayItems", "Entomb"); f != nil {
		ok := false
		for _, c := range core.CallsIn(f, "time.AfterFunc") {
			if mc, isMC := core.CallArgs(c)[1].(*ssa.MakeClosure); isMC && len(core.CallsIn(mc.Fn.(*ssa.Function), "relayItems.Delete")) == 1 {
				ok = true
			}
		}
		r.Check(ok, "C09-R4", fname(f), "tombstone deletion scheduled", p.Pos(f.Pos()), "time.AfterFunc(…, Delete)", "tombstones are never removed")
	}
}

func c09Reports(p *core.Prog, r *core.Report) {
	locks := p.ComputeLocks()
	mu := p.Field("", "relayItems", "RWMutex")
	nth := map[string]int{}
	for _, f := range p.SrcFuncs {
		if pkgOf(f) != core.Root {
			continue
		}
		core.EachInstr(f, func(i ssa.Instruction) {
			c, ok := isRelayCallMethod(i, "SentBytes", "ReceivedBytes", "CallResponse", "Succeeded", "Failed")
			if !ok {
				return
			}
			// which call object: from an item fetched with Get, from Start (fresh), or an Entomb/Delete result (owned)
			src := reportSourceAt(c.Common().Value, f, i, 0)
			if src == "start" {
				src = "fresh-unregistered"
				for _, a := range core.CallsIn(f, "Relayer.addRelayItem") {
					if before(a, i) {
						src = "shared"
					}
				}
			}
			if src == "owned" || src == "fresh-unregistered" {
				r.OkTrivial("C09-R5", fname(f), "report "+c.Common().Method.Name()+" on a call this path owns", p.Pos(i.Pos()), "item obtained by a won transition, or not yet registered")
				return
			}
			key := fname(f) + "|" + c.Common().Method.Name()
			nth[key]++
			construct := "report " + c.Common().Method.Name() + " on a shared relay item"
			if nth[key] > 1 {
				construct += fmt.Sprintf(" #%d", nth[key])
			}
			fs := factsAt(c.Block())
			underLock := mu != nil && locks.Holds(c.(ssa.Instruction), mu, core.RHeld)
			wonStop := fs.hasBool(okOf("relayItems.Get", 1), true)
			r.Check(underLock || wonStop, "C09-R5", fname(f), construct, p.Pos(i.Pos()),
				"made under the table lock or after winning the timer stop", "the item was fetched without keeping the lock and this path did not stop its timer: the timeout (or the other connection's reader) can End the call before this report")
		})
	}
}

// reportSource classifies the receiver of a report call made at instruction `at`.
func reportSource(v ssa.Value, f *ssa.Function) string { return reportSourceAt(v, f, nil, 0) }

func reportSourceAt(v ssa.Value, f *ssa.Function, at ssa.Instruction, depth int) string {
	seen := map[ssa.Value]bool{}
	var walk func(v ssa.Value, use ssa.Instruction) string
	walk = func(v ssa.Value, use ssa.Instruction) string {
		if seen[v] {
			return ""
		}
		seen[v] = true
		switch x := v.(type) {
		case *ssa.Field:
			return walk(x.X, x)
		case *ssa.UnOp:
			return walk(x.X, x)
		case *ssa.FieldAddr:
			return walk(x.X, x)
		case *ssa.Extract:
			if c, ok := x.Tuple.(*ssa.Call); ok {
				if _, is := core.IsCall(c, "relayItems.Entomb", "relayItems.Delete"); is {
					return "owned"
				}
				if _, is := core.IsCall(c, "relayItems.Get"); is {
					return "shared"
				}
				if c.Call.IsInvoke() && c.Call.Method != nil && c.Call.Method.Name() == "Start" {
					return "start"
				}
			}
			return walk(x.Tuple, use)
		case *ssa.Alloc:
			// local struct variable: the store that reaches the use (latest dominating store)
			var best *ssa.Store
			for _, ref := range *x.Referrers() {
				st, ok := ref.(*ssa.Store)
				if !ok || st.Addr != ssa.Value(x) {
					continue
				}
				if use != nil && !before(st, use) {
					continue
				}
				if best == nil || before(best, st) {
					best = st
				}
			}
			if best != nil {
				return walk(best.Val, best)
			}
			return "shared"
		case *ssa.Parameter:
			if depth > 3 {
				return "shared"
			}
			g := x.Parent()
			idx := -1
			for k, q := range g.Params {
				if q == x {
					idx = k
				}
			}
			out := ""
			var prog *ssa.Program = g.Prog
			for _, pk := range prog.AllPackages() {
				for _, m := range pk.Members {
					_ = m
				}
			}
			// static call sites of g in its own package
			for _, caller := range allFuncsOf(g) {
				core.EachInstr(caller, func(i ssa.Instruction) {
					c, ok := i.(ssa.CallInstruction)
					if !ok || c.Common().StaticCallee() != g || idx >= len(c.Common().Args) {
						return
					}
					s := reportSourceAt(c.Common().Args[idx], caller, i, depth+1)
					if s == "start" {
						s = "fresh-unregistered"
						for _, a := range core.CallsIn(caller, "Relayer.addRelayItem") {
							if before(a, i) {
								s = "shared"
							}
						}
					}
					if s == "shared" || out == "" {
						out = s
					}
				})
			}
			if out == "" {
				return "shared"
			}
			return out
		case *ssa.Phi:
			out := ""
			for _, e := range x.Edges {
				if s := walk(e, use); s == "shared" {
					out = "shared"
				} else if out == "" {
					out = s
				}
			}
			return out
		}
		return "shared"
	}
	return walk(v, at)
}

var pkgFuncsCache = map[*ssa.Package][]*ssa.Function{}

func allFuncsOf(g *ssa.Function) []*ssa.Function {
	pk := g.Pkg
	for h := g; pk == nil && h != nil; h = h.Parent() {
		pk = h.Pkg
	}
	if pk == nil {
		return nil
	}
	if fs, ok := pkgFuncsCache[pk]; ok {
		return fs
	}
	var out []*ssa.Function
	var add func(f *ssa.Function)
	add = func(f *ssa.Function) {
		out = append(out, f)
		for _, a := range f.AnonFuncs {
			add(a)
		}
	}
	for _, m := range pk.Members {
		switch x := m.(type) {
		case *ssa.Function:
			add(x)
		case *ssa.Type:
			for _, t := range []types.Type{x.Type(), types.NewPointer(x.Type())} {
				ms := pk.Prog.MethodSets.MethodSet(t)
				for i := 0; i < ms.Len(); i++ {
					if fn := pk.Prog.MethodValue(ms.At(i)); fn != nil && fn.Synthetic == "" && fn.Blocks != nil {
						add(fn)
					}
				}
			}
		}
	}
	pkgFuncsCache[pk] = out
	return out
}
