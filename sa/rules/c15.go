package rules

import (
	"fmt"
	"go/token"
	"go/types"
	"math"
	"sort"
	"strings"

	"golang.org/x/tools/go/ssa"

	"verif/sa/core"
)

func init() {
	Registry["C15"] = c15
	Registry["C16"] = c16
}

func c15(p *core.Prog, r *core.Report) {
	r.Explain = "Decides bookkeeping that selection correctness rests on (not optimality): (R1) the membership map and the heap of a peer list change together: Add inserts the same peerScore into both and Remove deletes from both; (R2) heap back-pointers: every placement of an element into the heap's slice (Swap, Push) updates its index to that position, Pop invalidates it, and Fix/Remove are given the element's own index; (R3) selection restores the heap: every popped element that is rejected is collected and pushed back, the chosen one is pushed back with a fresh order stamp before it is returned, and the selection counter is bumped; (R4) score tiers by constant evaluation: unconnected peers score MaxUint64, connected peers without inbound connections are offset by MaxInt32 above those with inbound ones, and the no-peers error is returned only for an empty list. A peer is inserted only after a lookup miss made under the write lock; (R5) heap order is (score, order) ascending and score changes are stored before the heap is fixed and reach every list. The lower score tier is taken exactly when the inbound count is zero; (R6) tried peers and hosts are recorded and the retry closures pass the attempt's RequestState (shared with C17). The load used for scoring counts calls pending on inbound and outbound connections; the selection scan is bounded by the heap length. Every peer told about a closing connection is re-scored on every path. Every store into peerScore.score outside construction is followed on every path by heap.Fix."
	r.NotDecided = "that the returned peer has the minimum score among eligible peers; eligibility under all histories; the 3n fairness bound (depends on the randomised order stamp) - these need a reference model of the heap, which is a different technique family."
	r.Rule("C15-R1", "E6 sameOperand", 2, "map and heap change together")
	r.Rule("C15-R2", "E6 provenance", 5, "heap index back-pointers maintained")
	r.Rule("C15-R3", "E6 paths", 4, "selection restores the heap")
	r.Rule("C15-R4", "constants/guards", 4, "score tiers and the no-peers condition")
	if f := mustFunc(p, r, "", "Peer", "NumPendingOutbound"); f != nil {
		names := map[string]bool{}
		core.EachInstr(f, func(i ssa.Instruction) {
			if v, ok := i.(ssa.Value); ok {
				if fl := core.LoadedField(v); fl != nil {
					names[fl.Name()] = true
				}
			}
		})
		r.Check(names["inboundConnections"] && names["outboundConnections"], "C15-R4", fname(f), "pending calls counted on inbound and outbound connections", p.Pos(f.Pos()), "both connection lists are walked",
			"the load used for scoring ignores the calls pending on one kind of connection: peers reached that way always look idle")
	}
	if f := mustFunc(p, r, "", "PeerList", "choosePeer"); f != nil {
		// the scan that skips ineligible peers may pop every element: its bound
		// is the heap's length, not something smaller (one tried host can make
		// many peers ineligible)
		ok, how := false, "no pop loop bounded by the heap length found"
		for _, l := range core.Loops(f) {
			hasPop := false
			for b := range l.Blocks {
				for _, i := range b.Instrs {
					if _, isPop := core.IsCall(i, "peerHeap.popPeer"); isPop {
						hasPop = true
					}
				}
			}
			if !hasPop {
				continue
			}
			bound := loopTripBound(l)
			if bound == nil {
				continue
			}
			if all, why := loopSkipsNone(l); !all {
				how = "the scan over the heap does not run heap-length times (" + why + "): the last eligible peer is never reached, and a one-peer list yields none"
			} else if callResult(bound, "peerHeap.Len") != nil {
				ok = true
			} else {
				how = "the scan over the heap is bounded by " + desc(bound) + " instead of the heap length: eligible peers behind that many ineligible ones are never reached"
			}
		}
		r.Check(ok, "C15-R3", fname(f), "the selection scan can reach every heap element", p.Pos(f.Pos()), "loop bound = peerHeap.Len()", how)
	}
	r.Rule("C15-R6", "E6 provenance", 3, "tried peers and their hosts are recorded and handed to selection (shared with C17)")
	r.Alias("C17-R4", "C15-R6")
	c17State(p, r)
	r.Alias("C17-R4", "")
	r.Rule("C15-R5", "E6 shape/paths", 6, "heap order is (score, order) ascending; score changes are stored and re-heapified")
	c15Order(p, r)

	mapF := p.Field("", "PeerList", "peersByHostPort")
	if f := mustFunc(p, r, "", "PeerList", "Add"); f != nil {
		var mapped ssa.Value
		core.EachInstr(f, func(i ssa.Instruction) {
			if mu, ok := i.(*ssa.MapUpdate); ok && core.LoadedField(mu.Map) == mapF {
				mapped = mu.Value
			}
		})
		ok := false
		for _, c := range core.CallsIn(f, "peerHeap.addPeer") {
			if mapped != nil && core.CallArgs(c)[1] == mapped {
				ok = true
			}
		}
		r.Check(ok, "C15-R1", fname(f), "Add: the same peerScore goes into the map and the heap", p.Pos(f.Pos()), "one operand", "a peer can be in the map without being in the heap (never selected) or vice versa")
		// the insert happens only after a lookup miss made while the write
		// lock is held: two racing Adds of one host:port would otherwise put
		// two heap entries behind one map entry.
		miss, locked := insertAfterLockedMiss(p, f, mapF, "PeerList", "RWMutex")
		r.Check(miss && locked, "C15-R1", fname(f), "Add: insert only after a lookup miss under the write lock", p.Pos(f.Pos()),
			"the map update is dominated by a failed comma-ok lookup of the same key made with the write lock held",
			fmt.Sprintf("a peer can be inserted twice (lookup miss dominating the insert=%v, lookup under the write lock=%v): the map keeps one entry, the heap two", miss, locked))
	}
	if f := mustFunc(p, r, "", "PeerList", "Remove"); f != nil {
		var looked ssa.Value
		del := false
		core.EachInstr(f, func(i ssa.Instruction) {
			if c, ok := core.IsBuiltin(i, "delete"); ok && core.LoadedField(c.Call.Args[0]) == mapF {
				del = true
			}
			if lk, ok := i.(*ssa.Lookup); ok && core.LoadedField(lk.X) == mapF {
				looked = lk
			}
		})
		ok := false
		for _, c := range core.CallsIn(f, "peerHeap.removePeer") {
			a := core.CallArgs(c)[1]
			if e, isE := a.(*ssa.Extract); isE && e.Tuple == looked {
				ok = true
			}
		}
		r.Check(ok && del, "C15-R1", fname(f), "Remove: deleted from the map and removed from the heap", p.Pos(f.Pos()), "both removals of the looked-up element", "removed peers stay selectable (or stay in the map)")
	}
	// R2
	idxF := p.Field("", "peerScore", "index")
	if f := mustFunc(p, r, "", "peerHeap", "Swap"); f != nil {
		// stores: peerScores[i].index = i and [j].index = j
		got := map[string]bool{}
		core.EachInstr(f, func(i ssa.Instruction) {
			st, ok := i.(*ssa.Store)
			if !ok || core.AddrField(st.Addr) != idxF {
				return
			}
			// address: &(*(&peerScores[k])).index
			fa := st.Addr.(*ssa.FieldAddr)
			if ld, ok := fa.X.(*ssa.UnOp); ok {
				if ia, ok := ld.X.(*ssa.IndexAddr); ok && ia.Index == st.Val {
					got[desc(st.Val)] = true
				}
			}
		})
		r.Check(len(got) == 2, "C15-R2", fname(f), "Swap: peerScores[k].index = k for both positions", p.Pos(f.Pos()), fmt.Sprint(keysOf(got)), "swapped elements keep stale indices: later Fix/Remove touch the wrong element")
	}
	if f := mustFunc(p, r, "", "peerHeap", "Push"); f != nil {
		ok := false
		core.EachInstr(f, func(i ssa.Instruction) {
			if st, isSt := i.(*ssa.Store); isSt && core.AddrField(st.Addr) == idxF {
				if lx := lenOperand(st.Val); lx != nil {
					ok = true
				}
			}
		})
		r.Check(ok, "C15-R2", fname(f), "Push: index = position of the appended element", p.Pos(f.Pos()), "index = len before append", "pushed elements do not know their position")
	}
	if f := mustFunc(p, r, "", "peerHeap", "Pop"); f != nil {
		ok := false
		core.EachInstr(f, func(i ssa.Instruction) {
			if st, isSt := i.(*ssa.Store); isSt && core.AddrField(st.Addr) == idxF {
				if k, isK := core.ConstInt(st.Val); isK && k == -1 {
					ok = true
				}
			}
		})
		r.Check(ok, "C15-R2", fname(f), "Pop: index invalidated", p.Pos(f.Pos()), "index = -1", "popped elements keep a heap index")
	}
	for _, m := range []struct{ fn, lib string }{{"updatePeer", "container/heap.Fix"}, {"removePeer", "container/heap.Remove"}} {
		f := mustFunc(p, r, "", "peerHeap", m.fn)
		if f == nil {
			continue
		}
		ok := false
		core.EachInstr(f, func(i ssa.Instruction) {
			if c, isC := i.(*ssa.Call); isC {
				if o := core.CalleeObj(c); o != nil && core.FuncKey(o) == m.lib {
					if core.LoadedField(c.Call.Args[1]) == idxF {
						ok = true
					}
				}
			}
		})
		r.Check(ok, "C15-R2", fname(f), m.lib+"(ph, peerScore.index)", p.Pos(f.Pos()), "uses the element's own index", "heap operation applied at another index")
	}
	// R3
	if f := mustFunc(p, r, "", "PeerList", "choosePeer"); f != nil {
		pops := core.CallsIn(f, "peerHeap.popPeer")
		okCollect, okRepush, okChosen, okCount := false, false, false, false
		if len(pops) == 1 {
			popped := pops[0].Value()
			// rejected elements appended to a list
			core.EachInstr(f, func(i ssa.Instruction) {
				c, ok := i.(*ssa.Call)
				if !ok {
					return
				}
				if b, isB := c.Call.Value.(*ssa.Builtin); isB && b.Name() == "append" {
					if usesInVarargs(c.Call.Args[1], popped) {
						// every path from the pop that does not select it passes the append:
						okCollect = true
					}
				}
			})
			// between pop and the loop back edge/exit: either selected (phi gets popped) or appended
			sel := func(i ssa.Instruction) bool {
				if c, ok := i.(*ssa.Call); ok {
					if b, isB := c.Call.Value.(*ssa.Builtin); isB && b.Name() == "append" && usesInVarargs(c.Call.Args[1], popped) {
						return true
					}
				}
				return false
			}
			// the "selected" path: block guarded by canChoosePeer true
			miss := core.ReachAvoiding(f, pops[0], func(i ssa.Instruction) bool {
				// reaching the loop header again or leaving the loop without selection or append
				if fsel := factsAt(i.Block()); fsel.hasBool(func(v ssa.Value) bool {
					c, ok := v.(*ssa.Call)
					return ok && c.Call.StaticCallee() != nil && c.Call.StaticCallee().Parent() == f
				}, true) {
					return false
				}
				_, isPop := core.IsCall(i, "peerHeap.popPeer")
				return isPop
			}, sel, func(a, b *ssa.BasicBlock) bool {
				// do not follow the "can choose" edge (selection)
				ifi, ok := a.Instrs[len(a.Instrs)-1].(*ssa.If)
				if !ok {
					return false
				}
				if c, isC := ifi.Cond.(*ssa.Call); isC && c.Call.StaticCallee() != nil && c.Call.StaticCallee().Parent() == f {
					return a.Succs[0] == b
				}
				return false
			})
			if miss.Found {
				okCollect = false
			}
		}
		// re-push loop over the collected list
		for _, l := range core.Loops(f) {
			for b := range l.Blocks {
				for _, i := range b.Instrs {
					if c, ok := i.(*ssa.Call); ok {
						if o := core.CalleeObj(c); o != nil && core.FuncKey(o) == "container/heap.Push" {
							okRepush = true
						}
					}
				}
			}
		}
		// chosen pushed back before return of ps.Peer
		pushes := core.CallsIn(f, "peerHeap.pushPeer")
		core.EachInstr(f, func(i ssa.Instruction) {
			ret, ok := i.(*ssa.Return)
			if !ok || core.IsNilConst(core.ReturnValues(ret)[0]) {
				return
			}
			for _, pu := range pushes {
				if before(pu, ret) {
					okChosen = true
				}
			}
			for _, j := range ret.Block().Instrs {
				if c, ok := j.(*ssa.Call); ok {
					if o := core.CalleeObj(c); o != nil && o.Name() == "Inc" && recvFieldName(c) == "chosenCount" {
						okCount = true
					}
				}
			}
		})
		r.Check(okCollect, "C15-R3", fname(f), "every popped, rejected element is collected", p.Pos(f.Pos()), "append(psPopList, popped) on every non-selecting path", "a rejected peer is dropped from the heap (starved forever)")
		r.Check(okRepush, "C15-R3", fname(f), "collected elements are pushed back", p.Pos(f.Pos()), "heap.Push in the loop over the collected list", "rejected peers are not returned to the heap")
		r.Check(okChosen, "C15-R3", fname(f), "the chosen element is pushed back with a fresh order stamp", p.Pos(f.Pos()), "pushPeer(ps) before it is returned", "the chosen peer leaves the heap")
		r.Check(okCount, "C15-R3", fname(f), "selection counted", p.Pos(f.Pos()), "chosenCount.Inc()", "selection counter not maintained")
	}
	if f := mustFunc(p, r, "", "peerHeap", "pushPeer"); f != nil {
		ordF := p.Field("", "peerHeap", "order")
		ok := false
		core.EachInstr(f, func(i ssa.Instruction) {
			if st, isSt := i.(*ssa.Store); isSt && core.AddrField(st.Addr) == ordF {
				if bo, isB := st.Val.(*ssa.BinOp); isB && bo.Op == token.ADD {
					if k, isK := core.ConstInt(bo.Y); isK && k == 1 {
						ok = true
					}
				}
			}
		})
		r.Check(ok, "C15-R3", fname(f), "order stamp strictly increases", p.Pos(f.Pos()), "order++ per push", "re-pushed peers do not go behind equally scored peers")
	}
	// R4
	for _, name := range []string{"leastPendingCalculator", "preferIncomingCalculator"} {
		f := mustFunc(p, r, "", name, "GetScore")
		if f == nil {
			continue
		}
		unconn := false
		offset := false
		core.EachInstr(f, func(i ssa.Instruction) {
			if ret, ok := i.(*ssa.Return); ok {
				if c, isC := core.ReturnValues(ret)[0].(*ssa.Const); isC && c.Value != nil && c.Value.ExactString() == fmt.Sprint(uint64(math.MaxUint64)) {
					// guarded by inbound+outbound == 0
					for _, cm := range factsAt(ret.Block()).cmps {
						if k, isK := core.ConstInt(cm.Y); isK && k == 0 && cm.Op == token.EQL {
							unconn = true
						}
					}
				}
				if bo, isB := core.ReturnValues(ret)[0].(*ssa.BinOp); isB && bo.Op == token.ADD {
					for _, side := range []ssa.Value{bo.X, bo.Y} {
						if k, isK := core.ConstInt(side); isK && k == math.MaxInt32 {
							// the lower tier is taken exactly when the inbound count is zero
							for _, cm := range factsAt(ret.Block()).cmps {
								ex, isEx := cm.X.(*ssa.Extract)
								k0, isK0 := core.ConstInt(cm.Y)
								if isEx && ex.Index == 0 && callResult(ex.Tuple, "Peer.NumConnections") != nil && isK0 && k0 == 0 && cm.Op == token.EQL {
									offset = true
								}
							}
						}
					}
				}
			}
		})
		r.Check(unconn, "C15-R4", fname(f), "unconnected peers score MaxUint64", p.Pos(f.Pos()), "returned under connections == 0", "unconnected peers are not ranked last")
		if name == "preferIncomingCalculator" {
			r.Check(offset, "C15-R4", fname(f), "peers without inbound connections are offset by MaxInt32", p.Pos(f.Pos()), "MaxInt32 + pending", "connected peers without inbound connections are not ranked after those with inbound ones")
		}
	}
	// tried peers are excluded only while an alternative exists: when every
	// peer was tried (GetNew answers ErrNoNewPeers), Get selects again with an
	// empty exclusion set and without host avoidance
	if f := mustFunc(p, r, "", "PeerList", "Get"); f != nil {
		ok, how := false, "Get has no unrestricted selection on the ErrNoNewPeers arm: once every peer was tried, no peer is returned although the list is not empty"
		for _, c := range core.CallsIn(f, "PeerList.choosePeer") {
			a := core.CallArgs(c)
			if len(a) != 3 || !core.IsNilConst(a[1]) {
				continue
			}
			if b, isB := core.ConstBool(a[2]); !isB || b {
				continue
			}
			for _, cm := range factsAt(c.Block()).cmps {
				if cm.Op == token.EQL && (loadsGlobal(cm.Y, "ErrNoNewPeers") && resultThrough(p, cm.X, 0, "PeerList.GetNew") || loadsGlobal(cm.X, "ErrNoNewPeers") && resultThrough(p, cm.Y, 0, "PeerList.GetNew")) {
					ok = true
				}
			}
		}
		r.Check(ok, "C15-R4", fname(f), "all peers tried -> select again among all of them", p.Pos(f.Pos()), "choosePeer(nil, false) under err == ErrNoNewPeers", how)
	}
	// eligibility: a peer is skipped if its host:port was tried, and - while
	// hosts are avoided - if its host was tried
	if f := mustFunc(p, r, "", "PeerList", "choosePeer"); f != nil {
		keys := map[string]bool{}
		hostGuarded := false
		scan := func(g *ssa.Function) {
			core.EachInstr(g, func(i ssa.Instruction) {
				lk, isLk := i.(*ssa.Lookup)
				if !isLk {
					return
				}
				if mt, isMap := lk.X.Type().Underlying().(*types.Map); !isMap || !types.Identical(mt.Key(), types.Typ[types.String]) {
					return
				}
				if callResult(lk.Index, "getHost") != nil {
					keys["host"] = true
					for _, bf := range factsAt(lk.Block()).bools {
						if bf.Pol {
							hostGuarded = true
						}
					}
				} else {
					keys["host:port"] = true
				}
			})
		}
		scanned := map[*ssa.Function]bool{}
		for _, g := range append([]*ssa.Function{f}, p.FuncsDeep(f, 2)...) {
			if g != nil && !scanned[g] && (g == f || g.Name() != "getHost") {
				scanned[g] = true
				scan(g)
			}
		}
		for _, af := range f.AnonFuncs {
			if !scanned[af] {
				scan(af)
			}
		}
		r.Check(keys["host"] && keys["host:port"] && hostGuarded, "C15-R4", fname(f), "eligibility looks up the host:port and, while avoiding hosts, the host", p.Pos(f.Pos()), "prevSelected[hostPort] and prevSelected[getHost(hostPort)] under avoidHost",
			fmt.Sprintf("the exclusion test does not look up both the peer's host:port and its host (host:port=%v host=%v under avoidHost=%v): peers on an already tried host are not avoided", keys["host:port"], keys["host"], hostGuarded))
	}
	if f := mustFunc(p, r, "", "PeerList", "GetNew"); f != nil {
		ok := false
		core.EachInstr(f, func(i ssa.Instruction) {
			ret, isRet := i.(*ssa.Return)
			if !isRet || !loadsGlobal(core.ReturnValues(ret)[1], "ErrNoPeers") {
				return
			}
			if factsAt(ret.Block()).hasCmp(func(v ssa.Value) bool { return callResult(v, "peerHeap.Len") != nil }, []token.Token{token.EQL}, 0) {
				ok = true
			}
		})
		r.Check(ok, "C15-R4", fname(f), "ErrNoPeers only for an empty list", p.Pos(f.Pos()), "guarded by Len() == 0", "no-peers is reported for a non-empty list (or not for an empty one)")
	}
}

func keysOf(m map[string]bool) []string {
	var out []string
	for k := range m {
		out = append(out, k)
	}
	sort.Strings(out)
	return out
}

// usesInVarargs: the variadic slice argument holds v.
func usesInVarargs(sl ssa.Value, v ssa.Value) bool {
	s, ok := sl.(*ssa.Slice)
	if !ok {
		return false
	}
	al, ok := s.X.(*ssa.Alloc)
	if !ok {
		return false
	}
	for _, ref := range *al.Referrers() {
		if ia, ok := ref.(*ssa.IndexAddr); ok {
			for _, r2 := range *ia.Referrers() {
				if st, ok := r2.(*ssa.Store); ok && st.Val == v {
					return true
				}
			}
		}
	}
	return false
}

func c16(p *core.Prog, r *core.Report) {
	r.Explain = "Decides bookkeeping structure: (R1) single writers: a peer's connection lists grow only in Peer.addConnection, after a test that the connection is active, and shrink only in removeConnection; the channel's connection table is written only by addConnection (active connection, channel not closing) and removeClosedConn (closed connection); (R2) status callbacks: a successful add is followed by onStatusChanged, a found removal by onClosedConnRemoved and then onStatusChanged; (R3) host:port mismatch symmetry: the condition under which Connect also adds the connection to the dialled peer and the condition under which the close-state callback also removes it from the dialled peer compare the same two operands; (R4) the root list drops a peer exactly when canRemove(), which counts inbound and outbound connections and sub-channel references. The sub-channel reference count changes exactly on the paths that list / unlist the peer. The root list creates a peer only after a lookup miss under its write lock. addConnectionToPeer always creates the peer if needed; listing under the dialled address does not depend on a peer already existing. (R5) the peer's connection lists and sub-channel reference count are accessed only under the peer's own lock (shared with C04-R1). Both the announced and the dialled peer are told about a close (shared with C11-R3)."
	r.NotDecided = "equality of the lists with the set of live connections at quiescence under all schedules."
	r.Rule("C16-R1", "E6 who-may-write", 6, "single writers of the connection lists and the connection table")
	r.Rule("C16-R2", "E6 ordering", 3, "status callbacks fire for gains and losses")
	r.Rule("C16-R3", "E6 sameOperand", 2, "host:port mismatch handled symmetrically")
	r.Rule("C16-R4", "E6 guards", 2, "root list drops removable peers")

	locks := p.ComputeLocks()
	// the counters canRemove() reads (connection lists, sub-channel reference
	// count) are shared by sibling peer lists with separate locks: they are
	// only touched under the peer's own lock (shared with C04-R1)
	r.Alias("C11-R3", "C16-R2")
	c11Dropped(p, r)
	r.Alias("C11-R3", "")
	r.Rule("C16-R5", "E4 locksets", 6, "the peer's connection lists and reference count are accessed under the peer's lock")
	guardedAccesses(p, r, locks, "C16-R5", func(typ, field string, fld *types.Var) bool {
		return typ == "Peer"
	})
	for _, fname2 := range []string{"inboundConnections", "outboundConnections"} {
		fld := mustField(p, r, "", "Peer", fname2)
		if fld == nil {
			continue
		}
		for _, a := range locks.AccessesOf(fld) {
			if !a.Write || a.Fresh {
				continue
			}
			fn := a.Fn.Name()
			ok := fn == "addConnection" || fn == "removeConnection"
			r.Check(ok, "C16-R1", fname(a.Fn), "write to Peer."+fname2, p.Pos(a.Instr.Pos()), "only addConnection appends and removeConnection shrinks", "a peer's connection list is modified by another function")
		}
	}
	if f := mustFunc(p, r, "", "Peer", "addConnection"); f != nil {
		peerListOnlyActive(p, r, f, "C16-R1")
		cb := false
		core.EachInstr(f, func(i ssa.Instruction) {
			if c, isC := i.(*ssa.Call); isC {
				if fl := core.LoadedField(c.Call.Value); fl != nil && fl.Name() == "onStatusChanged" {
					cb = true
				}
			}
		})
		r.Check(cb, "C16-R2", fname(f), "onStatusChanged after a connection is gained", p.Pos(f.Pos()), "callback invoked", "gaining a connection is not reported")
	}
	connsF := p.Field("", "Channel", "mutable", "conns")
	for _, a := range locks.AccessesOf(connsF) {
		if !a.Write || a.Fresh {
			continue
		}
		// judged by what the write is, not by the name of the function it lives
		// in: an insert is only legal behind the admission guards (checked by
		// "tracked only if ..."), a removal only for a connection that reached
		// the closed state
		fn := a.Fn.Name()
		ok := fn == "addConnection" || fn == "removeClosedConn"
		if !ok {
			if c, isDel := core.IsBuiltin(a.Instr, "delete"); isDel {
				dconn := p.NewDomain("", "connectionState")
				closed := dconn.Min(dconn.OfName("connectionClosed"))
				if factsAt(c.Block()).hasCmp(func(v ssa.Value) bool { return callResult(v, "Connection.readState") != nil }, []token.Token{token.EQL, token.GEQ}, closed) {
					ok = true
				}
			}
		}
		r.Check(ok, "C16-R1", fname(a.Fn), "write to Channel.conns", p.Pos(a.Instr.Pos()), "insert in addConnection (guards checked separately) / removal of a closed connection", "the channel's connection table is modified elsewhere")
	}
	channelTracksOnlyOpen(p, r, "C16-R1")
	refusedConnIsClosed(p, r, "C16-R1")
	if f := mustFunc(p, r, "", "Channel", "addConnectionToPeer"); f != nil {
		ok := onEveryPath(f, "PeerList.GetOrAdd", "RootPeerList.GetOrAdd", "RootPeerList.Add", "PeerList.Add") && onEveryPath(f, "Peer.addConnection")
		r.Check(ok, "C16-R1", fname(f), "the peer is created if needed and given the connection", p.Pos(f.Pos()), "GetOrAdd then addConnection on every path", "a connection can stay unlisted because its peer does not exist yet")
	}
	if f := mustFunc(p, r, "", "Channel", "Connect"); f != nil {
		// the registration under the dialled address depends only on the two
		// addresses differing, not on a peer already existing for it
		how := ""
		for _, c := range core.CallsIn(f, "Channel.addConnectionToPeer") {
			if factsAt(c.Block()).hasBool(func(v ssa.Value) bool {
				ex, ok := v.(*ssa.Extract)
				return ok && ex.Index == 1 && callResult(ex.Tuple, "RootPeerList.Get", "PeerList.Get") != nil
			}, true) {
				how = "the connection is listed under the dialled address only if a peer for it already exists"
			}
		}
		r.Check(how == "", "C16-R3", fname(f), "listing under the dialled address does not depend on an existing peer", p.Pos(f.Pos()), "no peer-lookup guard on addConnectionToPeer", how)
	}
	// one Peer object per host:port: the root list creates a peer only after a
	// lookup miss made under its write lock (a second object for the same
	// address would carry connections the root peer does not list)
	if f := mustFunc(p, r, "", "RootPeerList", "Add"); f != nil {
		rm := p.Field("", "RootPeerList", "peersByHostPort")
		miss, locked := insertAfterLockedMiss(p, f, rm, "RootPeerList", "RWMutex")
		r.Check(miss && locked, "C16-R1", fname(f), "root list: peer created only after a lookup miss under the write lock", p.Pos(f.Pos()),
			"the insert is dominated by a failed lookup of the same key made with the write lock held",
			fmt.Sprintf("two peers can be created for one host:port (miss dominating=%v, under the write lock=%v)", miss, locked))
	}
	if f := mustFunc(p, r, "", "Peer", "connectionCloseStateChange"); f != nil {
		var c1, c2 ssa.Instruction
		core.EachInstr(f, func(i ssa.Instruction) {
			if c, isC := i.(*ssa.Call); isC {
				if fl := core.LoadedField(c.Call.Value); fl != nil {
					switch fl.Name() {
					case "onClosedConnRemoved":
						c1 = i
					case "onStatusChanged":
						c2 = i
					}
				}
			}
		})
		ok := c1 != nil && c2 != nil && before(c1, c2)
		if ok {
			// under found == true
			ok = len(factsAt(c1.Block()).bools) > 0
		}
		r.Check(ok, "C16-R2", fname(f), "found removal -> onClosedConnRemoved then onStatusChanged", p.Pos(f.Pos()), "both callbacks, in order, under found", "losing a connection is not (fully) reported")
		// only non-active connections are removed
		d := p.NewDomain("", "connectionState")
		okA := false
		for _, c := range core.CallsIn(f, "Peer.removeConnection") {
			fs := factsAt(c.Block())
			if fs.hasCmp(func(v ssa.Value) bool { return callResult(v, "Connection.readState") != nil }, []token.Token{token.NEQ, token.GTR}, d.Min(d.OfName("connectionActive"))) ||
				fs.hasBool(func(v ssa.Value) bool { return callResult(v, "Connection.IsActive") != nil }, false) {
				okA = true
			}
		}
		r.Check(okA, "C16-R2", fname(f), "only connections that left the active state are removed", p.Pos(f.Pos()), "guarded by state != active", "active connections can be dropped from their peer")
	}
	// R3 symmetry
	conn := mustFunc(p, r, "", "Channel", "Connect")
	ccs := mustFunc(p, r, "", "Channel", "connectionCloseStateChange")
	if conn != nil && ccs != nil {
		pair := func(f *ssa.Function, key string) string {
			out := ""
			for _, c := range core.CallsIn(f, key) {
				for _, cm := range factsAt(c.Block()).cmps {
					if cm.Op != token.NEQ {
						continue
					}
					a, b := operandName(cm.X), operandName(cm.Y)
					if a == "" || b == "" {
						continue
					}
					if a > b {
						a, b = b, a
					}
					if strings.Contains(a+b, "HostPort") || strings.Contains(a+b, "hostPort") || strings.Contains(a+b, "outboundHP") {
						out = a + " != " + b
					}
				}
			}
			return out
		}
		add := pair(conn, "Channel.addConnectionToPeer")
		// in the close callback the second peer lookup is guarded by outboundHP != remote HostPort
		rem := ""
		for _, ls := range peerLookupsDeep(p, ccs) {
			for _, cm := range ls.guards().cmps {
				if cm.Op != token.NEQ {
					continue
				}
				a, b := operandName(cm.X), operandName(cm.Y)
				if a == "" || b == "" || a == `""` || b == `""` {
					continue
				}
				if a > b {
					a, b = b, a
				}
				rem = a + " != " + b
			}
		}
		// dialled host:port is hostPort in Connect and outboundHP in the callback; the announced one is remotePeerInfo.HostPort in both
		okSym := strings.Contains(add, "remotePeerInfo.HostPort") && strings.Contains(rem, "remotePeerInfo.HostPort") &&
			strings.Contains(add, "hostPort") && strings.Contains(rem, "outboundHP")
		r.Check(okSym, "C16-R3", fname(conn), "add-to-dialled-peer and remove-from-dialled-peer compare dialled vs announced host:port", p.Pos(conn.Pos()), "add under ["+add+"], remove under ["+rem+"]", "mismatch handling is asymmetric: add under ["+add+"], remove under ["+rem+"]")
		// outboundHP is the dialled hostPort: newConnection receives hostPort from Connect via outboundHandshake
		okHP := false
		for _, c := range core.CallsIn(conn, "Channel.outboundHandshake") {
			if core.CallArgs(c)[3] == ssa.Value(conn.Params[2]) {
				okHP = true
			}
		}
		r.Check(okHP, "C16-R3", fname(conn), "the connection remembers the dialled host:port", p.Pos(conn.Pos()), "hostPort passed to the handshake as outboundHP", "the dialled host:port is not recorded on the connection")
	}
	// R4
	if f := mustFunc(p, r, "", "RootPeerList", "onClosedConnRemoved"); f != nil {
		ok := false
		core.EachInstr(f, func(i ssa.Instruction) {
			if c, isC := core.IsBuiltin(i, "delete"); isC {
				if factsAt(c.Block()).hasBool(func(v ssa.Value) bool { return callResult(v, "Peer.canRemove") != nil }, true) {
					ok = true
				}
			}
		})
		r.Check(ok, "C16-R4", fname(f), "delete from the root list iff canRemove()", p.Pos(f.Pos()), "guarded", "peers are dropped from the root list unconditionally (or never)")
	}
	// the sub-channel reference count moves with list membership: in Add every
	// path from addSC() to a return inserts the peer into the list's map, in
	// Remove delSC() and the map delete lie on the same paths; no other callers.
	if f := mustFunc(p, r, "", "PeerList", "Add"); f != nil {
		lmap := p.Field("", "PeerList", "peersByHostPort")
		isIns := func(i ssa.Instruction) bool {
			mu, ok := i.(*ssa.MapUpdate)
			return ok && core.LoadedField(mu.Map) == lmap
		}
		isRet := func(i ssa.Instruction) bool { _, ok := i.(*ssa.Return); return ok }
		adds := core.CallsIn(f, "Peer.addSC")
		ok, how := len(adds) == 1, fmt.Sprintf("%d addSC() calls in Add", len(adds))
		if ok {
			leak := core.ReachAvoiding(f, adds[0], isRet, isIns, nil)
			extra := core.ReachAvoiding(f, nil, isIns, func(i ssa.Instruction) bool { return i == adds[0].(ssa.Instruction) }, nil)
			if leak.Found {
				ok, how = false, "a path takes the sub-channel reference and returns without listing the peer (the count never returns to zero, the peer is never removable): "+p.TrailString(leak)
			} else if extra.Found {
				ok, how = false, "a peer can be listed without taking the sub-channel reference: "+p.TrailString(extra)
			}
		}
		r.Check(ok, "C16-R4", fname(f), "addSC() exactly on the paths that list the peer", p.Pos(f.Pos()), "no return after addSC avoids the map insert; no insert avoids addSC", how)
	}
	if f := mustFunc(p, r, "", "PeerList", "Remove"); f != nil {
		lmap := p.Field("", "PeerList", "peersByHostPort")
		isDel := func(i ssa.Instruction) bool {
			c, ok := core.IsBuiltin(i, "delete")
			return ok && core.LoadedField(c.Call.Args[0]) == lmap
		}
		isRet := func(i ssa.Instruction) bool { _, ok := i.(*ssa.Return); return ok }
		dels := core.CallsIn(f, "Peer.delSC")
		ok, how := len(dels) == 1, fmt.Sprintf("%d delSC() calls in Remove", len(dels))
		if ok {
			a := core.ReachAvoiding(f, dels[0], isRet, isDel, nil)
			b := core.ReachAvoiding(f, nil, isDel, func(i ssa.Instruction) bool { return i == dels[0].(ssa.Instruction) }, nil)
			if a.Found || b.Found {
				ok, how = false, "the sub-channel reference is dropped without unlisting the peer, or the peer is unlisted without dropping it"
			}
		}
		r.Check(ok, "C16-R4", fname(f), "delSC() exactly on the paths that unlist the peer", p.Pos(f.Pos()), "paired with delete(peersByHostPort, …)", how)
	}
	for _, key := range []string{"Peer.addSC", "Peer.delSC"} {
		for _, cs := range p.CallsTo(key) {
			want := map[string]string{"Peer.addSC": "(*PeerList).Add", "Peer.delSC": "(*PeerList).Remove"}[key]
			r.Check(fname(cs.Fn) == want, "C16-R4", fname(cs.Fn), key+" only from "+want, p.Pos(cs.Call.Pos()), "single caller", "the sub-channel reference count is changed outside list membership changes")
		}
	}
	if f := mustFunc(p, r, "", "Peer", "canRemove"); f != nil {
		names := map[string]bool{}
		core.EachInstr(f, func(i ssa.Instruction) {
			if ld, ok := i.(*ssa.UnOp); ok {
				if fl := core.LoadedField(ld); fl != nil {
					names[fl.Name()] = true
				}
			}
		})
		ok := names["inboundConnections"] && names["outboundConnections"] && names["scCount"]
		r.Check(ok, "C16-R4", fname(f), "removable = no inbound, no outbound, no sub-channel reference", p.Pos(f.Pos()), "all three counted", "canRemove ignores one of inbound / outbound / sub-channel references")
	}
}

// operandName renders a comparison operand as a dotted field path / parameter name.
func operandName(v ssa.Value) string {
	v = core.Strip(v)
	switch x := v.(type) {
	case *ssa.Parameter:
		return x.Name()
	case *ssa.Const:
		if x.Value != nil {
			return x.Value.ExactString()
		}
	case *ssa.UnOp:
		if fa, ok := x.X.(*ssa.FieldAddr); ok {
			s := core.FieldOfAddr(fa).Name()
			if inner, ok := fa.X.(*ssa.FieldAddr); ok {
				s = core.FieldOfAddr(inner).Name() + "." + s
			}
			return s
		}
	case *ssa.Field:
		return core.FieldOfField(x).Name()
	}
	return ""
}

// peerListOnlyActive: the append to a peer's connection list is guarded by
// readState() == connectionActive (shared by C16 and C11: a connection listed
// after it closed is never removed, because removal is driven by the
// close-state callback that has already fired).
func peerListOnlyActive(p *core.Prog, r *core.Report, f *ssa.Function, rule string) {
	d := p.NewDomain("", "connectionState")
	active := d.Min(d.OfName("connectionActive"))
	ok := false
	core.EachInstr(f, func(i ssa.Instruction) {
		st, isSt := i.(*ssa.Store)
		if !isSt {
			return
		}
		if c, isC := st.Val.(*ssa.Call); isC {
			if b, isB := c.Call.Value.(*ssa.Builtin); isB && b.Name() == "append" {
				if factsAt(st.Block()).hasCmp(func(v ssa.Value) bool { return callResult(v, "Connection.readState") != nil }, []token.Token{token.EQL}, active) {
					ok = true
				}
			}
		}
	})
	r.Check(ok, rule, fname(f), "append only for an active connection", p.Pos(f.Pos()), "guarded by readState() == connectionActive", "non-active connections can be listed under a peer")
}

// insertAfterLockedMiss: the (single) update of map field mapF in f is
// dominated by a failed comma-ok lookup of the same key, and that lookup is
// made while the struct's mutex is held in write mode.
func insertAfterLockedMiss(p *core.Prog, f *ssa.Function, mapF *types.Var, recv, mutex string) (miss, locked bool) {
	mu := p.Field("", recv, mutex)
	locks := p.ComputeLocks()
	core.EachInstr(f, func(i ssa.Instruction) {
		upd, ok := i.(*ssa.MapUpdate)
		if !ok || core.LoadedField(upd.Map) != mapF {
			return
		}
		fs := factsAt(upd.Block())
		fs.hasBool(func(v ssa.Value) bool {
			ex, ok := v.(*ssa.Extract)
			if !ok || ex.Index != 1 {
				return false
			}
			lk, ok := ex.Tuple.(*ssa.Lookup)
			if !ok || !lk.CommaOk || core.LoadedField(lk.X) != mapF || !sameKey(lk.Index, upd.Key) {
				return false
			}
			miss = true
			if mu != nil && locks.At(lk)[mu] == core.WHeld && locks.At(upd)[mu] == core.WHeld {
				locked = true
			}
			return false // keep looking: an earlier optimistic lookup may match first
		}, false)
	})
	return
}

// c15Order: the heap is ordered by score, then by order stamp, both
// ascending, and a score change reaches the heap: the list's updatePeer stores
// the new score before calling Fix, onPeerChange recomputes the score with the
// list's calculator and applies it under the write lock, and the channel-level
// updatePeer reaches the root list and every isolated sub-channel list.
func c15Order(p *core.Prog, r *core.Report) {
	if f := mustFunc(p, r, "", "peerHeap", "Less"); f != nil {
		// operand: load of field fld of *(&ph.peerScores[idx]) with idx == param k
		side := func(v ssa.Value) (string, int) {
			ld, ok := v.(*ssa.UnOp)
			if !ok {
				return "", -1
			}
			fa, ok := ld.X.(*ssa.FieldAddr)
			if !ok {
				return "", -1
			}
			el, ok := fa.X.(*ssa.UnOp)
			if !ok {
				return "", -1
			}
			ia, ok := el.X.(*ssa.IndexAddr)
			if !ok {
				return "", -1
			}
			for k, prm := range f.Params {
				if ia.Index == ssa.Value(prm) {
					return core.FieldOfAddr(fa).Name(), k
				}
			}
			return "", -1
		}
		var eq *ssa.BinOp
		lt := map[string]*ssa.BinOp{}
		bad := ""
		core.EachInstr(f, func(i ssa.Instruction) {
			bo, ok := i.(*ssa.BinOp)
			if !ok {
				return
			}
			fx, kx := side(bo.X)
			fy, ky := side(bo.Y)
			if fx == "" || fx != fy {
				return
			}
			switch bo.Op {
			case token.EQL:
				if fx == "score" {
					eq = bo
				}
			case token.LSS:
				if kx == 1 && ky == 2 {
					lt[fx] = bo
				} else {
					bad = "comparison of " + fx + " has its operands reversed (max-heap)"
				}
			default:
				bad = "unexpected comparison " + bo.Op.String() + " on " + fx
			}
		})
		ok := eq != nil && lt["score"] != nil && lt["order"] != nil && bad == ""
		if ok {
			// order is compared only under equal scores; scores otherwise
			fo := factsAt(lt["order"].Block())
			fsx := factsAt(lt["score"].Block())
			ok = fo.hasBool(func(v ssa.Value) bool { return v == ssa.Value(eq) }, true) && fsx.hasBool(func(v ssa.Value) bool { return v == ssa.Value(eq) }, false)
			if !ok {
				bad = "the tie-break on order is not taken exactly when the scores are equal"
			}
		} else if bad == "" {
			bad = "Less does not compare score and order of elements i and j"
		}
		r.Check(ok, "C15-R5", fname(f), "Less(i,j) = score[i] < score[j], ties by order[i] < order[j]", p.Pos(f.Pos()), "lexicographic ascending (score, order)", bad)
	}
	scoreF := p.Field("", "peerScore", "score")
	if f := mustFunc(p, r, "", "PeerList", "updatePeer"); f != nil {
		var st *ssa.Store
		core.EachInstr(f, func(i ssa.Instruction) {
			if s2, ok := i.(*ssa.Store); ok && core.AddrField(s2.Addr) == scoreF && s2.Val == ssa.Value(f.Params[2]) {
				st = s2
			}
		})
		fix := core.CallsIn(f, "peerHeap.updatePeer")
		ok := st != nil && len(fix) == 1 && before(st, fix[0]) && core.CallArgs(fix[0])[1] == ssa.Value(f.Params[1])
		how := "the new score is not stored before the heap is fixed for that element"
		if ok {
			// no return after the store avoids the fix
			res := core.ReachAvoiding(f, st, core.IsReturn, func(i ssa.Instruction) bool { return i == fix[0].(ssa.Instruction) }, nil)
			if res.Found {
				ok, how = false, "the score can be stored without re-heapifying"
			}
		}
		r.Check(ok, "C15-R5", fname(f), "ps.score = newScore, then heap.Fix for ps", p.Pos(f.Pos()), "store precedes peerHeap.updatePeer(ps) on every path", how)
	}
	if f := mustFunc(p, r, "", "peerHeap", "updatePeer"); f != nil {
		ok := false
		idxF := p.Field("", "peerScore", "index")
		for _, c := range core.CallsIn(f, "container/heap.Fix") {
			if core.LoadedField(core.CallArgs(c)[1]) == idxF {
				ok = true
			}
		}
		r.Check(ok && onEveryPath(f, "container/heap.Fix"), "C15-R5", fname(f), "heap.Fix(ph, ps.index)", p.Pos(f.Pos()), "element's own index", "a changed score does not move the element")
	}
	if f := mustFunc(p, r, "", "PeerList", "onPeerChange"); f != nil {
		ok, how := false, "onPeerChange does not apply GetScore(peer) through updatePeer under the write lock"
		mu := p.Field("", "PeerList", "RWMutex")
		locks := p.ComputeLocks()
		for _, c := range core.CallsIn(f, "PeerList.updatePeer") {
			a := core.CallArgs(c)
			if cr, isC := a[2].(*ssa.Call); isC && cr.Call.IsInvoke() && cr.Call.Method.Name() == "GetScore" {
				if mu != nil && locks.At(c.(ssa.Instruction))[mu] == core.WHeld {
					ok = true
				} else {
					how = "updatePeer is called without the list's write lock"
				}
			}
		}
		r.Check(ok, "C15-R5", fname(f), "new score = calculator.GetScore(peer), applied under the write lock", p.Pos(f.Pos()), "updatePeer(ps, GetScore(ps.Peer)) with the lock held", how)
	}
	// wherever a score is changed the heap is repaired: every store into
	// peerScore.score outside construction is followed on every path by
	// peerHeap.updatePeer (heap.Fix) in the same function
	if sf := mustField(p, r, "", "peerScore", "score"); sf != nil {
		ns := 0
		for _, st := range p.StoresTo(sf) {
			if st.Kind == "init" {
				continue
			}
			ns++
			res := core.ReachAvoiding(st.Fn, st.Instr, core.IsReturn, func(i ssa.Instruction) bool {
				_, is := core.IsCall(i, "peerHeap.updatePeer")
				return is
			}, nil)
			r.Check(!res.Found, "C15-R5", fname(st.Fn), fmt.Sprintf("score store #%d is followed by heap.Fix", ns), p.Pos(st.Instr.Pos()),
				"peerHeap.updatePeer follows on every path", "a peer's score is changed without repairing the heap: selection keeps the old ranking and returns non-minimum peers: "+p.TrailString(res))
		}
		if ns == 0 {
			r.Errorf("no store into peerScore.score found outside construction")
		}
	}
	if f := mustFunc(p, r, "", "Channel", "updatePeer"); f != nil {
		ok := onEveryPath(f, "PeerList.onPeerChange") && onEveryPath(f, "subChannelMap.updatePeer")
		r.Check(ok, "C15-R5", fname(f), "root list and isolated sub-channel lists are told", p.Pos(f.Pos()), "peers.onPeerChange(p) and subChannels.updatePeer(p) on every path", "a status change does not reach the root list or the sub-channel lists: stale scores")
	}
	// a peer that is told about a closing connection (it may lose it) is
	// re-scored right afterwards, on every path: otherwise it keeps the score
	// of a connected peer and ranks before unconnected ones
	nTold := 0
	for _, cs := range p.CallsTo("Peer.connectionCloseStateChange") {
		if !p.InAnalysed(cs.Fn) || pkgOf(cs.Fn) != core.Root {
			continue
		}
		if _, isCall := cs.Call.(*ssa.Call); !isCall {
			continue
		}
		nTold++
		peer := core.CallArgs(cs.Call)[0]
		isUpd := func(i ssa.Instruction) bool {
			c, ok := core.IsCall(i, "Channel.updatePeer")
			if !ok {
				return false
			}
			args := core.CallArgs(c)
			return len(args) == 2 && args[1] == peer
		}
		res := core.ReachAvoiding(cs.Fn, cs.Call, core.IsReturn, isUpd, nil)
		r.Check(!res.Found, "C15-R5", fname(cs.Fn), fmt.Sprintf("peer told about a close (#%d) is re-scored", nTold), p.Pos(cs.Call.Pos()),
			"updatePeer(peer) follows on every path", "a peer that may have lost a connection is not re-scored on some path: it keeps a connected peer's score and is preferred over other unconnected peers: "+p.TrailString(res))
	}
	if nTold < 1 {
		r.Errorf("expected a site telling a peer about a closing connection, found none")
	}
	if f := mustFunc(p, r, "", "subChannelMap", "updatePeer"); f != nil {
		ok := len(core.CallsIn(f, "PeerList.onPeerChange")) == 1
		r.Check(ok, "C15-R5", fname(f), "isolated sub-channel lists re-score the peer", p.Pos(f.Pos()), "Peers().onPeerChange(p) in the loop", "isolated sub-channel lists keep stale scores")
	}
}

// channelTracksOnlyOpen: Channel.addConnection inserts a connection into the
// channel's table only if the connection is active and the channel is in the
// client or listening state (shared by C16 and C07: a connection admitted while
// the channel is closing is never closed by it and keeps it from terminating).
func channelTracksOnlyOpen(p *core.Prog, r *core.Report, rule string) {
	if f := mustFunc(p, r, "", "Channel", "addConnection"); f != nil {
		d := p.NewDomain("", "connectionState")
		dc := p.NewDomain("", "ChannelState")
		ok1, ok2 := false, false
		core.EachInstr(f, func(i ssa.Instruction) {
			mu, isMU := i.(*ssa.MapUpdate)
			if !isMU {
				return
			}
			fs := factsAt(mu.Block())
			ok1 = fs.hasCmp(func(v ssa.Value) bool { return callResult(v, "Connection.readState") != nil }, []token.Token{token.EQL}, d.Min(d.OfName("connectionActive")))
			// channel state client or listening: via enum flow
			ip := core.NewEnumInterp(p, dc)
			fl := ip.Flow(f, core.Ctx{})
			core.EachInstr(f, func(j ssa.Instruction) {
				if ld, isLd := j.(*ssa.UnOp); isLd && core.LoadedField(ld) != nil && core.LoadedField(ld).Name() == "state" && ld.Type().String() == dc.T.String() {
					s, reach := fl.ValueAt(ld, mu)
					if reach && s&^dc.OfName("ChannelClient", "ChannelListening") == 0 {
						ok2 = true
					}
				}
			})
		})
		r.Check(ok1 && ok2, rule, fname(f), "tracked only if the connection is active and the channel is not closing", p.Pos(f.Pos()), "both guards dominate the insert", fmt.Sprintf("connection can be tracked in another state (connActive=%v channelOpen=%v)", ok1, ok2))
	}
}

// refusedConnIsClosed: a connection that became active but is refused by
// Channel.addConnection (channel closing, connection no longer active) is
// closed on every path; otherwise it lives on, tracked by nobody (shared by
// C16 and C11).
func refusedConnIsClosed(p *core.Prog, r *core.Report, rule string) {
	f := mustFunc(p, r, "", "Channel", "connectionActive")
	if f == nil {
		return
	}
	adds := core.CallsIn(f, "Channel.addConnection")
	ok, how := len(adds) == 1, "addConnection call not found"
	if ok {
		av := adds[0].Value()
		ok = false
		for _, b := range f.Blocks {
			if !factsAt(b).hasBool(func(v ssa.Value) bool { return v == ssa.Value(av) }, false) || len(b.Preds) != 1 {
				continue
			}
			isClose := func(i ssa.Instruction) bool {
				_, is := core.IsCall(i, "Connection.close", "Connection.Close")
				return is
			}
			res := core.ReachAvoiding(f, b.Instrs[0], core.IsReturn, isClose, nil)
			ok = !res.Found || isClose(b.Instrs[0])
			how = "a refused connection is left open and untracked: " + p.TrailString(res)
			break
		}
	}
	r.Check(ok, rule, fname(f), "a connection refused by addConnection is closed", p.Pos(f.Pos()), "the !added arm passes c.close on every path", how)
}
