package rules

import (
	"fmt"
	"go/token"
	"go/types"

	"golang.org/x/tools/go/ssa"

	"verif/sa/core"
)

func init() { Registry["C07"] = c07 }

// stateSpec describes one state machine field.
type stateSpec struct {
	pkg, enum     string
	owner         []string // type, field path to the state field
	mutex         []string // type, field path to the guarding mutex
	initial       []string // allowed initial values (constructor stores)
	closedName    string
	inboundClosed string
	startClose    string
}

var stateSpecs = []stateSpec{
	{"", "connectionState", []string{"Connection", "state"}, []string{"Connection", "stateMut"},
		[]string{"connectionActive"}, "connectionClosed", "connectionInboundClosed", "connectionStartClose"},
	{"", "ChannelState", []string{"Channel", "mutable", "state"}, []string{"Channel", "mutable", "RWMutex"},
		[]string{"ChannelClient"}, "ChannelClosed", "ChannelInboundClosed", "ChannelStartClose"},
}

// edgePrune returns a CFG-edge veto from an enum flow (true = infeasible).
func edgePrune(fl *core.EnumFlow) func(from, to *ssa.BasicBlock) bool {
	return func(from, to *ssa.BasicBlock) bool {
		for k, s := range from.Succs {
			if s == to && fl.EdgeFeasible(from, k) {
				return false
			}
		}
		return true
	}
}

// hypFlow runs an enum flow of f in which the listed values are assumed to lie in the given sets.
func hypFlow(p *core.Prog, d *core.Domain, f *ssa.Function, hyp map[ssa.Value]core.Set) *core.EnumFlow {
	fl := &core.EnumFlow{P: p, F: f, D: d}
	fl.Res = func(v ssa.Value) (core.Set, bool) {
		s, ok := hyp[v]
		return s, ok
	}
	fl.Run()
	return fl
}

func c07(p *core.Prog, r *core.Report) {
	r.Explain = "Decides structural necessary conditions of graceful close: (R1) every store to a connection/channel state field moves forward in the declared order for every possible prior value (finite-enum abstract interpretation, call-site sensitive for the moveState closure); (R2) each transition is performed under the state write lock and is guarded by its drain predicate; (R3) the closed signal (close of Channel.closed / Connection.stopCh) is reachable only from an invocation that itself performed the ->Closed store; (R4) every path in inbound admission on which a non-active state was observed ends in a declined 'closed' error frame; (R5) outbound admission and Connect fail locally in closing states; (R6) the listener wrapper's Close returns nil only after its accept refcount reached zero. The declined frame of a refused call is sent before any call that can re-evaluate the close state; (R7) the relay's pending count is balanced (shared with C09-R3). Channel.addConnection tracks a connection only while the channel is in the client/listening state (shared with C16). The state is read again after an outbound exchange is registered; an error answer is handed to the connection before the call's exchange is completed (this found and, after the repair, guards D18). Connection.SendSystemError queues the frame in every state but closed. The close-state callback reads the channel state after it removed the closed connection; (R8) the writer drains its queue before closing the socket (shared with C10-R2); a refusal sent through a helper is followed."
	r.NotDecided = "that in-flight calls actually complete and their results are delivered; behaviour under every interleaving (the rules are per-path, not per-schedule); timing."
	r.Rule("C07-R1", "E1 enumset", 6, "state stores only move forward (max(prior) <= min(new))")
	r.Rule("C07-R2", "E1+E4+E6", 6, "transition under write lock and guarded by its drain predicate")
	r.Rule("C07-R3", "E6 guards", 3, "closed signalled only by the invocation that performed the ->Closed store")
	r.Rule("C07-R4", "E1+E6 paths", 3, "inbound admission: non-active state observed => declined error frame on every path")
	r.Rule("C07-R5", "E1+E6 paths", 3, "outbound admission / Connect fail locally in closing states")
	r.Rule("C07-R6", "E6 guards", 3, "tnet listener Close waits for refs==0; Accept brackets inc/dec")

	// fields the drain predicates are recognised by (matched by name below)
	for _, a := range [][]string{{"Connection", "stoppedExchanges"}, {"Connection", "inbound"}, {"Connection", "outbound"}, {"Channel", "mutable", "conns"}} {
		p.Field("", a[0], a[1:]...)
	}
	locks := p.ComputeLocks()
	for _, sp := range stateSpecs {
		c07StateMachine(p, r, locks, sp)
	}
	c07Signals(p, r)
	c07Admission(p, r)
	c07Listener(p, r)
	// the relay's pending count is an input of the drain predicate
	// (canClose): a count that is not decremented exactly once per finished
	// relayed call keeps the connection in a closing state forever.
	r.Rule("C07-R7", "E6 who-may-call/paths", 6, "relay pending count (drain predicate input) is balanced")
	// results of calls accepted before Close are delivered: the writer drains
	// its queue before it closes the socket (shared with C10-R2)
	r.Rule("C07-R8", "E6 paths", 1, "the writer drains queued frames before closing the socket (shared with C10)")
	r.Alias("C10-R2", "C07-R8")
	c10WriterDrains(p, r)
	r.Alias("C10-R2", "")
	channelTracksOnlyOpen(p, r, "C07-R5")
	// in-flight calls complete while closing: an error answer is queued before the call's exchange is completed
	errorFrameBeforeCompletion(p, r, "C07-R4")
	r.Alias("C09-R3", "C07-R7")
	c09Pending(p, r)
	r.Alias("C09-R3", "")
}

func c07StateMachine(p *core.Prog, r *core.Report, locks *core.Locks, sp stateSpec) {
	d := p.NewDomain(sp.pkg, sp.enum)
	if d == nil {
		r.Errorf("enum %s does not resolve", sp.enum)
		return
	}
	fld := mustField(p, r, sp.pkg, sp.owner[0], sp.owner[1:]...)
	mu := mustField(p, r, sp.pkg, sp.mutex[0], sp.mutex[1:]...)
	if fld == nil || mu == nil {
		return
	}
	ip := core.NewEnumInterp(p, d)
	// While the state mutex is held (any mode) no store to the state field can
	// happen: stores need the write lock (checked by R2), which another
	// goroutine cannot get and this goroutine cannot re-acquire.
	ip.ModsFilter = func(call ssa.CallInstruction, fieldName string) (bool, bool) {
		if fieldName == fld.Name() && locks.Holds(call, mu, core.RHeld) {
			return true, false
		}
		return false, false
	}
	declared := d.Declared()
	closed := d.OfName(sp.closedName)
	inClosed := d.OfName(sp.inboundClosed)
	startClose := d.OfName(sp.startClose)

	for _, st := range p.StoresTo(fld) {
		store := st.Instr.(*ssa.Store)
		fn := fname(st.Fn)
		if st.Kind == "init" {
			nv, _ := core.ConstInt(store.Val)
			ok := false
			for _, in := range sp.initial {
				if d.OfName(in) == d.Of(nv) {
					ok = true
				}
			}
			_, isConst := store.Val.(*ssa.Const)
			r.Check(ok && isConst, "C07-R1", fn, "init "+sp.enum+" = "+desc(store.Val), p.Pos(store.Pos()),
				"constructor store of the initial state on a fresh object", "constructor stores a non-initial state")
			continue
		}
		for _, ctx := range ip.Contexts(st.Fn) {
			cdesc := ""
			var ctxFacts facts
			for g, site := range ctx {
				var as []string
				for _, a := range site.Common().Args {
					as = append(as, desc(a))
				}
				cdesc = fmt.Sprintf(" via %s(%s)", g.Name(), join(as))
				ctxFacts = ctxFacts.add(factsAt(site.Block()))
			}
			fl := ip.Flow(st.Fn, ctx)
			prior, reach := fl.CellAt(store.Addr, store)
			if !reach {
				continue
			}
			prior &= declared
			nv, _ := fl.ValueAt(store.Val, store)
			construct := fmt.Sprintf("%s = %s%s", fld.Name(), desc(store.Val), cdesc)
			pos := p.Pos(store.Pos())
			if nv == d.Top() {
				// nothing at all is known about the stored value (it came
				// through a helper's parameters in a way the analysis does
				// not follow): that is "cannot decide", not a wrong state
				r.Undecided("C07-R1", fn, construct, pos, "the value stored could not be resolved (no information): cannot decide the transition")
				continue
			}
			if nv&^declared != 0 {
				r.Fail("C07-R1", fn, construct, pos, "stored value may be outside the declared states: "+d.String(nv))
				continue
			}
			if prior == 0 {
				continue
			}
			r.Check(d.Max(prior) <= d.Min(nv), "C07-R1", fn, construct, pos,
				fmt.Sprintf("prior %s -> new %s", d.String(prior), d.String(nv)),
				fmt.Sprintf("state can move backwards: prior may be %s, new may be %s", d.String(prior), d.String(nv)))

			// R2: write lock + drain predicate
			lockOK := locks.Holds(store, mu, core.WHeld)
			here := factsAt(store.Block()).add(ctxFacts)
			// facts at the phi origins of the stored value (assignments of the target state)
			var why string
			drainOK := true
			switch {
			case nv == inClosed:
				drainOK, why = drainToInboundClosed(sp, here, store, d)
			case nv == closed:
				drainOK, why = drainToClosed(sp, here, prior, inClosed, store, d)
			case nv == startClose:
				why = "start-close needs no drain predicate"
			case nv&(closed|inClosed) != 0:
				// mixed value (phi): check each origin
				drainOK, why = drainOrigins(p, sp, store, d, closed, inClosed, here, ctx)
			default:
				why = "no drain predicate required for " + d.String(nv)
			}
			r.Check(lockOK && drainOK, "C07-R2", fn, construct, pos,
				"write lock held; "+why, fmt.Sprintf("lockHeld=%v; %s", lockOK, why))
		}
	}
}

func join(a []string) string {
	s := ""
	for i, x := range a {
		if i > 0 {
			s += ", "
		}
		s += x
	}
	return s
}

func isCountOf(field string) func(ssa.Value) bool {
	return func(v ssa.Value) bool {
		c := callResult(v, "messageExchangeSet.count")
		return c != nil && recvFieldName(c) == field
	}
}

func isCanClose(v ssa.Value) bool { return callResult(v, "Relayer.canClose") != nil }

func isStopped(v ssa.Value) bool {
	c := callResult(v, "go.uber.org/atomic.Bool.Load")
	return c != nil && recvFieldName(c) == "stoppedExchanges"
}

func isMinConnState(v ssa.Value) bool { return callResult(v, "Channel.getMinConnectionState") != nil }

func isLenOfField(field string) func(ssa.Value) bool {
	return func(v ssa.Value) bool {
		c, ok := core.StripConv(v).(*ssa.Call)
		if !ok {
			return false
		}
		b, ok := c.Call.Value.(*ssa.Builtin)
		if !ok || b.Name() != "len" {
			return false
		}
		f := core.LoadedField(c.Call.Args[0])
		return f != nil && f.Name() == field
	}
}

func drainToInboundClosed(sp stateSpec, f facts, store *ssa.Store, d *core.Domain) (bool, string) {
	if sp.enum == "connectionState" {
		a := f.hasCmp(isCountOf("inbound"), []token.Token{token.EQL, token.LEQ}, 0)
		b := f.hasBool(isCanClose, true)
		return a && b, fmt.Sprintf("->InboundClosed guarded by inbound.count()==0:%v relay.canClose():%v", a, b)
	}
	k := d.Min(d.OfName("connectionInboundClosed"))
	_ = k
	a := minStateAtLeast(f, "connectionInboundClosed", store)
	return a, fmt.Sprintf("->ChannelInboundClosed guarded by minConnState>=connectionInboundClosed:%v", a)
}

func minStateAtLeast(f facts, name string, at ssa.Instruction) bool {
	pk := at.Parent().Pkg
	if pk == nil && at.Parent().Parent() != nil {
		pk = at.Parent().Parent().Pkg
	}
	c, ok := pk.Pkg.Scope().Lookup(name).(*types.Const)
	if !ok {
		return false
	}
	k, _ := constInt64(c)
	return f.hasCmp(isMinConnState, []token.Token{token.GEQ, token.EQL}, k) ||
		f.hasCmp(isMinConnState, []token.Token{token.GTR}, k-1)
}

func drainToClosed(sp stateSpec, f facts, prior, inClosed core.Set, store *ssa.Store, d *core.Domain) (bool, string) {
	if sp.enum == "connectionState" {
		viaErr := f.hasBool(isStopped, true)
		viaDrain := prior&^inClosed == 0 && f.hasCmp(isCountOf("outbound"), []token.Token{token.EQL, token.LEQ}, 0) && f.hasBool(isCanClose, true)
		return viaErr || viaDrain, fmt.Sprintf("->Closed guarded by stoppedExchanges:%v or (prior=InboundClosed && outbound.count()==0 && canClose):%v", viaErr, viaDrain)
	}
	a := minStateAtLeast(f, "connectionClosed", store)
	b := f.hasCmp(isLenOfField("conns"), []token.Token{token.EQL, token.LEQ}, 0)
	return a || b, fmt.Sprintf("->ChannelClosed guarded by minConnState>=connectionClosed:%v or len(conns)==0:%v", a, b)
}

// drainOrigins: the stored value is a phi of constants; each constant origin
// must be guarded by the drain predicate of its target state.
func drainOrigins(p *core.Prog, sp stateSpec, store *ssa.Store, d *core.Domain, closed, inClosed core.Set, here facts, ctx core.Ctx) (bool, string) {
	okAll := true
	why := ""
	n := 0
	judge := func(k int64, f facts) {
		n++
		s := d.Of(k)
		var ok bool
		var w string
		switch {
		case s == inClosed:
			ok, w = drainToInboundClosed(sp, f, store, d)
			// channel: InboundClosed only from StartClose is checked by R1
		case s == closed:
			ok, w = drainToClosed(sp, f, 0, inClosed, store, d)
		default:
			ok, w = true, ""
		}
		if !ok {
			okAll = false
		}
		if w != "" {
			why += w + "; "
		}
	}
	// The origins of the stored value: constants reached through phis, through
	// the parameters of the storing helper (to the argument at the call site of
	// this context) and through the results of helpers that compute the target
	// state (into their returns, with the helper's parameters replaced by the
	// arguments of the call, so that a guard on a parameter is a guard on the
	// value the caller passed).
	seen := map[ssa.Value]bool{}
	var collect func(v ssa.Value, base facts, sub map[ssa.Value]ssa.Value, depth int)
	collect = func(v ssa.Value, base facts, sub map[ssa.Value]ssa.Value, depth int) {
		if depth > 4 {
			okAll = false
			why += "origin too deep: " + desc(v) + "; "
			return
		}
		switch x := v.(type) {
		case *ssa.Const:
			k, _ := core.ConstInt(x)
			judge(k, base)
		case *ssa.Phi:
			if seen[x] {
				return
			}
			seen[x] = true
			for i, e := range x.Edges {
				pred := x.Block().Preds[i]
				f := base.add(substFacts(factsAt(pred).add(edgeFacts(pred, x.Block())), sub))
				collect(e, f, sub, depth)
			}
		case *ssa.Parameter:
			site, ok := ctx[x.Parent()]
			idx := -1
			for k, q := range x.Parent().Params {
				if q == x {
					idx = k
				}
			}
			if !ok || idx < 0 || site.Common().IsInvoke() || idx >= len(site.Common().Args) {
				okAll = false
				why += "non-constant origin " + desc(v) + "; "
				return
			}
			collect(site.Common().Args[idx], base.add(factsAt(site.Block())), nil, depth+1)
		case *ssa.Call:
			g := x.Call.StaticCallee()
			if g == nil || g.Blocks == nil || !p.InAnalysed(g) || g.Signature.Results().Len() != 1 || len(g.Params) != len(x.Call.Args) {
				okAll = false
				why += "non-constant origin " + desc(v) + "; "
				return
			}
			sub2 := map[ssa.Value]ssa.Value{}
			for k, q := range g.Params {
				a := x.Call.Args[k]
				if r, isSub := sub[a]; isSub {
					a = r
				}
				sub2[q] = a
			}
			core.EachInstr(g, func(i ssa.Instruction) {
				if ret, isRet := i.(*ssa.Return); isRet {
					collect(core.ReturnValues(ret)[0], base.add(substFacts(factsAt(ret.Block()), sub2)), sub2, depth+1)
				}
			})
		default:
			okAll = false
			why += "non-constant origin " + desc(v) + "; "
		}
	}
	if _, isConst := store.Val.(*ssa.Const); isConst {
		return false, "mixed target state that is a single constant: " + desc(store.Val)
	}
	collect(store.Val, facts{}, nil, 0)
	if n == 0 && okAll {
		return false, "mixed target state without a constant origin: " + desc(store.Val)
	}
	return okAll, why
}

// substFacts: the facts with a helper's parameters replaced by the arguments of the call.
func substFacts(f facts, sub map[ssa.Value]ssa.Value) facts {
	if len(sub) == 0 {
		return f
	}
	rep := func(v ssa.Value) ssa.Value {
		if r, ok := sub[v]; ok {
			return r
		}
		return v
	}
	var out facts
	for _, c := range f.cmps {
		c.X, c.Y = rep(c.X), rep(c.Y)
		out.cmps = append(out.cmps, c)
	}
	for _, b := range f.bools {
		b.V = rep(b.V)
		out.bools = append(out.bools, b)
	}
	return out
}

// edgeFacts: facts established by the branch at the end of pred when it jumps to succ.
func edgeFacts(pred, succ *ssa.BasicBlock) facts {
	if len(pred.Instrs) == 0 {
		return facts{}
	}
	ifi, ok := pred.Instrs[len(pred.Instrs)-1].(*ssa.If)
	if !ok || pred.Succs[0] == pred.Succs[1] {
		return facts{}
	}
	// synthesize by asking for facts of a block dominated by that edge: use GuardsAt machinery
	pol := pred.Succs[0] == succ
	c, b := core.ExpandCond(ifi.Cond, pol)
	return facts{c, b}
}

// ---------------------------------------------------------------------------
// R3 closed signalled once

// c07StateAfterRemoval: the close-state callback decides "is the channel
// closing?" from a state read taken after it removed the closed connection
// from the table. A read taken before lets a Close() slip in between: Close
// sees the dead connection still listed and leaves the final transition to
// this callback, which then returns early on its stale "not closing".
func c07StateAfterRemoval(p *core.Prog, r *core.Report) {
	f := mustFunc(p, r, "", "Channel", "connectionCloseStateChange")
	if f == nil {
		return
	}
	rm := core.CallsIn(f, "Channel.removeClosedConn")
	st := core.CallsIn(f, "Channel.State")
	if len(rm) == 0 || len(st) == 0 {
		// restructured (inlined removal, state read through a helper): not judged here
		return
	}
	for k, s := range st {
		ok := false
		for _, m := range rm {
			if before(m, s) {
				ok = true
			}
		}
		r.Check(ok, "C07-R2", fname(f), fmt.Sprintf("channel state read #%d follows the removal of the closed connection", k+1), p.Pos(s.Pos()),
			"removeClosedConn dominates the State() read", "the channel state is read before the closed connection is removed from the table: a Close() in between leaves the channel in start-close for ever (Close waits for this callback, the callback returns on its stale 'not closing')")
	}
}

func c07Signals(p *core.Prog, r *core.Report) {
	c07StateAfterRemoval(p, r)
	// (a) close(ch.closed) only in onClosed
	closedFld := mustField(p, r, "", "Channel", "closed")
	stopFld := mustField(p, r, "", "Connection", "stopCh")
	if closedFld == nil || stopFld == nil {
		return
	}
	onClosed := mustFunc(p, r, "", "Channel", "onClosed")
	nClose := 0
	for _, f := range p.SrcFuncs {
		core.EachInstr(f, func(i ssa.Instruction) {
			c, ok := core.IsBuiltin(i, "close")
			if !ok {
				return
			}
			fld := core.LoadedField(c.Call.Args[0])
			if fld == closedFld {
				nClose++
				r.Check(f == onClosed, "C07-R3", fname(f), "close(Channel.closed)", p.Pos(i.Pos()),
					"the only close of Channel.closed is in onClosed", "Channel.closed closed outside onClosed")
			}
			if fld == stopFld {
				c07StopCh(p, r, f, c)
			}
		})
	}
	if onClosed == nil {
		return
	}
	// (b) each onClosed call is guarded by a flag that is set only after a ->ChannelClosed store
	d := p.NewDomain("", "ChannelState")
	stFld := p.Field("", "Channel", "mutable", "state")
	for _, cs := range p.CallsTo("Channel.onClosed") {
		f := factsAt(cs.Call.Block())
		ok, why := false, "no guard links this call to a performed ->ChannelClosed store"
		// shape 1: bool flag (captured or local) true
		for _, b := range f.bools {
			if !b.Pol {
				continue
			}
			if good, w := flagSetOnlyAfterClosedStore(b.V, stFld, d); good {
				ok, why = true, w
			}
		}
		// shape 2: state-valued flag == ChannelClosed
		for _, c := range f.cmps {
			if c.Op != token.EQL {
				continue
			}
			x, y := c.X, c.Y
			if _, isC := x.(*ssa.Const); isC {
				x, y = y, x
			}
			if k, isK := core.ConstInt(y); !isK || d.Of(k) != d.OfName("ChannelClosed") {
				continue
			}
			if good, w := stateFlagOnlyAfterStore(x, stFld, d); good {
				ok, why = true, w
			}
		}
		r.Check(ok, "C07-R3", fname(cs.Fn), "call onClosed()", p.Pos(cs.Call.Pos()), why, why)
	}
}

// flagSetOnlyAfterClosedStore: v is (a load of) a bool cell; every store of
// true into it happens in a block that earlier stores ChannelClosed into the state field.
func flagSetOnlyAfterClosedStore(v ssa.Value, stFld *types.Var, d *core.Domain) (bool, string) {
	u, ok := v.(*ssa.UnOp)
	if !ok || u.Op != token.MUL {
		return false, ""
	}
	al, ok := u.X.(*ssa.Alloc)
	if !ok {
		return false, ""
	}
	var stores []*ssa.Store
	okShape := true
	var visit func(addr ssa.Value)
	visit = func(addr ssa.Value) {
		for _, ref := range *addr.Referrers() {
			switch x := ref.(type) {
			case *ssa.Store:
				if x.Addr == addr {
					stores = append(stores, x)
				} else {
					okShape = false
				}
			case *ssa.MakeClosure:
				fn := x.Fn.(*ssa.Function)
				for k, b := range x.Bindings {
					if b == addr {
						visit(fn.FreeVars[k])
					}
				}
			case *ssa.UnOp, *ssa.DebugRef:
			default:
				okShape = false
			}
		}
	}
	visit(al)
	if !okShape {
		return false, ""
	}
	n := 0
	for _, st := range stores {
		if b, isC := core.ConstBool(st.Val); isC && !b {
			continue
		}
		n++
		if !blockStoresStateBefore(st, stFld, d.OfName("ChannelClosed"), d) {
			return false, "flag set true without a preceding ->ChannelClosed store"
		}
	}
	if n == 0 {
		return false, ""
	}
	return true, fmt.Sprintf("guard flag %s is set true only right after the ->ChannelClosed store under the lock", desc(v))
}

func blockStoresStateBefore(at ssa.Instruction, stFld *types.Var, want core.Set, d *core.Domain) bool {
	// same block, earlier, or a dominating block, with no state store in between other than the wanted one
	b := at.Block()
	found := false
	for _, i := range b.Instrs {
		if i == at {
			break
		}
		if st, ok := i.(*ssa.Store); ok && core.AddrField(st.Addr) == stFld {
			k, isK := core.ConstInt(st.Val)
			found = isK && d.Of(k) == want
		}
	}
	return found
}

// stateFlagOnlyAfterStore: x is a phi whose edges are the zero value or a
// value V assigned in a block that stores the same V into the state field.
func stateFlagOnlyAfterStore(x ssa.Value, stFld *types.Var, d *core.Domain) (bool, string) {
	phi, ok := x.(*ssa.Phi)
	if !ok {
		return false, ""
	}
	seen := map[*ssa.Phi]bool{}
	bad := ""
	var walk func(ph *ssa.Phi)
	helpers := map[*ssa.Function]bool{}
	fromHelper := func(g *ssa.Function) bool {
		if helpers[g] {
			return true // in progress or done
		}
		helpers[g] = true
		ok := true
		core.EachInstr(g, func(i ssa.Instruction) {
			ret, isRet := i.(*ssa.Return)
			if !isRet {
				return
			}
			rv := core.ReturnValues(ret)[0]
			if k, isK := core.ConstInt(rv); isK && d.Of(k)&d.Declared() == 0 {
				return
			}
			if rp, isPhi := rv.(*ssa.Phi); isPhi {
				walk(rp)
				return
			}
			stored := false
			for _, ins := range ret.Block().Instrs {
				if st, isSt := ins.(*ssa.Store); isSt && core.AddrField(st.Addr) == stFld && st.Val == rv {
					stored = true
				}
			}
			if !stored {
				ok = false
			}
		})
		return ok
	}
	walk = func(ph *ssa.Phi) {
		if seen[ph] {
			return
		}
		seen[ph] = true
		for i, e := range ph.Edges {
			if k, isK := core.ConstInt(e); isK {
				if d.Of(k)&d.Declared() == 0 {
					continue // zero value: "no update performed"
				}
			}
			pred := ph.Block().Preds[i]
			// the pred block stores e into the state field: the flag carries the value actually stored
			found := false
			for _, ins := range pred.Instrs {
				if st, ok := ins.(*ssa.Store); ok && core.AddrField(st.Addr) == stFld && st.Val == e {
					found = true
				}
			}
			if found {
				continue
			}
			if inner, isPhi := e.(*ssa.Phi); isPhi && inner.Comment == ph.Comment {
				walk(inner)
				continue
			}
			// the edge is taken only after a compare-and-set helper said
			// "done": a boolean helper that returns true only after it stored
			// the very value this edge carries
			{
				fs := factsAt(pred).add(edgeFacts(pred, ph.Block()))
				viaCAS := false
				for _, b := range fs.bools {
					c, isCall := b.V.(*ssa.Call)
					if !isCall || !b.Pol {
						continue
					}
					g := c.Call.StaticCallee()
					if g == nil || g.Blocks == nil {
						continue
					}
					for k, a := range c.Call.Args {
						if a == e && k < len(g.Params) && trueOnlyAfterStoring(g, g.Params[k], stFld) {
							viaCAS = true
						}
					}
				}
				if viaCAS {
					continue
				}
			}
			// the flag is what a helper returns: every return of the helper
			// carries zero or the value the helper itself stored
			if c, isCall := e.(*ssa.Call); isCall {
				if g := c.Call.StaticCallee(); g != nil && g.Blocks != nil && g.Signature.Results().Len() == 1 && fromHelper(g) {
					continue
				}
			}
			bad = "flag takes a state value on an edge that did not store it: " + desc(e)
		}
	}
	walk(phi)
	if bad != "" {
		return false, bad
	}
	return true, "guard compares a flag that carries the value actually stored under the lock (zero when no store was performed)"
}

// trueOnlyAfterStoring: every return of the boolean helper g that may be true
// comes after a store of g's parameter prm into the state field.
func trueOnlyAfterStoring(g *ssa.Function, prm *ssa.Parameter, stFld *types.Var) bool {
	var stores []*ssa.Store
	core.EachInstr(g, func(i ssa.Instruction) {
		if st, ok := i.(*ssa.Store); ok && core.AddrField(st.Addr) == stFld && st.Val == ssa.Value(prm) {
			stores = append(stores, st)
		}
	})
	if len(stores) == 0 {
		return false
	}
	ok, n := true, 0
	core.EachInstr(g, func(i ssa.Instruction) {
		ret, isRet := i.(*ssa.Return)
		if !isRet || core.IsRecoverBlock(i.Block()) {
			return
		}
		rv := core.ReturnValues(ret)
		if len(rv) != 1 {
			ok = false
			return
		}
		n++
		var okv func(v ssa.Value, at ssa.Instruction, d int) bool
		okv = func(v ssa.Value, at ssa.Instruction, d int) bool {
			if d > 3 {
				return false
			}
			if b, isC := core.ConstBool(v); isC {
				if !b {
					return true
				}
				for _, st := range stores {
					if before(st, at) {
						return true
					}
				}
				return false
			}
			if ph, isPhi := v.(*ssa.Phi); isPhi {
				for k, e := range ph.Edges {
					pred := ph.Block().Preds[k]
					if !okv(e, pred.Instrs[len(pred.Instrs)-1], d+1) {
						return false
					}
				}
				return true
			}
			return false
		}
		if !okv(rv[0], ret, 0) {
			ok = false
		}
	})
	return ok && n > 0
}

// c07StopCh: close(c.stopCh) must be guarded by "curState == Closed" and
// "curState != origState" where every Closed-valued origin of curState other
// than origState itself is an assignment guarded by a successful moveState(…, Closed).
func c07StopCh(p *core.Prog, r *core.Report, f *ssa.Function, c *ssa.Call) {
	d := p.NewDomain("", "connectionState")
	closed := d.OfName("connectionClosed")
	fs := factsAt(c.Block())
	var cur, orig ssa.Value
	for _, cm := range fs.cmps {
		if cm.Op == token.EQL {
			if k, ok := core.ConstInt(cm.Y); ok && d.Of(k) == closed {
				cur = cm.X
			}
		}
	}
	for _, cm := range fs.cmps {
		if cm.Op == token.NEQ && cur != nil {
			if cm.X == cur {
				orig = cm.Y
			} else if cm.Y == cur {
				orig = cm.X
			}
		}
	}
	pos := p.Pos(c.Pos())
	if cur == nil || orig == nil {
		r.Fail("C07-R3", fname(f), "close(Connection.stopCh)", pos, "not guarded by (state value == connectionClosed) and (state value != value at entry)")
		return
	}
	ok := true
	why := ""
	seen := map[ssa.Value]bool{}
	var walk func(v ssa.Value, pred *ssa.BasicBlock)
	walk = func(v ssa.Value, pred *ssa.BasicBlock) {
		if v == orig {
			return
		}
		switch x := v.(type) {
		case *ssa.Phi:
			if seen[x] {
				return
			}
			seen[x] = true
			for i, e := range x.Edges {
				walk(e, x.Block().Preds[i])
			}
		case *ssa.Const:
			k, _ := core.ConstInt(x)
			if d.Of(k) != closed {
				return
			}
			// pred block must be guarded by a successful transition to Closed
			pf := factsAt(pred)
			if !pf.hasBool(func(b ssa.Value) bool { return isMoveTo(b, d, closed) }, true) {
				ok = false
				why = "a Closed-valued assignment is not guarded by a successful moveState(…, connectionClosed)"
			}
		default:
			ok = false
			why = "unrecognised origin of the local state value: " + desc(v)
		}
	}
	walk(cur, nil)
	if why == "" {
		why = "every Closed-valued origin of the local state (other than the entry value, excluded by the != guard) is assigned under a successful moveState(…, Closed)"
	}
	r.Check(ok, "C07-R3", fname(f), "close(Connection.stopCh)", pos, why, why)
}

// isMoveTo: v is the result of calling a closure with (from, to) where to is the constant `want`.
func isMoveTo(v ssa.Value, d *core.Domain, want core.Set) bool {
	c, ok := v.(*ssa.Call)
	if !ok {
		return false
	}
	cal := c.Call.StaticCallee()
	if cal == nil || cal.Parent() == nil {
		return false
	}
	if len(c.Call.Args) != 2 {
		return false
	}
	k, isK := core.ConstInt(c.Call.Args[1])
	return isK && d.Of(k) == want
}

// ---------------------------------------------------------------------------
// R4 / R5 admission

// refusalOrder: shared by C07 and C20 (a call reaching a closing peer maps to declined).
func refusalOrder(p *core.Prog, r *core.Report, rule string) {
	f := mustFunc(p, r, "", "Connection", "handleCallReq")
	if f == nil {
		return
	}
	d := p.NewDomain("", "connectionState")
	active := d.OfName("connectionActive")
	nonActive := d.Declared() &^ active
	isSendClosed := func(i ssa.Instruction) bool { return sendsClosedRefusal(p, i, 0) }
	// the refusal frame goes out before anything that can re-evaluate the
	// close state: once the last exchange is removed the connection may
	// close and SendSystemError on a closed connection drops the frame.
	if ce := p.Func("", "Connection", "checkExchanges"); ce != nil {
		closers := p.CallersClosureWithin(map[*ssa.Function]bool{ce: true}, p.InAnalysed)
		for k, rs := range core.CallsIn(f, "Connection.readState") {
			fl := hypFlow(p, d, f, map[ssa.Value]core.Set{rs.Value(): nonActive})
			res := core.ReachAvoiding(f, rs, func(i ssa.Instruction) bool {
				c, ok := i.(ssa.CallInstruction)
				if !ok || isSendClosed(i) {
					return false
				}
				if _, isDefer := i.(*ssa.Defer); isDefer {
					return false
				}
				return p.MayCall(c, closers)
			}, isSendClosed, edgePrune(fl))
			construct := fmt.Sprintf("refusal after observation #%d precedes any close-state re-evaluation", k+1)
			if res.Found {
				r.Fail(rule, fname(f), construct, p.Pos(rs.Pos()),
					"a call that can remove the last exchange and close the connection runs before the declined frame is sent (the frame is then dropped): "+p.Pos(res.Exit.Pos()))
			} else {
				r.Ok(rule, fname(f), construct, p.Pos(rs.Pos()), "no call reaching checkExchanges lies between the observation and SendSystemError(…, ErrChannelClosed)")
			}
		}
	} else {
		r.Errorf("Connection.checkExchanges does not resolve")
	}
}

// errorFrameQueuedUnlessClosed: the refusal travels through
// Connection.SendSystemError, which may give up only on a closed connection
// (whose send queue is gone). In start-close and inbound-closed the writer
// still runs, so the frame must be queued: the states under which the send on
// sendCh is reached, as far as explicit comparisons of c.state with constants
// guard it, include every state but connectionClosed. (A refusal dropped in
// inbound-closed leaves the caller waiting for its own deadline.)
func errorFrameQueuedUnlessClosed(p *core.Prog, r *core.Report, rule string) {
	f := mustFunc(p, r, "", "Connection", "SendSystemError")
	if f == nil {
		return
	}
	d := p.NewDomain("", "connectionState")
	stFld := p.Field("", "Connection", "state")
	sendFld := p.Field("", "Connection", "sendCh")
	if stFld == nil || sendFld == nil {
		r.Errorf("Connection.state / Connection.sendCh do not resolve")
		return
	}
	want := d.Declared() &^ d.OfName("connectionClosed")
	n := 0
	for _, g := range core.WithAnon(f) {
		core.EachInstr(g, func(i ssa.Instruction) {
			var chans []ssa.Value
			switch x := i.(type) {
			case *ssa.Send:
				chans = append(chans, x.Chan)
			case *ssa.Select:
				for _, st := range x.States {
					if st.Dir == types.SendOnly {
						chans = append(chans, st.Chan)
					}
				}
			}
			for _, ch := range chans {
				if core.LoadedField(ch) != sendFld {
					continue
				}
				n++
				set := d.Declared()
				fs := factsAt(i.Block())
				for _, c := range fs.cmps {
					x, y, op := c.X, c.Y, c.Op
					if _, isC := x.(*ssa.Const); isC {
						x, y = y, x
						op = mirror(op)
					}
					k, isK := core.ConstInt(y)
					if !isK || core.LoadedField(x) != stFld {
						continue
					}
					set = d.RefineConst(set, op, k)
				}
				r.Check(set&want == want, rule, fname(f), "error frame is queued in every state but closed", p.Pos(i.Pos()),
					"states admitted to the send on sendCh: "+d.String(set),
					"the error frame is not queued in "+d.String(want&^set)+": a refusal (or any system error) sent while the connection drains is dropped silently and the caller waits for its deadline")
			}
		})
	}
	if n == 0 {
		r.Errorf("Connection.SendSystemError: no send on sendCh found")
	}
}

// sendsClosedRefusal: i sends the declined "closed channel" error frame:
// SendSystemError(…, ErrChannelClosed) itself, or a call of a helper of the
// analysed packages every path of which does.
func sendsClosedRefusal(p *core.Prog, i ssa.Instruction, depth int) bool {
	if c, ok := core.IsCall(i, "Connection.SendSystemError"); ok {
		args := core.CallArgs(c)
		return len(args) == 4 && loadsGlobal(args[3], "ErrChannelClosed")
	}
	c, ok := i.(*ssa.Call)
	if !ok || depth > 1 {
		return false
	}
	g := c.Call.StaticCallee()
	if g == nil || g.Blocks == nil || !p.InAnalysed(g) {
		return false
	}
	any := false
	core.EachInstr(g, func(j ssa.Instruction) {
		if sendsClosedRefusal(p, j, depth+1) {
			any = true
		}
	})
	if !any {
		return false
	}
	return !core.ReachAvoiding(g, nil, core.IsReturn, func(j ssa.Instruction) bool { return sendsClosedRefusal(p, j, depth+1) }, nil).Found
}

func c07Admission(p *core.Prog, r *core.Report) {
	d := p.NewDomain("", "connectionState")
	active := d.OfName("connectionActive")
	nonActive := d.Declared() &^ active

	isSendClosed := func(i ssa.Instruction) bool { return sendsClosedRefusal(p, i, 0) }

	// R4: Connection.handleCallReq
	if f := mustFunc(p, r, "", "Connection", "handleCallReq"); f != nil {
		n := 0
		for k, rs := range core.CallsIn(f, "Connection.readState") {
			n++
			v := rs.Value()
			fl := hypFlow(p, d, f, map[ssa.Value]core.Set{v: nonActive})
			res := core.ReachAvoiding(f, rs, func(i ssa.Instruction) bool {
				_, isRet := i.(*ssa.Return)
				_, isGo := i.(*ssa.Go)
				return isRet || isGo
			}, isSendClosed, edgePrune(fl))
			construct := fmt.Sprintf("readState() observation #%d is non-active", k+1)
			if res.Found {
				r.Fail("C07-R4", fname(f), construct, p.Pos(rs.Pos()),
					"a path returns (or dispatches) without sending the declined 'closed' error frame: "+p.TrailString(res)+" exit "+p.Pos(res.Exit.Pos()))
			} else {
				r.Ok("C07-R4", fname(f), construct, p.Pos(rs.Pos()), "every path under state!=Active passes SendSystemError(…, ErrChannelClosed) before returning")
			}
		}
		refusalOrder(p, r, "C07-R4")
		errorFrameQueuedUnlessClosed(p, r, "C07-R4")
		if n < 2 {
			r.Errorf("handleCallReq: expected the state to be observed before and after registering the exchange, found %d observations", n)
		} else {
			// the second observation must be ordered after newExchange
			calls := core.CallsIn(f, "Connection.readState")
			nx := core.CallsIn(f, "messageExchangeSet.newExchange")
			ok := len(nx) == 1 && nx[0].Block().Dominates(calls[len(calls)-1].Block())
			r.Check(ok, "C07-R4", fname(f), "state re-read after newExchange", p.Pos(calls[len(calls)-1].Pos()),
				"the last state observation is dominated by the exchange registration", "no state observation after the exchange is registered")
		}
	}

	// R4 relay admission
	if f := mustFunc(p, r, "", "Relayer", "canHandleNewCall"); f != nil {
		// pending.Inc() happens inside withStateRLock closure, guarded by state == Active
		found := false
		for _, g := range core.WithAnon(f) {
			for _, c := range core.CallsIn(g, "go.uber.org/atomic.Uint32.Inc") {
				if recvFieldName(c) != "pending" {
					continue
				}
				found = true
				fs := factsAt(c.Block())
				guard := fs.hasBool(func(v ssa.Value) bool {
					b, ok := v.(*ssa.BinOp)
					if !ok || b.Op != token.EQL {
						return false
					}
					k, isK := core.ConstInt(b.Y)
					return isK && d.Of(k) == active
				}, true) || fs.hasCmp(func(ssa.Value) bool { return true }, []token.Token{token.EQL}, d.Min(active))
				// either inside the closure run by withStateRLock, or with the
				// state mutex taken directly
				inClosure := g.Parent() != nil
				if !inClosure {
					if sm := p.Field("", "Connection", "stateMut"); sm != nil && p.ComputeLocks().At(c.(ssa.Instruction))[sm] != core.NotHeld {
						inClosure = true
					}
				}
				r.Check(guard && inClosure, "C07-R4", fname(g), "pending.Inc() under state==Active inside the state read-lock", p.Pos(c.Pos()),
					"relay admission counts the call while holding the state lock, only when active", fmt.Sprintf("guard=%v inLockClosure=%v", guard, inClosure))
			}
		}
		if !found {
			r.Errorf("canHandleNewCall: pending.Inc() not found")
		}
	}

	// R5 outbound beginCall
	if f := mustFunc(p, r, "", "Connection", "beginCall"); f != nil {
		calls := core.CallsIn(f, "Connection.readState")
		for k, rs := range calls {
			fl := hypFlow(p, d, f, map[ssa.Value]core.Set{rs.Value(): nonActive})
			prune := edgePrune(fl)
			bad := core.ReachAvoiding(f, rs, func(i ssa.Instruction) bool {
				ret, ok := i.(*ssa.Return)
				if !ok {
					return false
				}
				return !(len(ret.Results) == 2 && loadsGlobal(core.ReturnValues(ret)[1], "ErrConnectionClosed"))
			}, nil, prune)
			construct := fmt.Sprintf("readState() observation #%d is non-active", k+1)
			if bad.Found {
				r.Fail("C07-R5", fname(f), construct, p.Pos(rs.Pos()), "a path returns something other than ErrConnectionClosed: "+p.TrailString(bad))
			} else {
				r.Ok("C07-R5", fname(f), construct, p.Pos(rs.Pos()), "every return under state!=Active yields ErrConnectionClosed")
			}
		}
		nx := core.CallsIn(f, "messageExchangeSet.newExchange")
		if len(calls) >= 2 && len(nx) == 1 {
			last := calls[len(calls)-1]
			fl := hypFlow(p, d, f, map[ssa.Value]core.Set{last.Value(): nonActive})
			leak := core.ReachAvoiding(f, last, core.IsReturn, func(i ssa.Instruction) bool {
				_, ok := core.IsCall(i, "messageExchange.shutdown")
				return ok
			}, edgePrune(fl))
			ok := nx[0].Block().Dominates(last.Block()) && !leak.Found
			r.Check(ok, "C07-R5", fname(f), "state re-read after newExchange, exchange shut down on refusal", p.Pos(last.Pos()),
				"re-check is after registration and shuts the exchange down before failing", "re-check missing, or refusal path leaves the exchange registered")
		} else if len(nx) == 1 {
			// the state must be observed again after the exchange is registered
			// (a Close that lands between the first check and the registration
			// would otherwise hand out a call on a connection that is closing)
			after := false
			for _, c := range calls {
				if nx[0].Block().Dominates(c.Block()) && before(nx[0], c) {
					after = true
				}
			}
			r.Check(after, "C07-R5", fname(f), "state re-read after newExchange, exchange shut down on refusal", p.Pos(nx[0].Pos()),
				"a readState() follows the registration", "the connection state is not read again after the exchange is registered: a Close in between goes unnoticed and the call is handed out on a closing connection")
		} else {
			r.Errorf("beginCall: expected one newExchange call (found %d)", len(nx))
		}
	}

	// R5 Channel.Connect
	if f := mustFunc(p, r, "", "Channel", "Connect"); f != nil {
		dc := p.NewDomain("", "ChannelState")
		okStates := dc.OfName("ChannelClient", "ChannelListening")
		calls := core.CallsIn(f, "Channel.State")
		if len(calls) == 0 {
			r.Fail("C07-R5", fname(f), "channel state observed before dialing", "-", "Connect does not read the channel state")
		}
		for _, cs := range calls {
			fl := hypFlow(p, dc, f, map[ssa.Value]core.Set{cs.Value(): dc.Declared() &^ okStates})
			// no path may reach the dialer or the handshake
			res := core.ReachAvoiding(f, cs, func(i ssa.Instruction) bool {
				if _, ok := core.IsCall(i, "Channel.outboundHandshake"); ok {
					return true
				}
				if c, ok := i.(*ssa.Call); ok {
					if fld := core.LoadedField(c.Call.Value); fld != nil && fld.Name() == "dialer" {
						return true
					}
				}
				if ret, ok := i.(*ssa.Return); ok {
					return len(ret.Results) == 2 && core.IsNilConst(core.ReturnValues(ret)[1])
				}
				return false
			}, nil, edgePrune(fl))
			if res.Found {
				r.Fail("C07-R5", fname(f), "Connect in a closing state", p.Pos(cs.Pos()), "a path dials / handshakes / returns nil error although the channel is closing: "+p.TrailString(res))
			} else {
				r.Ok("C07-R5", fname(f), "Connect in a closing state", p.Pos(cs.Pos()), "under state∉{Client,Listening} no path reaches the dialer, the handshake or a nil-error return")
			}
		}
	}
}

// ---------------------------------------------------------------------------
// R6 listener

func c07Listener(p *core.Prog, r *core.Report) {
	closeF := mustFunc(p, r, "tnet", "listener", "Close")
	accept := mustFunc(p, r, "tnet", "listener", "Accept")
	refs := mustField(p, r, "tnet", "listener", "refs")
	if closeF == nil || accept == nil || refs == nil {
		return
	}
	isRefs := func(v ssa.Value) bool { return core.LoadedField(v) == refs }
	n := 0
	core.EachInstr(closeF, func(i ssa.Instruction) {
		ret, ok := i.(*ssa.Return)
		if !ok || len(ret.Results) != 1 || !core.IsNilConst(core.ReturnValues(ret)[0]) {
			return
		}
		n++
		fs := factsAt(i.Block())
		ok2 := fs.hasCmp(isRefs, []token.Token{token.LEQ, token.EQL}, 0) || fs.hasCmp(isRefs, []token.Token{token.LSS}, 1)
		r.Check(ok2, "C07-R6", fname(closeF), "return nil", p.Pos(i.Pos()),
			"the nil return is reached only through the exit edge of the wait loop (refs <= 0)", "Close can return nil while Accept still holds a reference")
	})
	if n == 0 {
		r.Errorf("tnet listener.Close: no nil return found")
	}
	waits := core.CallsIn(closeF, "sync.Cond.Wait")
	r.Check(len(waits) == 1, "C07-R6", fname(closeF), "cond.Wait in the refs loop", "-", "waits on the condition variable", "no cond.Wait")
	// Accept: incRef before the inner Accept, decRef deferred before it
	var inc, dec, inner ssa.Instruction
	core.EachInstr(accept, func(i ssa.Instruction) {
		if _, ok := core.IsCall(i, "tnet.listener.incRef"); ok {
			inc = i
		}
		if c, ok := core.IsCall(i, "tnet.listener.decRef"); ok {
			if _, isDefer := c.(*ssa.Defer); isDefer {
				dec = i
			}
		}
		if _, ok := core.IsCall(i, "net.Listener.Accept"); ok {
			inner = i
		}
	})
	okA := inc != nil && dec != nil && inner != nil && inc.Block() == inner.Block() && dec.Block() == inner.Block() && before(inc, inner) && before(dec, inner)
	pos := "-"
	if inner != nil {
		pos = p.Pos(inner.Pos())
	}
	r.Check(okA, "C07-R6", fname(accept), "incRef(); defer decRef(); inner Accept", pos, "the inner Accept is bracketed by the refcount", "inner Accept not bracketed by incRef / deferred decRef")
}

func before(a, b ssa.Instruction) bool {
	if a.Block() != b.Block() {
		return a.Block().Dominates(b.Block())
	}
	for _, i := range a.Block().Instrs {
		if i == a {
			return true
		}
		if i == b {
			return false
		}
	}
	return false
}
