package rules

import (
	"fmt"
	"go/token"
	"go/types"
	"strings"

	"golang.org/x/tools/go/ssa"

	"verif/sa/core"
)

// mustFunc resolves a function anchor or records a cannot-decide error.
func mustFunc(p *core.Prog, r *core.Report, pkg, recv, name string) *ssa.Function {
	f := p.Func(pkg, recv, name)
	if f == nil || f.Blocks == nil {
		r.Errorf("anchor function %s.%s.%s does not resolve (cannot decide)", pkg, recv, name)
		return nil
	}
	return f
}

func mustField(p *core.Prog, r *core.Report, pkg, typ string, path ...string) *types.Var {
	f := p.Field(pkg, typ, path...)
	if f == nil {
		r.Errorf("anchor field %s.%s.%s does not resolve (cannot decide)", pkg, typ, strings.Join(path, "."))
	}
	return f
}

// desc renders a value without positions or SSA register names.
func desc(v ssa.Value) string { return descDepth(v, 0) }

func descDepth(v ssa.Value, d int) string {
	if v == nil {
		return "<nil>"
	}
	if d > 4 {
		return "…"
	}
	switch x := v.(type) {
	case *ssa.Const:
		if x.Value == nil {
			return "nil"
		}
		if n, ok := x.Type().(*types.Named); ok {
			if k, ok := core.ConstInt(x); ok {
				sc := n.Obj().Pkg().Scope()
				best := ""
				for _, nm := range sc.Names() {
					if c, ok := sc.Lookup(nm).(*types.Const); ok && types.Identical(c.Type(), n) {
						if cv, ok := constInt64(c); ok && cv == k {
							if best == "" || len(nm) < len(best) {
								best = nm
							}
						}
					}
				}
				if best != "" {
					return best
				}
			}
		}
		return x.Value.ExactString()
	case *ssa.Parameter:
		return x.Name()
	case *ssa.FreeVar:
		return x.Name()
	case *ssa.Global:
		return x.Name()
	case *ssa.Alloc:
		if x.Comment != "" {
			return x.Comment
		}
		return "local"
	case *ssa.UnOp:
		if x.Op == token.MUL {
			return descDepth(x.X, d) // loads print as the location
		}
		return x.Op.String() + descDepth(x.X, d+1)
	case *ssa.FieldAddr:
		return descDepth(x.X, d) + "." + core.FieldOfAddr(x).Name()
	case *ssa.Field:
		return descDepth(x.X, d) + "." + core.FieldOfField(x).Name()
	case *ssa.BinOp:
		return "(" + descDepth(x.X, d+1) + " " + x.Op.String() + " " + descDepth(x.Y, d+1) + ")"
	case *ssa.Call:
		name := "?"
		if o := core.CalleeObj(x); o != nil {
			name = core.ShortKey(o)
		} else if b, ok := x.Call.Value.(*ssa.Builtin); ok {
			name = b.Name()
		} else {
			name = descDepth(x.Call.Value, d+1)
		}
		var args []string
		for _, a := range core.CallArgs(x) {
			args = append(args, descDepth(a, d+1))
		}
		return name + "(" + strings.Join(args, ", ") + ")"
	case *ssa.Phi:
		if x.Comment != "" {
			return x.Comment
		}
		return "phi"
	case *ssa.Convert:
		return descDepth(x.X, d)
	case *ssa.ChangeType:
		return descDepth(x.X, d)
	case *ssa.MakeInterface:
		return descDepth(x.X, d)
	case *ssa.Extract:
		return fmt.Sprintf("%s#%d", descDepth(x.Tuple, d), x.Index)
	case *ssa.MakeClosure:
		return "closure"
	case *ssa.Function:
		return core.FuncName(x)
	case *ssa.Index:
		return descDepth(x.X, d+1) + "[" + descDepth(x.Index, d+1) + "]"
	case *ssa.IndexAddr:
		return descDepth(x.X, d+1) + "[" + descDepth(x.Index, d+1) + "]"
	case *ssa.Slice:
		s := descDepth(x.X, d+1) + "["
		if x.Low != nil {
			s += descDepth(x.Low, d+1)
		}
		s += ":"
		if x.High != nil {
			s += descDepth(x.High, d+1)
		}
		return s + "]"
	case *ssa.Lookup:
		return descDepth(x.X, d+1) + "[" + descDepth(x.Index, d+1) + "]"
	}
	return strings.TrimPrefix(fmt.Sprintf("%T", v), "*ssa.")
}

func constInt64(c *types.Const) (int64, bool) {
	v := c.Val()
	if v == nil {
		return 0, false
	}
	s := v.ExactString()
	var n int64
	if _, err := fmt.Sscanf(s, "%d", &n); err != nil {
		return 0, false
	}
	return n, true
}

// callResult: if v (through conversions / tuple extraction) is the result of a
// call to one of keys, return the call.
func callResult(v ssa.Value, keys ...string) *ssa.Call {
	v = core.StripConv(v)
	if e, ok := v.(*ssa.Extract); ok {
		v = e.Tuple
	}
	c, ok := v.(*ssa.Call)
	if !ok {
		return nil
	}
	if _, ok := core.IsCall(c, keys...); ok {
		return c
	}
	return nil
}

// recvFieldName: the name of the field the method receiver was loaded from
// (c.inbound.count() -> "inbound"), or "".
func recvFieldName(c ssa.CallInstruction) string {
	args := core.CallArgs(c)
	if len(args) == 0 {
		return ""
	}
	v := args[0]
	if f := core.LoadedField(v); f != nil {
		return f.Name()
	}
	if f := core.AddrField(v); f != nil {
		return f.Name()
	}
	return ""
}

// facts bundles the canonical facts holding at a block.
type facts struct {
	cmps  []core.Cmp
	bools []core.BoolFact
}

func factsAt(b *ssa.BasicBlock) facts {
	c, bf := core.GuardFacts(b)
	return facts{c, bf}
}

func (f facts) add(g facts) facts {
	return facts{append(append([]core.Cmp{}, f.cmps...), g.cmps...), append(append([]core.BoolFact{}, f.bools...), g.bools...)}
}

// hasCmp: some fact "X op K" where X satisfies xpred and Y is the integer constant k.
func (f facts) hasCmp(xpred func(ssa.Value) bool, ops []token.Token, k int64) bool {
	for _, c := range f.cmps {
		x, y, op := c.X, c.Y, c.Op
		if _, isC := x.(*ssa.Const); isC {
			x, y = y, x
			op = mirror(op)
		}
		kv, ok := core.ConstInt(y)
		if !ok || kv != k {
			continue
		}
		okOp := false
		for _, o := range ops {
			if o == op {
				okOp = true
			}
		}
		if okOp && xpred(x) {
			return true
		}
	}
	return false
}

func mirror(op token.Token) token.Token {
	switch op {
	case token.LSS:
		return token.GTR
	case token.LEQ:
		return token.GEQ
	case token.GTR:
		return token.LSS
	case token.GEQ:
		return token.LEQ
	}
	return op
}

// hasBool: some boolean fact with polarity pol whose value satisfies pred.
func (f facts) hasBool(pred func(ssa.Value) bool, pol bool) bool {
	for _, b := range f.bools {
		if b.Pol == pol && pred(b.V) {
			return true
		}
	}
	return false
}

// errNonNilFact: fact "v != nil" (pol=true) or "v == nil" (pol=false) for a value satisfying pred.
func (f facts) nilCmp(pred func(ssa.Value) bool, isNil bool) bool {
	for _, c := range f.cmps {
		x, y := c.X, c.Y
		if core.IsNilConst(x) {
			x, y = y, x
		}
		if !core.IsNilConst(y) {
			continue
		}
		if (c.Op == token.EQL) == isNil && (c.Op == token.EQL || c.Op == token.NEQ) && pred(x) {
			return true
		}
	}
	return false
}

// loadsGlobal: v is a load of the named package-level variable of the root package.
func loadsGlobal(v ssa.Value, name string) bool {
	v = core.Strip(v)
	u, ok := v.(*ssa.UnOp)
	if !ok || u.Op != token.MUL {
		return false
	}
	g, ok := u.X.(*ssa.Global)
	return ok && g.Name() == name
}

func fname(f *ssa.Function) string { return core.FuncName(f) }

func isPanicOrFatal(i ssa.Instruction) bool {
	if _, ok := i.(*ssa.Panic); ok {
		return true
	}
	return false
}

// onEveryPath: no return of f is reachable from its entry without passing a
// call to one of keys (deferred calls count where they are registered).
func onEveryPath(f *ssa.Function, keys ...string) bool {
	if len(core.CallsIn(f, keys...)) == 0 {
		return false
	}
	res := core.ReachAvoiding(f, nil, core.IsReturn, func(i ssa.Instruction) bool {
		_, ok := core.IsCall(i, keys...)
		return ok
	}, nil)
	return !res.Found
}

// mapDeletes lists the instructions of f that delete from the map held in
// field mapF: the builtin delete itself, or a call to a helper of the analysed
// packages (down to depth levels) that contains one.
func mapDeletes(p *core.Prog, f *ssa.Function, mapF *types.Var, depth int) []ssa.Instruction {
	var out []ssa.Instruction
	core.EachInstr(f, func(i ssa.Instruction) {
		if c, ok := core.IsBuiltin(i, "delete"); ok && core.LoadedField(c.Call.Args[0]) == mapF {
			out = append(out, i)
			return
		}
		if c, ok := i.(*ssa.Call); ok && depth > 0 {
			if g := c.Call.StaticCallee(); g != nil && p.InAnalysed(g) && len(g.Blocks) > 0 && g != f {
				if len(mapDeletes(p, g, mapF, depth-1)) > 0 {
					out = append(out, i)
				}
			}
		}
	})
	return out
}

// lookupSite is one place where f looks a peer up in the root list: a direct
// RootPeerList.Get call, or a call of a local closure whose body does the
// lookup with one of its parameters as the key (Key is then the argument).
type lookupSite struct {
	At  ssa.Instruction
	Key ssa.Value
	// Via: the call in the function under analysis through which a helper's
	// lookup is reached (nil for a lookup in the function itself). A helper
	// called twice yields its lookups twice, with the key and the guards of
	// each call site.
	Via ssa.CallInstruction
}

// guards: the facts under which the lookup happens (its own block's, plus the
// call site's when it lives in a helper).
func (ls lookupSite) guards() facts {
	fs := factsAt(ls.At.Block())
	if ls.Via != nil {
		fs = fs.add(factsAt(ls.Via.Block()))
	}
	return fs
}

func peerLookups(f *ssa.Function) []lookupSite {
	var out []lookupSite
	core.EachInstr(f, func(i ssa.Instruction) {
		if c, ok := core.IsCall(i, "RootPeerList.Get"); ok {
			out = append(out, lookupSite{At: i, Key: core.CallArgs(c)[1]})
			return
		}
		c, ok := i.(*ssa.Call)
		if !ok {
			return
		}
		mc, ok := c.Call.Value.(*ssa.MakeClosure)
		if !ok {
			return
		}
		cf, ok := mc.Fn.(*ssa.Function)
		if !ok {
			return
		}
		for _, g := range core.CallsIn(cf, "RootPeerList.Get") {
			key := core.CallArgs(g)[1]
			for k, prm := range cf.Params {
				if key == ssa.Value(prm) && k < len(c.Call.Args) {
					out = append(out, lookupSite{At: i, Key: c.Call.Args[k]})
				}
			}
		}
	})
	return out
}

// onEveryPathPred: no return of f is reachable from its entry avoiding pred.
func onEveryPathPred(f *ssa.Function, pred core.InstrPred) bool {
	res := core.ReachAvoiding(f, nil, core.IsReturn, pred, nil)
	return !res.Found
}

// loopTripBound: for a counted loop the value that bounds its trip count:
// B for `i := 0; i < B; i++` (or <=), and B for `r := B; r > 0; r--`.
func loopTripBound(l *core.Loop) ssa.Value {
	ifi, ok := l.Header.Instrs[len(l.Header.Instrs)-1].(*ssa.If)
	if !ok {
		return nil
	}
	bo, ok := ifi.Cond.(*ssa.BinOp)
	if !ok {
		return nil
	}
	switch bo.Op {
	case token.LSS, token.LEQ:
		return bo.Y
	case token.GTR, token.NEQ:
		if k, isK := core.ConstInt(bo.Y); isK && k == 0 {
			if ph, isPhi := bo.X.(*ssa.Phi); isPhi {
				for i, e := range ph.Edges {
					if !l.Blocks[ph.Block().Preds[i]] {
						return e // the value the counter starts from
					}
				}
			}
		}
	}
	return nil
}

// loopSkipsNone: the counting loop `for i := s; i < n; i++` (or `i <= n`) runs
// n times: it starts at 0 (1 for <=) and steps by one. Loops of another shape
// (no induction phi in the comparison) are not judged (true).
func loopSkipsNone(l *core.Loop) (bool, string) {
	ifi, ok := l.Header.Instrs[len(l.Header.Instrs)-1].(*ssa.If)
	if !ok {
		return true, ""
	}
	bo, ok := ifi.Cond.(*ssa.BinOp)
	if !ok || (bo.Op != token.LSS && bo.Op != token.LEQ) {
		return true, ""
	}
	ph, ok := bo.X.(*ssa.Phi)
	if !ok || ph.Block() != l.Header {
		return true, ""
	}
	want := int64(0)
	if bo.Op == token.LEQ {
		want = 1
	}
	for i, e := range ph.Edges {
		if !l.Blocks[ph.Block().Preds[i]] {
			if k, isK := core.ConstInt(e); !isK || k != want {
				return false, fmt.Sprintf("the counter starts at %s, not %d", desc(e), want)
			}
			continue
		}
		add, isAdd := e.(*ssa.BinOp)
		if !isAdd || add.Op != token.ADD || add.X != ssa.Value(ph) {
			return false, "the counter is not advanced by one per iteration"
		}
		if k, isK := core.ConstInt(add.Y); !isK || k != 1 {
			return false, "the counter is not advanced by one per iteration"
		}
	}
	return true, ""
}

// resultThrough: v is the result of a call to one of keys, directly or as the
// value a helper of the analysed packages returns unchanged (the call moved
// into an extracted helper).
func resultThrough(p *core.Prog, v ssa.Value, depth int, keys ...string) bool {
	if depth > 3 || v == nil {
		return false
	}
	if callResult(v, keys...) != nil {
		return true
	}
	var c *ssa.Call
	idx := 0
	switch x := core.Strip(v).(type) {
	case *ssa.Call:
		c = x
	case *ssa.Extract:
		if cc, ok := x.Tuple.(*ssa.Call); ok {
			c, idx = cc, x.Index
		}
	}
	if c == nil {
		return false
	}
	g := c.Call.StaticCallee()
	if g == nil || !p.InAnalysed(g) || len(g.Blocks) == 0 {
		return false
	}
	found := false
	core.EachInstr(g, func(i ssa.Instruction) {
		if ret, ok := i.(*ssa.Return); ok {
			rv := core.ReturnValues(ret)
			if idx < len(rv) && resultThrough(p, rv[idx], depth+1, keys...) {
				found = true
			}
		}
	})
	return found
}

// peerLookupsDeep: peerLookups of f plus those of the helpers f calls directly.
func peerLookupsDeep(p *core.Prog, f *ssa.Function) []lookupSite {
	out := peerLookups(f)
	core.EachInstr(f, func(i ssa.Instruction) {
		if c, ok := i.(*ssa.Call); ok {
			if g := c.Call.StaticCallee(); g != nil && g != f && p.InAnalysed(g) && len(g.Blocks) > 0 && g.Pkg == f.Pkg {
				if _, isGet := core.IsCall(i, "RootPeerList.Get", "PeerList.Get", "Channel.RootPeers", "Channel.updatePeer", "Peer.connectionCloseStateChange"); isGet {
					return
				}
				for _, ls := range peerLookups(g) {
					ls.Via = c
					// a key that is the helper's parameter stands for the argument of this call
					if prm, isP := ls.Key.(*ssa.Parameter); isP {
						for k, q := range g.Params {
							if q == prm && k < len(c.Call.Args) {
								ls.Key = c.Call.Args[k]
							}
						}
					}
					out = append(out, ls)
				}
			}
		}
	})
	return out
}

// pruneBoolField vetoes the CFG edges that need the boolean field `name` (as
// loaded in the function) to be !val: used for "assuming the option is set"
// path rules.
func pruneBoolField(name string, val bool) func(from, to *ssa.BasicBlock) bool {
	return func(from, to *ssa.BasicBlock) bool {
		if len(from.Instrs) == 0 || len(from.Succs) != 2 || from.Succs[0] == from.Succs[1] {
			return false
		}
		ifi, ok := from.Instrs[len(from.Instrs)-1].(*ssa.If)
		if !ok {
			return false
		}
		cond := ifi.Cond
		pol := true
		for {
			if u, isU := cond.(*ssa.UnOp); isU && u.Op == token.NOT {
				cond = u.X
				pol = !pol
				continue
			}
			break
		}
		fl := core.LoadedField(cond)
		if fl == nil || fl.Name() != name {
			return false
		}
		// the true edge (Succs[0]) needs cond == true, i.e. field == pol
		trueNeeds := pol
		if to == from.Succs[0] {
			return trueNeeds != val
		}
		return trueNeeds == val
	}
}
