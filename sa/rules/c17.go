package rules

import (
	"fmt"
	"go/token"
	"go/types"
	"sort"
	"strings"

	"golang.org/x/tools/go/ssa"

	"verif/sa/core"
	"verif/sa/spec"
)

func init() { Registry["C17"] = c17 }

func c17(p *core.Prog, r *core.Report) {
	r.Explain = "Decides: (R1) the complete decision table of RetryOn.CanRetry over {policy} x {error code class}, extracted from its CFG (not executed), equals the table written from the property statement; getErrCode maps net.Error to the network code; (R2) every invocation of the retriable function in RunWithRetry lies in one counted loop i=0; i<MaxAttempts; i++ with exactly one invocation and one Attempt increment per iteration, and a zero MaxAttempts is replaced by the default 5; (R3) the loop's exits: nil on success, the error itself when the policy refuses, the last error at exhaustion, and the back edge only under CanRetry(err); (R4) Peer.BeginCall records the peer in the request state before validation and SubChannel.BeginCall passes the previously selected peers to selection. (R5) The caller's RetryOptions reach the attempt loop unchanged (builder setters, Build, accessor, loop). The library's retry closures start each attempt with that attempt's RequestState in the call options. Retry closures use the attempt's context. (R6) a context's raw error never reaches the retry policy (shared with C20-R3). The loop rules follow an attempt delegated to a helper that invokes the function exactly once and a CanRetry decision wrapped in a helper."
	r.NotDecided = "per-attempt timeout values; that peer selection actually avoids the recorded peers (C15); behaviour of the caller-supplied function."
	r.Rule("C17-R1", "E1 decision table", 60, "CanRetry decision table equals the specified policy table")
	r.Rule("C17-R2", "E6 loop shape", 5, "attempt budget: one counted loop, one call and one Attempt++ per iteration, default 5")
	r.Rule("C17-R3", "E6 guards", 4, "stop conditions of the attempt loop")
	r.Rule("C17-R4", "E6 provenance", 3, "request state records tried peers; sub-channel selection receives them")
	c17Table(p, r)
	c17Loop(p, r)
	c17State(p, r)
	r.Rule("C17-R5", "E6 provenance", 5, "the caller's retry options reach the attempt loop unchanged")
	// the policy table is applied to the code the error carries: a context's
	// raw error (a net.Error: "network", retried by default) must have been
	// converted to timeout / cancelled before it can reach CanRetry (shared with C20-R3)
	r.Rule("C17-R6", "E6 provenance", 1, "context errors reach the retry policy as timeout / cancelled, never raw (shared with C20)")
	c20ContextErrors(p, r, "C17-R6")
	c17Options(p, r)
}

// c17Options: the policy and budget the caller set are the ones RunWithRetry
// applies: SetRetryOptions stores its argument; SetTimeoutPerAttempt writes
// only the TimeoutPerAttempt field and creates an options object only when
// there is none (replacing an existing object would drop RetryOn /
// MaxAttempts); Build hands the builder's options to the context; the
// accessor returns the context's object, touching only a zero MaxAttempts.
func c17Options(p *core.Prog, r *core.Report) {
	cbF := p.Field("", "ContextBuilder", "RetryOptions")
	if cbF == nil {
		r.Errorf("ContextBuilder.RetryOptions does not resolve")
		return
	}
	if f := mustFunc(p, r, "", "ContextBuilder", "SetRetryOptions"); f != nil {
		ok := false
		core.EachInstr(f, func(i ssa.Instruction) {
			if st, isSt := i.(*ssa.Store); isSt && core.AddrField(st.Addr) == cbF && st.Val == ssa.Value(f.Params[1]) {
				ok = true
			}
		})
		r.Check(ok, "C17-R5", fname(f), "stores the caller's options object", p.Pos(f.Pos()), "cb.RetryOptions = retryOptions", "the options given by the caller are not the ones kept")
	}
	if f := mustFunc(p, r, "", "ContextBuilder", "SetTimeoutPerAttempt"); f != nil {
		okRepl, okFld := true, false
		how := ""
		core.EachInstr(f, func(i ssa.Instruction) {
			st, isSt := i.(*ssa.Store)
			if !isSt {
				return
			}
			if core.AddrField(st.Addr) == cbF {
				// replacing the object: only when there was none
				if !factsAt(st.Block()).nilCmp(func(v ssa.Value) bool { return core.LoadedField(v) == cbF }, true) {
					okRepl = false
					how = "the options object is replaced although one exists: the retry policy (RetryOn) and budget set earlier are lost"
				}
				return
			}
			if fl := core.AddrField(st.Addr); fl != nil && fl.Name() == "TimeoutPerAttempt" {
				if fa := st.Addr.(*ssa.FieldAddr); core.LoadedField(fa.X) == cbF && st.Val == ssa.Value(f.Params[1]) {
					okFld = true
				}
				return
			}
			if fl := core.AddrField(st.Addr); fl != nil && (fl.Name() == "RetryOn" || fl.Name() == "MaxAttempts") {
				okRepl = false
				how = "SetTimeoutPerAttempt writes " + fl.Name()
			}
		})
		if how == "" && !okFld {
			how = "TimeoutPerAttempt of the builder's options object is not set from the argument"
		}
		r.Check(okRepl && okFld, "C17-R5", fname(f), "sets only TimeoutPerAttempt; creates the options only when nil", p.Pos(f.Pos()), "store to cb.RetryOptions guarded by == nil; field store from the parameter", how)
	}
	if f := mustFunc(p, r, "", "ContextBuilder", "Build"); f != nil {
		ok := false
		core.EachInstr(f, func(i ssa.Instruction) {
			if st, isSt := i.(*ssa.Store); isSt {
				if fl := core.AddrField(st.Addr); fl != nil && fl.Name() == "retryOptions" && core.LoadedField(st.Val) == cbF {
					ok = true
				}
			}
		})
		r.Check(ok, "C17-R5", fname(f), "params.retryOptions = cb.RetryOptions", p.Pos(f.Pos()), "the builder's object is put in the context", "the context does not carry the builder's retry options")
	}
	if f := mustFunc(p, r, "", "", "getRetryOptions"); f != nil {
		ok, n := true, 0
		how := ""
		core.EachInstr(f, func(i ssa.Instruction) {
			switch x := i.(type) {
			case *ssa.Return:
				n++
				v := x.Results[0]
				fl := core.LoadedField(v)
				g, isG := loadOfGlobal(v)
				if !(fl != nil && fl.Name() == "retryOptions") && !(isG && g == "defaultRetryOptions") {
					ok, how = false, "returns something other than the context's options or the default"
				}
			case *ssa.Store:
				if fl := core.AddrField(x.Addr); fl != nil && fl.Name() != "MaxAttempts" {
					ok, how = false, "the accessor modifies "+fl.Name()
				}
			}
		})
		r.Check(ok && n > 0, "C17-R5", fname(f), "returns the context's options (default when absent), fixing only a zero MaxAttempts", p.Pos(f.Pos()), "returns params.retryOptions / defaultRetryOptions", how)
	}
	if f := mustFunc(p, r, "", "Channel", "RunWithRetry"); f != nil {
		ok := false
		for _, c := range p.CallsDeep(f, 1, "RetryOn.CanRetry") {
			recv := core.CallArgs(c)[0]
			if fl := core.LoadedField(recv); fl != nil && fl.Name() == "RetryOn" {
				if fa, isFA := recv.(*ssa.UnOp).X.(*ssa.FieldAddr); isFA && callResult(throughParam(fa.X, f), "getRetryOptions") != nil {
					ok = true
				}
			}
		}
		r.Check(ok, "C17-R5", fname(f), "policy applied = getRetryOptions(ctx).RetryOn", p.Pos(f.Pos()), "CanRetry receiver is the RetryOn of the context's options", "the attempt loop applies a policy that is not the one in the context's options")
	}
}

func loadOfGlobal(v ssa.Value) (string, bool) {
	if u, ok := v.(*ssa.UnOp); ok && u.Op == token.MUL {
		if g, isG := u.X.(*ssa.Global); isG {
			return g.Name(), true
		}
	}
	return "", false
}

func c17Table(p *core.Prog, r *core.Report) {
	f := mustFunc(p, r, "", "RetryOn", "CanRetry")
	if f == nil {
		return
	}
	dr := p.NewDomain("", "RetryOn")
	dc := p.NewDomain("", "SystemErrCode")
	cells := []core.TableCell{
		{Name: "policy", D: dr, Match: func(v ssa.Value) bool { return v == f.Params[0] }},
		{Name: "code", D: dc, Match: func(v ssa.Value) bool { return callResult(v, "getErrCode") != nil }},
	}
	rows, err := core.DecisionTable(f, cells, desc)
	if err != nil {
		r.Undecided("C17-R1", fname(f), "decision table", p.Pos(f.Pos()), "cannot extract the decision table: "+err.Error())
		return
	}
	// expand to cells
	type key struct{ pol, code int }
	table := map[key]string{}
	for _, row := range rows {
		for pb := 0; pb < dr.N(); pb++ {
			if row.Sets[0]&(1<<uint(pb)) == 0 {
				continue
			}
			for cb := 0; cb < dc.N(); cb++ {
				if row.Sets[1]&(1<<uint(cb)) == 0 {
					continue
				}
				k := key{pb, cb}
				if old, ok := table[k]; ok && old != row.Result {
					r.Undecided("C17-R1", fname(f), fmt.Sprintf("cell(%s,%s)", dr.String(1<<uint(pb)), dc.String(1<<uint(cb))), p.Pos(f.Pos()), "two paths label the same cell differently")
				}
				table[k] = row.Result
			}
		}
	}
	// compare with the spec for every declared policy and every code bucket
	for _, pv := range dr.Vals {
		pname := dr.Names[pv]
		pb := bucketIndex(dr, pv)
		for cb := 0; cb < dc.N(); cb++ {
			lo, hi, ok := dc.Range(cb)
			if !ok {
				continue
			}
			cname := ""
			if cb%2 == 1 {
				cname = dc.Names[lo]
			} else {
				cname = fmt.Sprintf("other[%#x..%#x]", lo, hi)
			}
			want := spec.CanRetry(pname, cname)
			got, have := table[key{pb, cb}]
			construct := fmt.Sprintf("CanRetry(%s, %s)", pname, cname)
			if !have {
				r.Fail("C17-R1", fname(f), construct, p.Pos(f.Pos()), "no path covers this cell")
				continue
			}
			r.Check(got == fmt.Sprint(want), "C17-R1", fname(f), construct, p.Pos(f.Pos()),
				"= "+got+" as specified", fmt.Sprintf("code says %s, the documented policy says %v", got, want))
		}
	}
	// getErrCode: result is ErrCodeNetwork on the isNetError arm, GetSystemErrorCode otherwise
	g := mustFunc(p, r, "", "", "getErrCode")
	if g == nil {
		return
	}
	okNet := false
	okSys := false
	core.EachInstr(g, func(i ssa.Instruction) {
		ret, isRet := i.(*ssa.Return)
		if !isRet || len(ret.Results) != 1 {
			return
		}
		phi, isPhi := core.ReturnValues(ret)[0].(*ssa.Phi)
		if !isPhi {
			return
		}
		for k, e := range phi.Edges {
			pred := phi.Block().Preds[k]
			fs := factsAt(pred).add(edgeFacts(pred, phi.Block()))
			if kv, isK := core.ConstInt(e); isK && dc.Of(kv) == dc.OfName("ErrCodeNetwork") {
				if fs.hasBool(func(v ssa.Value) bool { return callResult(v, "isNetError") != nil }, true) {
					okNet = true
				}
			} else if callResult(e, "GetSystemErrorCode") != nil {
				if fs.hasBool(func(v ssa.Value) bool { return callResult(v, "isNetError") != nil }, false) {
					okSys = true
				}
			}
		}
	})
	r.Check(okNet && okSys, "C17-R1", fname(g), "net.Error -> ErrCodeNetwork else GetSystemErrorCode(err)", p.Pos(g.Pos()),
		"result is the network code exactly on the isNetError arm", fmt.Sprintf("netArm=%v sysArm=%v", okNet, okSys))
	if n := mustFunc(p, r, "", "", "isNetError"); n != nil {
		// type assertion to net.Error, result is its ok flag
		found := false
		core.EachInstr(n, func(i ssa.Instruction) {
			if ta, ok := i.(*ssa.TypeAssert); ok && ta.CommaOk && strings.HasSuffix(ta.AssertedType.String(), "net.Error") {
				found = true
			}
		})
		r.Check(found, "C17-R1", fname(n), "err.(net.Error)", p.Pos(n.Pos()), "tests for net.Error", "no net.Error type test")
	}
}

func bucketIndex(d *core.Domain, v int64) int {
	for i, x := range d.Vals {
		if x == v {
			return 1 + 2*i
		}
	}
	return -1
}

func c17Loop(p *core.Prog, r *core.Report) {
	f := mustFunc(p, r, "", "Channel", "RunWithRetry")
	if f == nil {
		return
	}
	fn := fname(f)
	maxF := mustField(p, r, "", "RetryOptions", "MaxAttempts")
	attF := mustField(p, r, "", "RequestState", "Attempt")
	if maxF == nil || attF == nil {
		return
	}
	// calls of the RetriableFunc parameter
	var fparam *ssa.Parameter
	for _, prm := range f.Params {
		if strings.HasSuffix(prm.Type().String(), "RetriableFunc") {
			fparam = prm
		}
	}
	if fparam == nil {
		r.Errorf("RunWithRetry: RetriableFunc parameter not found")
		return
	}
	// an invocation is a direct call of the parameter, or a call of a helper
	// that is handed the function and invokes it exactly once on every path,
	// returning its result
	var calls []*ssa.Call
	callSet := map[ssa.Instruction]bool{}
	core.EachInstr(f, func(i ssa.Instruction) {
		c, ok := i.(*ssa.Call)
		if !ok {
			return
		}
		if c.Call.Value == fparam {
			calls = append(calls, c)
			callSet[c] = true
			return
		}
		g := c.Call.StaticCallee()
		if g == nil || g.Blocks == nil || !p.InAnalysed(g) {
			return
		}
		for k, a := range c.Call.Args {
			if a == ssa.Value(fparam) && k < len(g.Params) {
				if !invokesOnceAndReturns(g, g.Params[k]) {
					r.Fail("C17-R2", fname(f), "helper "+g.Name()+" invokes the retriable function exactly once and returns its error", p.Pos(c.Pos()),
						"the helper the attempt is delegated to can invoke the function zero times or more than once per call, or does not return its error: attempts are no longer counted by the loop")
				}
				calls = append(calls, c)
				callSet[c] = true
			}
		}
	})
	isFCall := func(i ssa.Instruction) bool { return callSet[i] }
	if len(calls) == 0 {
		r.Errorf("RunWithRetry: no invocation of the retriable function")
		return
	}
	// the function value must not escape to anything else
	for _, ref := range *fparam.Referrers() {
		if _, ok := ref.(*ssa.DebugRef); ok {
			continue
		}
		if !isFCall(ref) {
			r.Fail("C17-R2", fn, "retriable function used other than by direct call", p.Pos(ref.Pos()), "the function value escapes: invocations can no longer be counted")
		}
	}
	// loop header: If(i < load MaxAttempts) with i = phi[0, i+1]
	var header *ssa.BasicBlock
	var ivar *ssa.Phi
	for _, b := range f.Blocks {
		ifi, ok := b.Instrs[len(b.Instrs)-1].(*ssa.If)
		if !ok {
			continue
		}
		bo, ok := ifi.Cond.(*ssa.BinOp)
		if !ok || bo.Op != token.LSS {
			continue
		}
		phi, ok := bo.X.(*ssa.Phi)
		if !ok || core.LoadedField(bo.Y) != maxF {
			continue
		}
		if phi.Block() != b || len(phi.Edges) != 2 {
			continue
		}
		zero, inc := false, false
		for _, e := range phi.Edges {
			if k, isK := core.ConstInt(e); isK && k == 0 {
				zero = true
			}
			if add, isAdd := e.(*ssa.BinOp); isAdd && add.Op == token.ADD && add.X == phi {
				if k, isK := core.ConstInt(add.Y); isK && k == 1 {
					inc = true
				}
			}
		}
		if zero && inc {
			header, ivar = b, phi
		}
	}
	if header == nil {
		r.Fail("C17-R2", fn, "counted loop i=0; i<MaxAttempts; i++", p.Pos(f.Pos()), "no loop of that shape: the attempt budget is not visibly enforced")
		return
	}
	_ = ivar
	r.Ok("C17-R2", fn, "counted loop i=0; i<MaxAttempts; i++", p.Pos(header.Instrs[len(header.Instrs)-1].Pos()), "loop header compares an induction variable 0,+1 with opts.MaxAttempts (strict <)")
	body := header.Succs[0]
	inLoop := func(b *ssa.BasicBlock) bool { return body.Dominates(b) }
	for k, c := range calls {
		r.Check(inLoop(c.Block()), "C17-R2", fn, fmt.Sprintf("invocation #%d of the retriable function inside the counted loop", k+1), p.Pos(c.Pos()),
			"dominated by the loop's true edge", "invocation outside the counted loop")
	}
	// MaxAttempts not written in RunWithRetry
	wr := false
	core.EachInstr(f, func(i ssa.Instruction) {
		if st, ok := i.(*ssa.Store); ok && core.AddrField(st.Addr) == maxF {
			wr = true
		}
	})
	r.Check(!wr, "C17-R2", fn, "MaxAttempts not written during the loop", "-", "no store to MaxAttempts in RunWithRetry", "MaxAttempts is modified inside RunWithRetry")

	isHeader := func(i ssa.Instruction) bool { return i.Block() == header }
	first := body.Instrs[0]
	startOf := func() core.PathResult {
		// path from loop body entry to header/return avoiding any f call
		if isFCall(first) {
			return core.PathResult{}
		}
		return core.ReachAvoiding(f, first, func(i ssa.Instruction) bool { return isHeader(i) || core.IsReturn(i) }, isFCall, nil)
	}()
	r.Check(!startOf.Found, "C17-R2", fn, "every iteration invokes the function (>=1)", p.Pos(first.Pos()),
		"no path from the loop body entry to the next iteration or a return avoids the invocation", "an iteration can complete without invoking the function: "+p.TrailString(startOf))
	twice := false
	for _, c := range calls {
		res := core.ReachAvoiding(f, c, isFCall, isHeader, nil)
		if res.Found {
			twice = true
		}
	}
	r.Check(!twice, "C17-R2", fn, "every iteration invokes the function (<=1)", p.Pos(first.Pos()),
		"no path leads from one invocation to another without passing the loop header", "two invocations in one iteration")
	// Attempt++ exactly once before the call
	isAttInc := func(i ssa.Instruction) bool {
		st, ok := i.(*ssa.Store)
		if !ok || core.AddrField(st.Addr) != attF {
			return false
		}
		add, ok := st.Val.(*ssa.BinOp)
		if !ok || add.Op != token.ADD {
			return false
		}
		k, isK := core.ConstInt(add.Y)
		return isK && k == 1 && core.LoadedField(add.X) == attF
	}
	var res core.PathResult
	if !isAttInc(first) {
		res = core.ReachAvoiding(f, first, isFCall, isAttInc, nil)
		// the search starts after `first`; account for first itself not being the increment
	}
	r.Check(!res.Found, "C17-R2", fn, "Attempt++ precedes the invocation in every iteration", p.Pos(first.Pos()),
		"every path from the loop body entry to an invocation passes rs.Attempt++", "an invocation is reachable without incrementing Attempt")
	dbl := false
	core.EachInstr(f, func(i ssa.Instruction) {
		if isAttInc(i) {
			if core.ReachAvoiding(f, i, isAttInc, isHeader, nil).Found {
				dbl = true
			}
			if !inLoop(i.Block()) {
				dbl = true
			}
		}
	})
	r.Check(!dbl, "C17-R2", fn, "Attempt incremented at most once per iteration", p.Pos(first.Pos()), "single increment per iteration", "Attempt incremented twice or outside the loop")

	// what an attempt sees of the budget: RetryCount is Attempt - 1, and more
	// retries are left only while Attempt < MaxAttempts and the policy allows one
	if g := mustFunc(p, r, "", "RequestState", "RetryCount"); g != nil {
		attempt := p.Field("", "RequestState", "Attempt")
		ok := false
		core.EachInstr(g, func(i ssa.Instruction) {
			if ret, isRet := i.(*ssa.Return); isRet && len(ret.Results) == 1 {
				if bo, isBo := core.ReturnValues(ret)[0].(*ssa.BinOp); isBo && bo.Op == token.SUB && core.LoadedField(bo.X) == attempt {
					if k, isK := core.ConstInt(bo.Y); isK && k == 1 {
						ok = true
					}
				}
			}
		})
		r.Check(ok, "C17-R2", fname(g), "RetryCount = Attempt - 1", p.Pos(g.Pos()), "returned for a non-nil state", "the retry count an attempt sees is not its attempt number minus one")
	}
	if g := mustFunc(p, r, "", "RequestState", "HasRetries"); g != nil {
		attempt := p.Field("", "RequestState", "Attempt")
		lss, can := false, len(core.CallsIn(g, "RetryOn.CanRetry")) > 0
		core.EachInstr(g, func(i ssa.Instruction) {
			if bo, isBo := i.(*ssa.BinOp); isBo {
				if bo.Op == token.LSS && core.LoadedField(bo.X) == attempt && core.LoadedField(bo.Y) == maxF || bo.Op == token.GTR && core.LoadedField(bo.Y) == attempt && core.LoadedField(bo.X) == maxF {
					lss = true
				}
			}
		})
		r.Check(lss && can, "C17-R2", fname(g), "HasRetries = Attempt < MaxAttempts && CanRetry(err)", p.Pos(g.Pos()), "strict comparison with the budget and the policy predicate", "retries are reported as left after the last attempt of the budget (or the policy is not consulted)")
	}
	// default attempts
	if g := mustFunc(p, r, "", "", "getRetryOptions"); g != nil {
		okDef := false
		core.EachInstr(g, func(i ssa.Instruction) {
			st, ok := i.(*ssa.Store)
			if !ok || core.AddrField(st.Addr) != maxF {
				return
			}
			fs := factsAt(st.Block())
			guard := fs.hasCmp(func(v ssa.Value) bool { return core.LoadedField(v) == maxF }, []token.Token{token.EQL}, 0)
			// value: load of defaultRetryOptions.MaxAttempts
			src := core.LoadedField(st.Val) == maxF
			if guard && src {
				okDef = true
			}
		})
		r.Check(okDef, "C17-R2", fname(g), "MaxAttempts==0 replaced by defaultRetryOptions.MaxAttempts", p.Pos(g.Pos()),
			"zero is replaced under the ==0 guard", "zero MaxAttempts is not replaced by the default")
		// the default literal is 5
		okFive := false
		for _, pk := range p.Pkgs {
			if pk.PkgPath != core.Root {
				continue
			}
			sp := p.SSA.Package(pk.Types)
			if initF := sp.Func("init"); initF != nil {
				core.EachInstr(initF, func(i ssa.Instruction) {
					st, ok := i.(*ssa.Store)
					if !ok || core.AddrField(st.Addr) != maxF {
						return
					}
					if k, isK := core.ConstInt(st.Val); isK && k == 5 {
						okFive = true
					}
				})
			}
		}
		r.Check(okFive, "C17-R2", "package init", "defaultRetryOptions.MaxAttempts = 5", "-", "default is 5", "default attempts is not 5")
	}

	// R3 stop conditions
	isErrVal := func(v ssa.Value) bool { return errFromCalls(v, calls, map[ssa.Value]bool{}) }
	isCanRetry := func(v ssa.Value) bool {
		if callResult(v, "RetryOn.CanRetry") != nil {
			return true
		}
		// a helper whose boolean result is CanRetry's on every return
		if c, ok := v.(*ssa.Call); ok {
			if g := c.Call.StaticCallee(); g != nil && g.Blocks != nil && p.InAnalysed(g) && returnsCanRetry(g) {
				return true
			}
		}
		return false
	}
	nRet := 0
	core.EachInstr(f, func(i ssa.Instruction) {
		ret, ok := i.(*ssa.Return)
		if !ok || len(ret.Results) != 1 {
			return
		}
		if core.IsRecoverBlock(i.Block()) {
			return
		}
		nRet++
		fs := factsAt(i.Block())
		rv := core.ReturnValues(ret)[0]
		pos := p.Pos(i.Pos())
		switch {
		case inLoop(i.Block()) && core.IsNilConst(rv):
			r.Check(fs.nilCmp(isErrVal, true), "C17-R3", fn, "return nil inside the loop", pos, "guarded by err == nil of the invocation result", "nil returned without err == nil")
		case inLoop(i.Block()):
			okv := isErrVal(rv) && fs.hasBool(isCanRetry, false) && fs.nilCmp(isErrVal, false)
			r.Check(okv, "C17-R3", fn, "return err inside the loop", pos, "returns the invocation's error under !CanRetry(err)", "early return is not the invocation error under !CanRetry(err)")
		default:
			r.Check(isErrVal(rv), "C17-R3", fn, "return after the loop", pos, "returns the last invocation error", "fall-through does not return the last error (value: "+desc(rv)+")")
		}
	})
	// back edge guarded by CanRetry true
	for _, pred := range header.Preds {
		if !inLoop(pred) {
			continue
		}
		fs := factsAt(pred)
		okb := fs.hasBool(isCanRetry, true) && fs.nilCmp(isErrVal, false)
		r.Check(okb, "C17-R3", fn, "next attempt only under err != nil && CanRetry(err)", p.Pos(pred.Instrs[0].Pos()), "back edge guarded", "loop continues without CanRetry(err)")
	}
	// CanRetry receives the invocation's error and the options' policy
	for _, c := range p.CallsDeep(f, 1, "RetryOn.CanRetry") {
		args := core.CallArgs(c)
		okc := len(args) == 2 && isErrVal(throughParam(args[1], f)) && core.LoadedField(args[0]) != nil && core.LoadedField(args[0]).Name() == "RetryOn"
		r.Check(okc, "C17-R3", fn, "CanRetry(opts.RetryOn, err)", p.Pos(c.Pos()), "policy from the options, error from the invocation", "CanRetry not applied to the invocation error / options policy")
	}
}

// throughParam: a parameter of a helper that `in` calls at exactly one site
// stands for the argument passed there.
func throughParam(v ssa.Value, in *ssa.Function) ssa.Value {
	prm, ok := v.(*ssa.Parameter)
	if !ok || prm.Parent() == in {
		return v
	}
	g := prm.Parent()
	idx := -1
	for k, q := range g.Params {
		if q == prm {
			idx = k
		}
	}
	var arg ssa.Value
	n := 0
	for _, h := range core.WithAnon(in) {
		core.EachInstr(h, func(i ssa.Instruction) {
			if c, isC := i.(ssa.CallInstruction); isC && c.Common().StaticCallee() == g && idx >= 0 && idx < len(c.Common().Args) {
				arg = c.Common().Args[idx]
				n++
			}
		})
	}
	if n == 1 {
		return arg
	}
	return v
}

// invokesOnceAndReturns: g calls its function parameter q exactly once on
// every path (never zero times, never twice), uses it for nothing else and
// returns that call's error.
func invokesOnceAndReturns(g *ssa.Function, q *ssa.Parameter) bool {
	var qcalls []*ssa.Call
	isQ := func(i ssa.Instruction) bool {
		c, ok := i.(*ssa.Call)
		return ok && c.Call.Value == ssa.Value(q)
	}
	for _, ref := range *q.Referrers() {
		if _, isDbg := ref.(*ssa.DebugRef); isDbg {
			continue
		}
		if !isQ(ref) {
			return false
		}
		qcalls = append(qcalls, ref.(*ssa.Call))
	}
	if len(qcalls) == 0 || core.ReachAvoiding(g, nil, core.IsReturn, isQ, nil).Found {
		return false
	}
	for _, c := range qcalls {
		if core.ReachAvoiding(g, c, isQ, nil, nil).Found {
			return false
		}
	}
	ok := true
	core.EachInstr(g, func(i ssa.Instruction) {
		if ret, isRet := i.(*ssa.Return); isRet && !core.IsRecoverBlock(i.Block()) {
			rv := core.ReturnValues(ret)
			if len(rv) != 1 || !errFromCalls(rv[0], qcalls, map[ssa.Value]bool{}) {
				ok = false
			}
		}
	})
	return ok
}

// returnsCanRetry: every return of g is CanRetry's result: the call's value
// itself, or a boolean constant on the arm where CanRetry had that value.
func returnsCanRetry(g *ssa.Function) bool {
	isCR := func(v ssa.Value) bool { return callResult(v, "RetryOn.CanRetry") != nil }
	n, ok := 0, true
	core.EachInstr(g, func(i ssa.Instruction) {
		ret, isRet := i.(*ssa.Return)
		if !isRet || core.IsRecoverBlock(i.Block()) {
			return
		}
		rv := core.ReturnValues(ret)
		if len(rv) != 1 {
			ok = false
			return
		}
		n++
		var okv func(v ssa.Value, fs facts, d int) bool
		okv = func(v ssa.Value, fs facts, d int) bool {
			if d > 4 {
				return false
			}
			if isCR(v) {
				return true
			}
			if b, isC := core.ConstBool(v); isC {
				return fs.hasBool(isCR, b)
			}
			if ph, isPhi := v.(*ssa.Phi); isPhi {
				for k, e := range ph.Edges {
					pred := ph.Block().Preds[k]
					if !okv(e, factsAt(pred).add(edgeFacts(pred, ph.Block())), d+1) {
						return false
					}
				}
				return true
			}
			return false
		}
		if !okv(rv[0], factsAt(ret.Block()), 0) {
			ok = false
		}
	})
	return ok && n > 0
}

// errFromCalls: v is the result of one of the calls, or a phi of such results (and nil).
func errFromCalls(v ssa.Value, calls []*ssa.Call, seen map[ssa.Value]bool) bool {
	if seen[v] {
		return true
	}
	seen[v] = true
	for _, c := range calls {
		if v == ssa.Value(c) {
			return true
		}
	}
	if phi, ok := v.(*ssa.Phi); ok {
		any := false
		for _, e := range phi.Edges {
			if core.IsNilConst(e) {
				continue
			}
			if !errFromCalls(e, calls, seen) {
				return false
			}
			any = true
		}
		return any
	}
	return false
}

// retryClosures lists the closures handed to Channel.RunWithRetry in the analysed packages.
// attemptFn is the function RunWithRetry runs once per attempt: a closure, or
// a method value of a small struct that carries what the closure would have
// captured (then Recv is the method's receiver and the per-call state lives in
// its fields instead of captured cells).
type attemptFn struct {
	Fn   *ssa.Function
	Ctx  *ssa.Parameter // the attempt's context
	RS   *ssa.Parameter // the attempt's RequestState
	Recv *ssa.Parameter // receiver of a method value; nil for a closure
	Site core.CallSite
	MC   *ssa.MakeClosure
}

func retryAttempts(p *core.Prog) []attemptFn {
	var out []attemptFn
	for _, cs := range p.CallsTo("Channel.RunWithRetry") {
		if !p.InAnalysed(cs.Fn) {
			continue
		}
		args := core.CallArgs(cs.Call)
		fnArg := args[len(args)-1]
		if ct, isCT := fnArg.(*ssa.ChangeType); isCT {
			fnArg = ct.X
		}
		mc, ok := fnArg.(*ssa.MakeClosure)
		if !ok {
			continue
		}
		fn := mc.Fn.(*ssa.Function)
		at := attemptFn{Fn: fn, Site: cs, MC: mc}
		if strings.HasPrefix(fn.Synthetic, "bound method wrapper") {
			if obj, isFn := fn.Object().(*types.Func); isFn {
				if real := p.SSA.FuncValue(obj); real != nil && real.Blocks != nil && len(real.Params) == 3 {
					at.Fn, at.Recv, at.Ctx, at.RS = real, real.Params[0], real.Params[1], real.Params[2]
					out = append(out, at)
				}
			}
			continue
		}
		if len(fn.Params) == 2 {
			at.Ctx, at.RS = fn.Params[0], fn.Params[1]
		}
		out = append(out, at)
	}
	return out
}

func retryClosures(p *core.Prog) []*ssa.Function {
	var out []*ssa.Function
	for _, a := range retryAttempts(p) {
		out = append(out, a.Fn)
	}
	return out
}

// retryClosureUsesAttemptCtx: inside a retry closure every context handed to
// the call machinery is the attempt's own context (the closure's first
// parameter, bounded by TimeoutPerAttempt), never the overall context captured
// from the enclosing function: otherwise the ttl sent, the handler's deadline
// and the caller's wait are those of the whole request and a stalled peer eats
// the complete budget.
func retryClosureUsesAttemptCtx(p *core.Prog, r *core.Report, rule string) {
	for _, at := range retryAttempts(p) {
		cl := at.Fn
		if at.Ctx == nil {
			continue
		}
		how := ""
		core.EachInstr(cl, func(i ssa.Instruction) {
			c, ok := i.(ssa.CallInstruction)
			if !ok || how != "" {
				return
			}
			for _, a := range core.CallArgs(c) {
				t := a.Type().String()
				if !strings.HasSuffix(t, "context.Context") && !strings.HasSuffix(t, ".Context") && !strings.HasSuffix(t, "ContextWithHeaders") {
					continue
				}
				v := core.Strip(a)
				for d := 0; d < 4; d++ {
					switch x := v.(type) {
					case *ssa.ChangeInterface:
						v = x.X
						continue
					case *ssa.MakeInterface:
						v = x.X
						continue
					}
					break
				}
				if u, isU := v.(*ssa.UnOp); isU {
					if _, isFV := u.X.(*ssa.FreeVar); isFV {
						how = "the context given to " + calleeShort(c) + " is the enclosing function's (overall) context, not the attempt's"
					}
				}
				if _, isFV := v.(*ssa.FreeVar); isFV {
					how = "the context given to " + calleeShort(c) + " is the enclosing function's (overall) context, not the attempt's"
				}
				// a method value: the overall context kept in a field of the receiver
				if u, isU := v.(*ssa.UnOp); isU && at.Recv != nil {
					if fa, isFA := u.X.(*ssa.FieldAddr); isFA && fa.X == ssa.Value(at.Recv) {
						how = "the context given to " + calleeShort(c) + " is the overall context kept in the receiver, not the attempt's"
					}
				}
			}
		})
		r.Check(how == "", rule, fname(cl), "calls inside the attempt use the attempt's context", p.Pos(cl.Pos()), "no captured outer context reaches a call", how)
	}
}

func c17State(p *core.Prog, r *core.Report) {
	retryClosureUsesAttemptCtx(p, r, "C17-R4")
	// every attempt of the library's own retrying clients starts its call with
	// the attempt's RequestState in the call options (that is how the peers
	// already tried reach peer selection)
	for _, at := range retryAttempts(p) {
		cl := at.Fn
		ok := false
		if at.RS != nil {
			core.EachInstr(cl, func(i ssa.Instruction) {
				if st, isSt := i.(*ssa.Store); isSt {
					if fl := core.AddrField(st.Addr); fl != nil && fl.Name() == "RequestState" && st.Val == ssa.Value(at.RS) {
						ok = true
					}
				}
			})
		}
		r.Check(ok, "C17-R4", fname(cl), "the attempt's RequestState is passed in the call options", p.Pos(cl.Pos()), "CallOptions.RequestState = rs inside the retry closure", "the call of an attempt is started without the attempt's RequestState: tried peers are neither recorded nor avoided")
	}
	if f := mustFunc(p, r, "", "Peer", "BeginCall"); f != nil {
		adds := core.CallsIn(f, "RequestState.AddSelectedPeer")
		vals := core.CallsIn(f, "validateCall")
		ok := len(adds) == 1 && len(vals) == 1 && before(adds[0], vals[0]) && adds[0].Block() == f.Blocks[0] || (len(adds) == 1 && len(vals) == 1 && adds[0].Block().Dominates(vals[0].Block()) && before(adds[0], vals[0]))
		arg := false
		if len(adds) == 1 {
			a := core.CallArgs(adds[0])
			arg = len(a) == 2 && (callResult(a[1], "Peer.HostPort") != nil || (core.LoadedField(a[1]) != nil && core.LoadedField(a[1]).Name() == "hostPort"))
		}
		pos := "-"
		if len(adds) > 0 {
			pos = p.Pos(adds[0].Pos())
		}
		r.Check(ok && arg, "C17-R4", fname(f), "AddSelectedPeer(p.HostPort()) before validateCall", pos, "the peer is recorded on every path, before any early return", "peer not recorded before validation")
	}
	if f := mustFunc(p, r, "", "RequestState", "AddSelectedPeer"); f != nil {
		// records both hostPort and getHost(hostPort)
		sel := mustField(p, r, "", "RequestState", "SelectedPeers")
		// both branches (fresh map literal, existing map) must store both keys
		groups := map[string]map[string]bool{"fresh map": {}, "existing map": {}}
		core.EachInstr(f, func(i ssa.Instruction) {
			if mu, ok := i.(*ssa.MapUpdate); ok {
				if core.LoadedField(mu.Map) == sel {
					groups["existing map"][desc(mu.Key)] = true
				} else if isMakeMap(mu.Map) {
					groups["fresh map"][desc(mu.Key)] = true
				}
			}
		})
		for _, g := range []string{"existing map", "fresh map"} {
			keys := groups[g]
			var ks []string
			for k := range keys {
				ks = append(ks, k)
			}
			sort.Strings(ks)
			ok := keys["hostPort"] && keys["getHost(hostPort)"]
			r.Check(ok, "C17-R4", fname(f), "records host:port and host ("+g+")", p.Pos(f.Pos()), "keys stored: "+strings.Join(ks, ", "), "keys stored: "+strings.Join(ks, ", "))
		}
	}
	if f := mustFunc(p, r, "", "SubChannel", "BeginCall"); f != nil {
		gets := core.CallsIn(f, "PeerList.Get")
		ok := false
		pos := "-"
		for _, g := range gets {
			a := core.CallArgs(g)
			pos = p.Pos(g.Pos())
			if len(a) == 2 && callResult(a[1], "RequestState.PrevSelectedPeers") != nil {
				ok = true
			}
		}
		r.Check(ok && len(gets) == 1, "C17-R4", fname(f), "peers.Get(RequestState.PrevSelectedPeers())", pos, "selection receives the previously selected peers", "selection does not receive the previously selected peers")
	}
	if f := mustFunc(p, r, "", "RequestState", "PrevSelectedPeers"); f != nil {
		sel := p.Field("", "RequestState", "SelectedPeers")
		ok := false
		core.EachInstr(f, func(i ssa.Instruction) {
			if ret, isRet := i.(*ssa.Return); isRet && len(ret.Results) == 1 && core.LoadedField(core.ReturnValues(ret)[0]) == sel {
				ok = true
			}
		})
		r.Check(ok, "C17-R4", fname(f), "returns SelectedPeers", p.Pos(f.Pos()), "returns the recorded set", "does not return the recorded set")
	}
}

func isMakeMap(v ssa.Value) bool {
	_, ok := v.(*ssa.MakeMap)
	return ok
}
