package rules

import (
	"fmt"
	"go/token"
	"go/types"

	"golang.org/x/tools/go/ssa"

	"verif/sa/core"
)

func init() { Registry["C10"] = c10 }

func c10(p *core.Prog, r *core.Report) {
	r.Explain = "Decides: (R1) the response writer is single-pass: the argument-writer helper proceeds only when the writer's state equals the expected input state, stores the output state only after the fragment writer accepted the argument, every call site moves exactly one step forward (arg1->arg2->arg3->complete), and the inbound response's SendSystemError stores the Complete state before sending and returns early when the writer has already failed; (R2) writes after expiry or failure are refused: building and flushing a fragment pass through the exchange's error check before the connection's send queue is touched; (R3) the relay swallows late frames: no path from the item lookup to a forward avoids the tombstone / timed-out test, the arms of that test cannot reach the forward, and the timeout path sends its single error frame only after winning the tombstone transition and only on the originating side; (R4) frames carry the id of the request they answer: response fragments are stamped with the exchange's id, error frames with the exchange's / request frame's / relay item's id. An error frame sent while admitting a call req is terminal (phi-sensitive path search); a late-frame test living in a helper is decided from the helper's extracted truth table. A helper that sent an error frame reports the call handled and handleCallReq stops on it; every queue / pool operation of the response writer is behind the exchange's error check. The writer closes the socket on a graceful stop only when the send queue is empty; an error frame is handed to the connection before anything that can complete its last pending work (census over every SendSystemError site). relayTimer.Stop answers true only with time.Timer.Stop's result or under the stopped flag; ArgWriteHelper closes the argument writer only after a successful write. Both exchange sets are stopped on a connection / protocol error (shared with C05-R2); the skip-list dispatcher hands a call to exactly one handler. The inbound response's error frame is sent only while the response writer's own sticky error is nil."
	r.NotDecided = "wire-level sequences under every race (needs an observer); behaviour of handlers that both complete a response and send a system error (outside the quantifier)."
	r.Rule("C10-R1", "E1 enumset + E6", 5, "response writer is single-pass")
	r.Rule("C10-R2", "E6 paths", 2, "no frame is built or queued after the exchange failed or expired")
	r.Rule("C10-R3", "E6 paths/guards", 4, "relay drops late frames; one timeout error frame")
	r.Rule("C10-R4", "E6 provenance", 5, "frames carry the id of the request they answer")
	c10Writer(p, r)
	c10Refuse(p, r)
	c10WriterDrains(p, r)
	c10Relay(p, r)
	c10IDs(p, r)
	c10TimerStop(p, r)
	c10HelperClose(p, r, "C10-R1")
	c10OneHandler(p, r)
	// after a connection or protocol error no handler may complete a response
	// behind the error frame: both exchange sets are stopped (shared with C05-R2)
	r.Alias("C05-R2", "C10-R2")
	c05Failure(p, r)
	r.Alias("C05-R2", "")
}

// c10TimerStop: the relay forwards a finishing frame only when the item's
// timer could still be stopped (finished && !stopped drops the frame: the
// timeout error frame is, or will be, the terminal frame). That test is only
// as good as relayTimer.Stop's answer: it says "stopped" only when the
// underlying timer was stopped before firing - now (time.Timer.Stop) or by an
// earlier Stop (the stopped flag) - never because the timer is merely inactive,
// which is also the state of a timer that has fired.
func c10TimerStop(p *core.Prog, r *core.Report) {
	f := mustFunc(p, r, "", "relayTimer", "Stop")
	if f == nil {
		return
	}
	isStoppedFlag := func(v ssa.Value) bool {
		fl := core.LoadedField(v)
		return fl != nil && fl.Name() == "stopped"
	}
	isTimerStop := func(v ssa.Value) bool { return callResult(v, "time.Timer.Stop") != nil }
	n := 0
	core.EachInstr(f, func(i ssa.Instruction) {
		ret, ok := i.(*ssa.Return)
		if !ok || core.IsRecoverBlock(i.Block()) {
			return
		}
		rv := core.ReturnValues(ret)
		if len(rv) != 1 {
			return
		}
		n++
		var okv func(v ssa.Value, fs facts, d int) bool
		okv = func(v ssa.Value, fs facts, d int) bool {
			if d > 4 {
				return false
			}
			if isTimerStop(v) || isStoppedFlag(v) {
				return true
			}
			if b, isC := core.ConstBool(v); isC {
				return !b || fs.hasBool(isStoppedFlag, true) || fs.hasBool(isTimerStop, true)
			}
			if ph, isPhi := v.(*ssa.Phi); isPhi {
				for k, e := range ph.Edges {
					pred := ph.Block().Preds[k]
					if !okv(e, factsAt(pred).add(edgeFacts(pred, ph.Block())), d+1) {
						return false
					}
				}
				return true
			}
			return false
		}
		r.Check(okv(rv[0], factsAt(ret.Block()), 0), "C10-R3", fname(f), fmt.Sprintf("Stop reports 'stopped' only for a timer stopped before it fired (return #%d)", n), p.Pos(ret.Pos()),
			"the result is time.Timer.Stop()'s, or true under the stopped flag", "Stop can answer true for a timer that has already fired (its timeout error frame is on its way): the relay then forwards the late response as well - two terminal frames for one id")
	})
	if n == 0 {
		r.Errorf("relayTimer.Stop: no return found")
	}
}

// c10HelperClose: closing the last argument's writer completes the response
// (the final fragment goes out). ArgWriteHelper closes the writer only after
// the write callback succeeded; after a failed write the handler reports the
// failure with an error frame, which must then be the only terminal frame.
func c10HelperClose(p *core.Prog, r *core.Report, rule string) {
	f := mustFunc(p, r, "", "ArgWriteHelper", "write")
	if f == nil || len(f.Params) < 2 {
		return
	}
	cb := f.Params[len(f.Params)-1]
	isCbErr := func(v ssa.Value) bool {
		c, ok := v.(*ssa.Call)
		return ok && c.Call.Value == ssa.Value(cb)
	}
	n := 0
	for _, a := range f.AnonFuncs {
		// a closure of write that closes the writer is a deferred clean-up:
		// it runs whatever the callback returned
		core.EachInstr(a, func(i ssa.Instruction) {
			if c, ok := i.(ssa.CallInstruction); ok && c.Common().IsInvoke() && c.Common().Method.Name() == "Close" {
				n++
				r.Fail(rule, fname(f), "writer closed only after a successful write", p.Pos(i.Pos()), "the argument writer is closed in a closure of write (a deferred clean-up), whatever the write callback returned: a failed write still completes the response and the handler's error frame becomes a second terminal frame")
			}
		})
	}
	core.EachInstr(f, func(i ssa.Instruction) {
		c, ok := i.(ssa.CallInstruction)
		if !ok || !c.Common().IsInvoke() || c.Common().Method.Name() != "Close" {
			return
		}
		n++
		if _, isDefer := i.(*ssa.Defer); isDefer {
			r.Fail(rule, fname(f), "writer closed only after a successful write", p.Pos(i.Pos()), "the argument writer is closed by a defer, whatever the write callback returned: a failed write still completes the response and the handler's error frame becomes a second terminal frame")
			return
		}
		r.Check(factsAt(i.Block()).nilCmp(isCbErr, true), rule, fname(f), "writer closed only after a successful write", p.Pos(i.Pos()),
			"Close is guarded by the callback's err == nil", "the argument writer is closed although the write callback failed: the response is completed and the handler's error frame becomes a second terminal frame")
	})
	if n == 0 {
		r.Errorf("ArgWriteHelper.write: no Close of the argument writer found")
	}
}

func c10Writer(p *core.Prog, r *core.Report) {
	d := p.NewDomain("", "reqResWriterState")
	f := mustFunc(p, r, "", "reqResWriter", "argWriter")
	stateF := p.Field("", "reqResWriter", "state")
	if d == nil || f == nil || stateF == nil {
		return
	}
	ip := core.NewEnumInterp(p, d)
	var store *ssa.Store
	core.EachInstr(f, func(i ssa.Instruction) {
		if st, ok := i.(*ssa.Store); ok && core.AddrField(st.Addr) == stateF {
			store = st
		}
	})
	if store == nil {
		r.Errorf("argWriter no longer stores the writer state")
		return
	}
	ctxs := ip.Contexts(f)
	if len(ctxs) < 3 {
		r.Errorf("argWriter: expected 3 call-site contexts, found %d", len(ctxs))
	}
	for _, ctx := range ctxs {
		fl := ip.Flow(f, ctx)
		prior, _ := fl.CellAt(store.Addr, store)
		nv, _ := fl.ValueAt(store.Val, store)
		cdesc := ""
		for g, site := range ctx {
			_ = g
			var as []string
			for _, a := range site.Common().Args[1:] {
				as = append(as, desc(a))
			}
			cdesc = join(as)
		}
		prior &= d.Declared()
		ok := prior != 0 && prior&(prior-1) == 0 && nv != 0 && nv&(nv-1) == 0 && d.Min(nv) == d.Min(prior)+1
		r.Check(ok, "C10-R1", fname(f), "argWriter("+cdesc+") moves exactly one step forward", p.Pos(store.Pos()),
			"state "+d.String(prior)+" -> "+d.String(nv), "writer state can move "+d.String(prior)+" -> "+d.String(nv)+" (skipping or repeating an argument)")
	}
	// the store is ordered after the fragment writer accepted the argument
	okOrder := false
	for _, c := range core.CallsIn(f, "fragmentingWriter.ArgWriter") {
		if before(c, store) && factsAt(store.Block()).nilCmp(func(v ssa.Value) bool { return callResult(v, "fragmentingWriter.ArgWriter") != nil }, true) {
			okOrder = true
		}
	}
	r.Check(okOrder, "C10-R1", fname(f), "state advances only after the argument writer was obtained", p.Pos(store.Pos()), "store under err == nil of ArgWriter", "state advances although the argument could not be started")
	// SendSystemError on the inbound response
	if g := mustFunc(p, r, "", "InboundCallResponse", "SendSystemError"); g != nil {
		var st *ssa.Store
		core.EachInstr(g, func(i ssa.Instruction) {
			if s, ok := i.(*ssa.Store); ok && core.AddrField(s.Addr) == stateF {
				if k, isK := core.ConstInt(s.Val); isK && d.Of(k) == d.OfName("reqResWriterComplete") {
					st = s
				}
			}
		})
		sends := core.CallsIn(g, "Connection.SendSystemError")
		ok := st != nil && len(sends) == 1 && before(st, sends[0])
		r.Check(ok, "C10-R1", fname(g), "state = Complete before the error frame is sent", p.Pos(g.Pos()), "no argument can be written after a system error", "arguments can still be written after a system error was sent")
		early := false
		core.EachInstr(g, func(i ssa.Instruction) {
			if ret, isRet := i.(*ssa.Return); isRet {
				if factsAt(ret.Block()).nilCmp(func(v ssa.Value) bool { fl := core.LoadedField(v); return fl != nil && fl.Name() == "err" }, false) {
					// this return is under response.err != nil and before the send
					if len(sends) == 1 && !before(sends[0], ret) {
						early = true
					}
				}
			}
		})
		r.Check(early, "C10-R1", fname(g), "failed writer sends no second terminal frame", p.Pos(g.Pos()), "returns early under response.err != nil", "a response that already failed can still emit an error frame")
		// precisely: the frame is sent only under "the response WRITER has not
		// failed" (its own sticky error; a writer refused after the deadline
		// has failed although the request reader has not)
		if wErr := p.Field("", "reqResWriter", "err"); wErr != nil && len(sends) == 1 {
			okW := factsAt(sends[0].Block()).nilCmp(func(v ssa.Value) bool { return core.LoadedField(v) == wErr }, true)
			r.Check(okW, "C10-R1", fname(g), "the error frame is sent only while the response writer has not failed", p.Pos(sends[0].Pos()), "dominated by reqResWriter.err == nil",
				"the error frame can be sent after the response writer failed (e.g. writes refused after the deadline): a frame for an expired exchange - whose id the caller may have re-used - is queued")
		}
	}
}

func c10Refuse(p *core.Prog, r *core.Report) {
	sendChF := p.Field("", "Connection", "sendCh")
	for _, name := range []string{"newFragment", "flushFragment"} {
		f := mustFunc(p, r, "", "reqResWriter", name)
		if f == nil {
			continue
		}
		checks := core.CallsIn(f, "messageExchange.checkError")
		// every frame acquisition / queue operation is preceded by checkError whose failing arm returns
		ok := len(checks) >= 1
		var guarded []ssa.Instruction
		core.EachInstr(f, func(i ssa.Instruction) {
			switch x := i.(type) {
			case *ssa.Select:
				for _, st := range x.States {
					if core.LoadedField(st.Chan) == sendChF {
						guarded = append(guarded, i)
						break
					}
				}
			case *ssa.Send:
				if core.LoadedField(x.Chan) == sendChF {
					guarded = append(guarded, i)
				}
			case *ssa.Call:
				if _, isGet := core.IsCall(i, "FramePool.Get"); isGet {
					guarded = append(guarded, i)
				}
			}
		})
		if len(guarded) == 0 {
			r.Errorf("%s: no frame acquisition / queue operation found", fname(f))
			continue
		}
		for k, g := range guarded {
			okG := ok && factsAt(g.Block()).nilCmp(func(v ssa.Value) bool { return callResult(v, "messageExchange.checkError") != nil }, true)
			construct := "checkError() == nil before touching the frame pool / send queue"
			if k > 0 {
				construct += fmt.Sprintf(" #%d", k+1)
			}
			r.Check(okG, "C10-R2", fname(f), construct, p.Pos(g.Pos()), "dominated by the exchange's error check", "a response fragment can be built or queued after the exchange expired or failed")
		}
	}
}

// c10WriterDrains: on a graceful stop the writer loop closes the socket only
// when its send queue is empty; frames already queued (the rest of a
// multi-fragment response, a terminal error frame) are written first.
func c10WriterDrains(p *core.Prog, r *core.Report) {
	f := mustFunc(p, r, "", "Connection", "writeFrames")
	if f == nil {
		return
	}
	sendChF := p.Field("", "Connection", "sendCh")
	n := 0
	for _, c := range core.CallsIn(f, "Connection.closeNetwork") {
		n++
		ok := false
		for _, cm := range factsAt(c.Block()).cmps {
			lenOf := func(v ssa.Value) bool {
				cl, isC := v.(*ssa.Call)
				if !isC {
					return false
				}
				b, isB := cl.Call.Value.(*ssa.Builtin)
				return isB && b.Name() == "len" && core.LoadedField(core.ThroughCell(cl.Call.Args[0])) == sendChF
			}
			k, isK := core.ConstInt(cm.Y)
			if lenOf(cm.X) && isK && k == 0 && (cm.Op == token.LEQ || cm.Op == token.EQL) {
				ok = true
			}
		}
		r.Check(ok, "C10-R2", fname(f), "socket closed on stop only when the send queue is empty", p.Pos(c.Pos()), "closeNetwork() is behind len(sendCh) <= 0", "the writer can close the socket while response frames are still queued: the caller sees a response without its last fragment")
	}
	if n == 0 {
		r.Errorf("writeFrames: no closeNetwork call found")
	}
}

func c10Relay(p *core.Prog, r *core.Report) {
	for _, name := range []string{"handleNonCallReq", "Receive"} {
		f := mustFunc(p, r, "", "Relayer", name)
		if f == nil {
			continue
		}
		gets := core.CallsIn(f, "relayItems.Get")
		if len(gets) == 0 {
			r.Errorf("%s: item lookup not found", name)
			continue
		}
		get := gets[0]
		isForward := func(i ssa.Instruction) bool {
			if name == "handleNonCallReq" {
				_, ok := core.IsCall(i, "Relayer.Receive", "frameReceiver.Receive")
				return ok
			}
			if sel, ok := i.(*ssa.Select); ok {
				for _, st := range sel.States {
					if fl := core.LoadedField(st.Chan); fl != nil && fl.Name() == "sendCh" {
						return true
					}
				}
			}
			return false
		}
		// the tomb test
		var tombIf *ssa.If
		core.EachInstr(f, func(i ssa.Instruction) {
			ifi, ok := i.(*ssa.If)
			if !ok {
				return
			}
			v := ifi.Cond
			if fld, isF := v.(*ssa.Field); isF && core.FieldOfField(fld).Name() == "tomb" {
				tombIf = ifi
			}
			if fl := core.LoadedField(v); fl != nil && fl.Name() == "tomb" {
				tombIf = ifi
			}
		})
		ok := tombIf != nil
		why := "no tombstone test"
		if !ok {
			// the test may live in a helper: a pure boolean function of the
			// item's tomb flag, `finished` and `stopped`; its truth table
			// (extracted from its CFG) must drop every late frame
			if hif, hwhy := lateTestHelper(p, f, get); hif != nil {
				bypass := core.ReachAvoiding(f, get, isForward, func(i ssa.Instruction) bool { return i == ssa.Instruction(hif) }, nil)
				arm := hif.Block().Succs[0].Instrs[0]
				fromArm := isForward(arm) || core.ReachAvoiding(f, arm, isForward, nil, nil).Found
				ok = !bypass.Found && !fromArm
				why = fmt.Sprintf("helper test: bypass=%v dropArmForwards=%v", bypass.Found, fromArm)
			} else if hwhy != "" {
				why = hwhy
			}
		} else {
			bypass := core.ReachAvoiding(f, get, isForward, func(i ssa.Instruction) bool { return i == ssa.Instruction(tombIf) }, nil)
			fromTomb := core.ReachAvoiding(f, tombIf.Block().Succs[0].Instrs[0], isForward, nil, nil)
			if isForward(tombIf.Block().Succs[0].Instrs[0]) {
				fromTomb.Found = true
			}
			// the (finished && !stopped) arm: the branch on `stopped` taken under finished == true;
			// its not-stopped edge must not reach the forward
			lateReach := false
			hasLate := false
			core.EachInstr(f, func(i ssa.Instruction) {
				ifi, isIf := i.(*ssa.If)
				if !isIf {
					return
				}
				cond := ifi.Cond
				pol := true
				if u, isU := cond.(*ssa.UnOp); isU && u.Op.String() == "!" {
					cond, pol = u.X, false
				}
				if !okOf("relayItems.Get", 1)(cond) {
					return
				}
				if !factsAt(ifi.Block()).hasBool(func(v ssa.Value) bool { return callResult(v, "finishesCall") != nil }, true) {
					return
				}
				hasLate = true
				// successor taken when stopped == false
				idx := 1
				if !pol {
					idx = 0
				}
				nb := ifi.Block().Succs[idx]
				if isForward(nb.Instrs[0]) || core.ReachAvoiding(f, nb.Instrs[0], isForward, nil, nil).Found {
					lateReach = true
				}
			})
			ok = !bypass.Found && !fromTomb.Found && !lateReach && hasLate
			why = fmt.Sprintf("bypass=%v tombArmForwards=%v timedOutArmForwards=%v timedOutTestPresent=%v", bypass.Found, fromTomb.Found, lateReach, hasLate)
		}
		r.Check(ok, "C10-R3", fname(f), "late frames (tombstone, or final frame whose timer already fired) are never forwarded", p.Pos(get.Pos()),
			"every path to the forward passes the test and neither failing arm reaches it", "a frame for a finished / timed-out call can still be forwarded: "+why)
	}
	// an error frame sent while admitting a call req is terminal: no path from
	// it registers the relay items (whose timer would send a second error
	// frame for the id) or forwards the request
	if f := mustFunc(p, r, "", "Relayer", "handleCallReq"); f != nil {
		n := 0
		isAdmit := func(i ssa.Instruction) bool {
			_, ok := core.IsCall(i, "Relayer.addRelayItem", "Relayer.Receive", "frameReceiver.Receive", "Relayer.fragmentingSend")
			return ok
		}
		for k, snd := range core.CallsIn(f, "Connection.SendSystemError") {
			n++
			res := core.ReachPhiSensitive(f, snd.(ssa.Instruction), isAdmit, nil)
			r.Check(!res.Found, "C10-R3", fname(f), fmt.Sprintf("admission error frame #%d is terminal", k+1), p.Pos(snd.Pos()),
				"no path from the error frame reaches addRelayItem / Receive / fragmentingSend", "after the error frame the call is still relayed (a second terminal frame follows at the ttl): "+p.TrailString(res))
		}
		if n < 2 {
			r.Errorf("relay handleCallReq: expected at least 2 admission error frames, found %d", n)
		}
		// the same for helpers that answer a call req themselves (the local
		// handler path): once such a helper has sent an error frame it reports
		// the call as handled, and handleCallReq stops on "handled"
		core.EachInstr(f, func(i ssa.Instruction) {
			c, ok := i.(*ssa.Call)
			if !ok {
				return
			}
			g := c.Call.StaticCallee()
			if g == nil || !p.InAnalysed(g) || len(g.Blocks) == 0 || g.Signature.Results().Len() != 1 {
				return
			}
			if b, isB := g.Signature.Results().At(0).Type().Underlying().(*types.Basic); !isB || b.Kind() != types.Bool {
				return
			}
			sends := core.CallsIn(g, "Connection.SendSystemError")
			if len(sends) == 0 {
				return
			}
			for k, snd := range sends {
				res := core.ReachAvoiding(g, snd.(ssa.Instruction), func(j ssa.Instruction) bool {
					ret, isRet := j.(*ssa.Return)
					if !isRet {
						return false
					}
					b, isB := core.ConstBool(core.ReturnValues(ret)[0])
					return !isB || !b
				}, nil, nil)
				r.Check(!res.Found, "C10-R3", fname(g), fmt.Sprintf("error frame #%d sent by the helper => the call is reported handled", k+1), p.Pos(snd.Pos()),
					"every return after the error frame is `true`", "the helper sends an error frame and still reports the call as not handled: handleCallReq goes on to relay it (second terminal frame): "+p.TrailString(res))
			}
			// the caller stops on handled
			stops := false
			for _, ref := range *c.Referrers() {
				if ifi, isIf := ref.(*ssa.If); isIf {
					arm := ifi.Block().Succs[0]
					if !core.ReachAvoiding(f, arm.Instrs[0], isAdmit, nil, nil).Found && !isAdmit(arm.Instrs[0]) {
						stops = true
					}
				}
			}
			r.Check(stops, "C10-R3", fname(f), "handleCallReq stops when "+g.Name()+" handled the call", p.Pos(c.Pos()), "the handled arm reaches no registration or forward", "a call already answered by "+g.Name()+" is relayed as well")
		})
	}
	errorFrameBeforeCompletion(p, r, "C10-R3")
	if f := mustFunc(p, r, "", "Relayer", "timeoutRelayItem"); f != nil {
		sends := core.CallsIn(f, "Connection.SendSystemError")
		ok := len(sends) == 1
		if ok {
			fs := factsAt(sends[0].Block())
			won := fs.hasBool(okOf("relayItems.Entomb", 1), true)
			orig := fs.hasBool(func(v ssa.Value) bool { return v == ssa.Value(f.Params[3]) }, true)
			isTimeout := loadsGlobal(core.CallArgs(sends[0])[3], "ErrTimeout")
			ok = won && orig && isTimeout
		}
		r.Check(ok, "C10-R3", fname(f), "one timeout error frame, only after winning Entomb, only as originator", p.Pos(f.Pos()), "guarded by ok && isOriginator, ErrTimeout", "the relay timeout can emit an error frame without owning the call's completion (second terminal frame)")
	}
	if f := mustFunc(p, r, "", "Relayer", "failRelayItem"); f != nil {
		sends := core.CallsIn(f, "Connection.SendSystemError")
		ok := len(sends) == 1
		if ok {
			fs := factsAt(sends[0].Block())
			ok = fs.hasBool(okOf("relayItems.Entomb", 1), true) && fs.hasBool(okOf("relayItems.Get", 1), true)
		}
		r.Check(ok, "C10-R3", fname(f), "failure error frame only after stopping the timer and winning Entomb", p.Pos(f.Pos()), "guarded by stopped && ok", "a relay failure can emit an error frame although the timeout path owns the call")
	}
}

func c10IDs(p *core.Prog, r *core.Report) {
	idF := p.Field("", "FrameHeader", "ID")
	msgID := p.Field("", "messageExchange", "msgID")
	if f := mustFunc(p, r, "", "reqResWriter", "newFragment"); f != nil {
		ok := false
		core.EachInstr(f, func(i ssa.Instruction) {
			if st, isSt := i.(*ssa.Store); isSt && core.AddrField(st.Addr) == idF && core.LoadedField(st.Val) == msgID {
				ok = true
			}
		})
		r.Check(ok, "C10-R4", fname(f), "fragment id = exchange id", p.Pos(f.Pos()), "frame.Header.ID = w.mex.msgID", "response fragments are not stamped with the exchange's id")
	}
	if f := mustFunc(p, r, "", "InboundCallResponse", "SendSystemError"); f != nil {
		ok := false
		for _, c := range core.CallsIn(f, "Connection.SendSystemError") {
			if core.LoadedField(core.CallArgs(c)[1]) == msgID {
				ok = true
			}
		}
		r.Check(ok, "C10-R4", fname(f), "error frame id = exchange id", p.Pos(f.Pos()), "response.mex.msgID", "handler error frames do not carry the request's id")
	}
	if f := mustFunc(p, r, "", "Connection", "handleCallReq"); f != nil {
		ok := true
		n := 0
		for _, c := range p.CallsDeep(f, 1, "Connection.SendSystemError") {
			n++
			// (sent directly, or by a helper that is handed the id)
			if core.LoadedField(throughParam(core.CallArgs(c)[1], f)) != idF {
				ok = false
			}
		}
		r.Check(ok && n > 0, "C10-R4", fname(f), "refusal error frames carry the request frame's id", p.Pos(f.Pos()), "frame.Header.ID", "refusals are sent under another id")
	}
	relayErrorFrameIDs(p, r, "C10-R4")
}

// relayErrorFrameIDs: the error frames a relay originates for an item
// (timeout, failure) go out on the item's own connection under the id the
// caller used there: the id parameter, not the remapped id of the other leg
// (which on this connection may name another call in flight).
func relayErrorFrameIDs(p *core.Prog, r *core.Report, rule string) {
	for _, name := range []string{"timeoutRelayItem", "failRelayItem"} {
		f := mustFunc(p, r, "", "Relayer", name)
		if f == nil {
			continue
		}
		ok := true
		n := 0
		for _, c := range core.CallsIn(f, "Connection.SendSystemError") {
			n++
			if core.CallArgs(c)[1] != ssa.Value(f.Params[2]) {
				ok = false
			}
		}
		r.Check(ok && n > 0, rule, fname(f), "relay error frames carry the item's id", p.Pos(f.Pos()), "id parameter passed through", "relay-originated error frame uses another id")
	}
}

// lateTestHelper finds `if helper(item, finished, stopped)` after the lookup
// where helper is a pure boolean function whose extracted truth table
// satisfies: helper false => !tomb && !(finished && !stopped).
func lateTestHelper(p *core.Prog, f *ssa.Function, get ssa.CallInstruction) (*ssa.If, string) {
	var found *ssa.If
	why := ""
	core.EachInstr(f, func(i ssa.Instruction) {
		ifi, ok := i.(*ssa.If)
		if !ok || found != nil {
			return
		}
		c, ok := ifi.Cond.(*ssa.Call)
		if !ok {
			return
		}
		g := c.Call.StaticCallee()
		if g == nil || !p.InAnalysed(g) {
			return
		}
		atoms, eval, pure := core.BoolTable(g)
		if !pure {
			return
		}
		role := map[core.BoolAtom]string{}
		args := c.Call.Args
		for _, a := range atoms {
			switch {
			case a.Field == "tomb":
				role[a] = "tomb"
			case a.Field == "" && a.Param < len(args) && callResult(args[a.Param], "finishesCall") != nil:
				role[a] = "finished"
			case a.Field == "" && a.Param < len(args) && okOf("relayItems.Get", 1)(args[a.Param]):
				role[a] = "stopped"
			default:
				return
			}
		}
		have := map[string]bool{}
		for _, v := range role {
			have[v] = true
		}
		if !have["tomb"] || !have["finished"] || !have["stopped"] {
			return
		}
		for m := 0; m < 1<<len(atoms); m++ {
			as := map[core.BoolAtom]bool{}
			vals := map[string]bool{}
			for k, a := range atoms {
				as[a] = m&(1<<k) != 0
				vals[role[a]] = as[a]
			}
			res, okE := eval(as)
			if !okE {
				why = "the late-frame helper " + fname(g) + " could not be evaluated"
				return
			}
			late := vals["tomb"] || (vals["finished"] && !vals["stopped"])
			if late && !res {
				why = fmt.Sprintf("the late-frame helper %s lets a late frame through (tomb=%v finished=%v stopped=%v)", fname(g), vals["tomb"], vals["finished"], vals["stopped"])
				return
			}
		}
		found = ifi
	})
	return found, why
}

// completionCalls: the calls that end a pending unit of work of a connection
// (an exchange, a relay item's pending count) and therefore may move a closing
// connection to closed. Being on this list is only a filter: the call must
// also reach checkExchanges in the call graph.
var completionCalls = []string{
	"messageExchange.shutdown", "messageExchange.inboundExpired", "messageExchangeSet.removeExchange", "messageExchangeSet.expireExchange",
	"Relayer.decrementPending", "Relayer.failRelayItem", "Relayer.finishRelayItem", "Relayer.timeoutRelayItem",
	"InboundCallResponse.doneSending", "OutboundCallResponse.doneReading", "reqResReader.failed", "reqResWriter.failed", "Connection.checkExchanges",
}

func endsPendingWork(c ssa.CallInstruction) bool {
	_, ok := core.IsCall(c.(ssa.Instruction), completionCalls...)
	return ok
}

// errorFrameBeforeCompletion (shared by C10, C07 and C20): see the comment in the body.
func errorFrameBeforeCompletion(p *core.Prog, r *core.Report, rule string) {
	// an error frame is handed to the connection before anything on the same
	// path can re-evaluate the close state: SendSystemError refuses to queue
	// once the connection is closed, and removing the last pending item (an
	// exchange, a relay item's pending count) can close it
	if ce := p.Func("", "Connection", "checkExchanges"); ce != nil {
		closers := p.CallersClosureWithin(map[*ssa.Function]bool{ce: true}, p.InAnalysed)
		n := 0
		for _, f := range p.SrcFuncs {
			if pkgOf(f) != core.Root || closers[f] && f.Name() == "checkExchanges" {
				continue
			}
			for _, snd := range core.CallsIn(f, "Connection.SendSystemError") {
				n++
				bad := ""
				core.EachInstr(f, func(i ssa.Instruction) {
					c, ok := i.(*ssa.Call)
					if !ok || bad != "" || ssa.Instruction(c) == snd.(ssa.Instruction) {
						return
					}
					if _, isSend := core.IsCall(i, "Connection.SendSystemError"); isSend {
						return
					}
					if !p.MayCall(c, closers) || !endsPendingWork(c) {
						return
					}
					if core.ReachAvoiding(f, i, func(j ssa.Instruction) bool { return j == snd.(ssa.Instruction) }, nil, nil).Found {
						bad = calleeShort(c) + " at " + p.Pos(i.Pos())
					}
				})
				r.Check(bad == "", rule, fname(f), "error frame sent before any close-state re-evaluation", p.Pos(snd.Pos()),
					"no call that can reach checkExchanges precedes the SendSystemError on any path", "a call that can close the connection ("+bad+") runs before the error frame is handed to it: on a closing connection the frame is dropped and the caller sees EOF")
			}
		}
		if n < 5 {
			r.Errorf("SendSystemError census found %d sites (expected at least 5)", n)
		}
	}
}

// c10OneHandler: a call is handed to exactly one handler. In the dispatchers
// that choose between handlers (the skip-list wrapper around a user handler)
// no path leads from one Handle call to another: a call served twice gets two
// terminal frames (a complete response, then the second handler's error).
func c10OneHandler(p *core.Prog, r *core.Report) {
	f := mustFunc(p, r, "", "userHandlerWithSkip", "Handle")
	if f == nil {
		return
	}
	isHandle := func(i ssa.Instruction) bool {
		c, ok := i.(ssa.CallInstruction)
		if !ok {
			return false
		}
		if c.Common().IsInvoke() {
			return c.Common().Method.Name() == "Handle"
		}
		g := c.Common().StaticCallee()
		return g != nil && g.Name() == "Handle"
	}
	n := 0
	core.EachInstr(f, func(i ssa.Instruction) {
		if !isHandle(i) {
			return
		}
		n++
		res := core.ReachAvoiding(f, i, isHandle, nil, nil)
		r.Check(!res.Found, "C10-R1", fname(f), fmt.Sprintf("no second handler after Handle #%d", n), p.Pos(i.Pos()),
			"no path leads from this Handle call to another one", "after this handler the call is handed to a second handler as well: its id gets a complete response and then the other handler's answer: "+p.TrailString(res))
	})
	miss := core.ReachAvoiding(f, nil, core.IsReturn, isHandle, nil)
	r.Check(n >= 2 && !miss.Found, "C10-R1", fname(f), "every call reaches a handler", p.Pos(f.Pos()), "every path passes a Handle call", "a path returns without handing the call to any handler")
}
