package rules

import (
	"fmt"
	"go/token"
	"go/types"
	"sort"
	"strings"

	"golang.org/x/tools/go/ssa"

	"verif/sa/core"
	"verif/sa/spec"
)

// frameInv establishes (as checked obligations under `rule`) the cross-function
// invariants the sink analysis relies on, and returns a Ranges configured with them.
//
//	INV-FRAME-LEN : len(Frame.Payload) = MaxFramePayloadSize, len(Frame.buffer) = MaxFrameSize
//	INV-FRAME-SIZE: FrameHeader.PayloadSize() <= MaxFramePayloadSize on every frame that
//	                passed ReadBody or was stamped by SetPayloadSize
//	INV-LAZY      : lazyCallReq offsets are stored only by newLazyCallReq, which returns
//	                the object only when every bounded read succeeded
func frameInv(p *core.Prog, r *core.Report, rule string) *core.Ranges {
	a := core.NewRanges(p)
	a.Auto = true
	maxPayload, okc := constVal(p, "MaxFramePayloadSize")
	hdr, okh := constVal(p, "FrameHeaderSize")
	maxFrame, okf := constVal(p, "MaxFrameSize")
	if !okc || !okh || !okf {
		r.Errorf("frame size constants do not resolve")
		return a
	}
	r.Check(maxPayload+hdr == maxFrame && maxFrame <= 65535, rule, "constants", "MaxFramePayloadSize + FrameHeaderSize == MaxFrameSize <= 65535", "-",
		fmt.Sprintf("%d + %d = %d", maxPayload, hdr, maxFrame), "frame size constants inconsistent: a frame size would not fit the 16-bit size field")

	payloadF := mustField(p, r, "", "Frame", "Payload")
	bufferF := mustField(p, r, "", "Frame", "buffer")
	hbufF := mustField(p, r, "", "Frame", "headerBuffer")
	sizeF := mustField(p, r, "", "FrameHeader", "size")
	newFrame := mustFunc(p, r, "", "", "NewFrame")
	readBody := mustFunc(p, r, "", "Frame", "ReadBody")
	hdrRead := mustFunc(p, r, "", "FrameHeader", "read")
	setSize := mustFunc(p, r, "", "FrameHeader", "SetPayloadSize")
	if payloadF == nil || bufferF == nil || hbufF == nil || sizeF == nil || newFrame == nil || readBody == nil || hdrRead == nil || setSize == nil {
		return a
	}

	// --- INV-FRAME-LEN
	lenOK := true
	for _, fld := range []*types.Var{payloadF, bufferF, hbufF} {
		for _, st := range p.StoresTo(fld) {
			ok := st.Fn == newFrame
			if !ok && st.Val != nil && core.IsNilConst(st.Val) {
				// poisoning a handed-back frame (test pool): any later access panics, which is a C12 matter
				r.OkTrivial(rule, fname(st.Fn), "store nil to Frame."+fld.Name(), p.Pos(st.Instr.Pos()), "INV-FRAME-LEN: nil store poisons a released frame; live frames keep their construction-time buffers")
				continue
			}
			r.Check(ok, rule, fname(st.Fn), "store to Frame."+fld.Name(), p.Pos(st.Instr.Pos()), "INV-FRAME-LEN: frame buffers are assigned only in NewFrame", "Frame."+fld.Name()+" reassigned outside NewFrame: its length is no longer fixed by construction")
			if !ok {
				lenOK = false
			}
		}
	}
	// NewFrame shape: buffer = make(cap+hdr); Payload = buffer[hdr:]; headerBuffer = buffer[:hdr]
	shape := 0
	core.EachInstr(newFrame, func(i ssa.Instruction) {
		st, ok := i.(*ssa.Store)
		if !ok {
			return
		}
		switch core.AddrField(st.Addr) {
		case bufferF:
			if mk, ok := st.Val.(*ssa.MakeSlice); ok {
				if bo, ok := mk.Len.(*ssa.BinOp); ok && bo.Op == token.ADD && bo.X == newFrame.Params[0] {
					if k, ok := core.ConstInt(bo.Y); ok && k == hdr {
						shape |= 1
					}
				}
			}
		case payloadF:
			if sl, ok := st.Val.(*ssa.Slice); ok && core.LoadedField(sl.X) == bufferF && sl.High == nil && sl.Max == nil {
				if k, ok := core.ConstInt(sl.Low); ok && k == hdr {
					shape |= 2
				}
			}
		case hbufF:
			if sl, ok := st.Val.(*ssa.Slice); ok && core.LoadedField(sl.X) == bufferF && sl.Low == nil {
				if k, ok := core.ConstInt(sl.High); ok && k == hdr {
					shape |= 4
				}
			}
		}
	})
	r.Check(shape == 7, rule, fname(newFrame), "buffer=make(cap+16); Payload=buffer[16:]; headerBuffer=buffer[:16]", p.Pos(newFrame.Pos()),
		"INV-FRAME-LEN: len(Payload) = payloadCapacity by construction", "NewFrame no longer builds Payload as the tail of a (capacity+header)-byte buffer")
	if shape != 7 {
		lenOK = false
	}
	nNew := 0
	for _, cs := range p.CallsTo("NewFrame") {
		nNew++
		k, isK := core.ConstInt(cs.Call.Common().Args[0])
		ok := isK && k == maxPayload
		r.Check(ok, rule, fname(cs.Fn), "NewFrame(MaxFramePayloadSize)", p.Pos(cs.Call.Pos()), "INV-FRAME-LEN: pooled frames are allocated at the maximum payload size", "a frame is allocated with a capacity other than MaxFramePayloadSize: peer-declared sizes up to 65519 would overrun it")
		if !ok {
			lenOK = false
		}
	}
	if nNew == 0 {
		r.Errorf("no NewFrame call found in the analysed packages (frame pools moved?)")
	}

	// --- INV-FRAME-SIZE
	sizeOK := true
	for _, st := range p.StoresTo(sizeF) {
		ok := st.Fn == hdrRead || st.Fn == setSize
		r.Check(ok, rule, fname(st.Fn), "store to FrameHeader.size", p.Pos(st.Instr.Pos()), "INV-FRAME-SIZE: size is written only by the header reader and SetPayloadSize", "FrameHeader.size written elsewhere")
		if !ok {
			sizeOK = false
		}
	}
	for _, cs := range p.CallsTo("FrameHeader.read") {
		ok := cs.Fn == readBody
		r.Check(ok, rule, fname(cs.Fn), "call FrameHeader.read", p.Pos(cs.Call.Pos()), "INV-FRAME-SIZE: wire headers are parsed only by ReadBody, which validates the size", "a wire header is parsed outside ReadBody (no size validation)")
		if !ok {
			sizeOK = false
		}
	}
	// ReadBody: SizedPayload and every possibly-nil return are guarded by PayloadSize() <= MaxFramePayloadSize
	isPS := func(v ssa.Value) bool { return callResult(v, "FrameHeader.PayloadSize") != nil }
	core.EachInstr(readBody, func(i ssa.Instruction) {
		guarded := func() bool {
			fs := factsAt(i.Block())
			return fs.hasCmp(isPS, []token.Token{token.LEQ}, maxPayload) || fs.hasCmp(isPS, []token.Token{token.LSS}, maxPayload+1) || fs.hasCmp(isPS, []token.Token{token.EQL, token.LEQ}, 0)
		}
		if c, ok := core.IsCall(i, "Frame.SizedPayload"); ok {
			g := guarded()
			r.Check(g, rule, fname(readBody), "SizedPayload() after the size test", p.Pos(c.Pos()), "INV-FRAME-SIZE: dominated by PayloadSize() <= MaxFramePayloadSize", "ReadBody slices the payload before validating the declared size")
			if !g {
				sizeOK = false
			}
		}
		if ret, ok := i.(*ssa.Return); ok {
			rv := core.ReturnValues(ret)[0]
			// error returned from the header parse or a freshly built error: frame unusable
			if c, isCall := core.Strip(rv).(*ssa.Call); isCall {
				if o := core.CalleeObj(c); o != nil && (core.FuncKey(o) == "fmt.Errorf" || core.ShortKey(o) == "FrameHeader.read") {
					return
				}
			}
			if callResult(rv, "FrameHeader.read") != nil {
				return
			}
			fs := factsAt(i.Block())
			if fs.nilCmp(func(v ssa.Value) bool { return callResult(v, "FrameHeader.read") != nil }, false) {
				return // returning the header parse error
			}
			g := guarded()
			r.Check(g, rule, fname(readBody), "return "+shortRet(rv)+" only after the size test", p.Pos(ret.Pos()), "INV-FRAME-SIZE: a nil return implies PayloadSize() <= MaxFramePayloadSize", "ReadBody can succeed without validating the declared size")
			if !g {
				sizeOK = false
			}
		}
	})
	// SetPayloadSize arguments are byte counts of a WriteBuffer
	for _, cs := range p.CallsTo("FrameHeader.SetPayloadSize") {
		arg := core.CallArgs(cs.Call)[1]
		ok := callResult(arg, "typed.WriteBuffer.BytesWritten") != nil
		r.Check(ok, rule, fname(cs.Fn), "SetPayloadSize(uint16(BytesWritten()))", p.Pos(cs.Call.Pos()), "INV-FRAME-SIZE: stamped size is the number of bytes written into the frame's own payload buffer", "payload size stamped from something other than the write buffer's byte count")
		if !ok {
			sizeOK = false
		}
	}
	// callers of ReadBody / ReadIn do not use the frame when it failed
	for _, cs := range p.CallsTo("Frame.ReadBody", "Frame.ReadIn") {
		if cs.Fn.Name() == "ReadIn" {
			continue
		}
		frameV := core.CallArgs(cs.Call)[0]
		errV := cs.Call.Value()
		bad := false
		var where ssa.Instruction
		if errV != nil {
			for _, b := range cs.Fn.Blocks {
				fs := factsAt(b)
				if !fs.nilCmp(func(v ssa.Value) bool { return v == ssa.Value(errV) }, false) {
					continue
				}
				for _, ins := range b.Instrs {
					if usesValue(ins, frameV) {
						if _, isRel := core.IsCall(ins, "FramePool.Release"); isRel {
							continue
						}
						bad = true
						where = ins
					}
				}
			}
		}
		pos := p.Pos(cs.Call.Pos())
		if where != nil {
			pos = p.Pos(where.Pos())
		}
		r.Check(!bad, rule, fname(cs.Fn), "frame unused (only released) when ReadBody failed", pos, "INV-FRAME-SIZE: a frame whose size was rejected is never parsed", "a frame whose ReadBody failed is still used")
		if bad {
			sizeOK = false
		}
	}

	// --- INV-LAZY
	lazyOK := true
	newLazy := mustFunc(p, r, "", "", "newLazyCallReq")
	lazyFields := map[*types.Var]bool{}
	for _, n := range []string{"arg2StartOffset", "arg2EndOffset", "arg3StartOffset", "checksumTypeOffset"} {
		if f := mustField(p, r, "", "lazyCallReq", n); f != nil {
			lazyFields[f] = true
			for _, st := range p.StoresTo(f) {
				ok := st.Fn == newLazy
				r.Check(ok, rule, fname(st.Fn), "store to lazyCallReq."+n, p.Pos(st.Instr.Pos()), "INV-LAZY: offsets are written only by the lazy parser", "lazyCallReq offset written outside newLazyCallReq")
				if !ok {
					lazyOK = false
				}
			}
		}
	}
	if newLazy != nil {
		// non-nil object returned only under rbuf.Err() == nil
		isErrCall := func(v ssa.Value) bool { return callResult(v, "typed.ReadBuffer.Err") != nil }
		core.EachInstr(newLazy, func(i ssa.Instruction) {
			ret, ok := i.(*ssa.Return)
			if !ok {
				return
			}
			rv := core.ReturnValues(ret)
			if core.IsNilConst(rv[0]) {
				return
			}
			fs := factsAt(ret.Block())
			g := fs.nilCmp(isErrCall, true)
			r.Check(g, rule, fname(newLazy), "parsed object returned only when rbuf.Err() == nil", p.Pos(ret.Pos()), "INV-LAZY: every bounded read that produced the offsets succeeded", "newLazyCallReq can return an object although a bounded read failed: its offsets may exceed the payload")
			if !g {
				lazyOK = false
			}
		})
		// offsets derive from BytesRead of a buffer over SizedPayload; end = start + len with the same len skipped afterwards
		core.EachInstr(newLazy, func(i ssa.Instruction) {
			st, ok := i.(*ssa.Store)
			if !ok {
				return
			}
			fld := core.AddrField(st.Addr)
			if !lazyFields[fld] {
				return
			}
			okv := false
			how := ""
			if callResult(st.Val, "typed.ReadBuffer.BytesRead") != nil {
				okv, how = true, "= uint16(rbuf.BytesRead())"
			} else if bo, isBo := st.Val.(*ssa.BinOp); isBo && bo.Op == token.ADD {
				// start + n, where n is skipped on the same buffer afterwards
				var n ssa.Value
				if lf := core.LoadedField(bo.X); lf != nil && lazyFields[lf] {
					n = bo.Y
				}
				if n != nil {
					skipped := false
					core.EachInstr(newLazy, func(j ssa.Instruction) {
						if c, ok := core.IsCall(j, "typed.ReadBuffer.SkipBytes", "typed.ReadBuffer.ReadBytes"); ok {
							if core.StripConv(core.CallArgs(c)[1]) == core.StripConv(n) && st.Block().Dominates(j.Block()) {
								skipped = true
							}
						}
					})
					okv, how = skipped, "= start + n with n bytes consumed from the same buffer afterwards"
				}
			}
			r.Check(okv, rule, fname(newLazy), "lazyCallReq."+fld.Name()+" derives from bounded reads", p.Pos(st.Pos()), "INV-LAZY: "+how, "offset is not a byte count of the bounded read buffer")
			if !okv {
				lazyOK = false
			}
		})
	}

	// configure the analysis with the established invariants
	a.LenInv = func(v ssa.Value) (core.Rng, bool) {
		if f := core.LoadedField(v); f != nil && lenOK {
			switch f {
			case payloadF:
				return core.Rng{Lo: maxPayload, Hi: maxPayload}, true
			case bufferF:
				return core.Rng{Lo: maxFrame, Hi: maxFrame}, true
			case hbufF:
				return core.Rng{Lo: hdr, Hi: hdr}, true
			}
		}
		if sizeOK && lenOK {
			if c := callResult(v, "Frame.SizedPayload"); c != nil {
				return core.Rng{Lo: 0, Hi: maxPayload}, true
			}
		}
		return core.Rng{}, false
	}
	a.ResultRng = func(c *ssa.Call) (core.Rng, bool) {
		if !sizeOK {
			return core.Rng{}, false
		}
		if _, ok := core.IsCall(c, "FrameHeader.PayloadSize"); ok {
			return core.Rng{Lo: 0, Hi: maxPayload}, true
		}
		if _, ok := core.IsCall(c, "FrameHeader.FrameSize"); ok {
			return core.Rng{Lo: hdr, Hi: maxFrame}, true
		}
		return core.Rng{}, false
	}
	a.FieldRng = func(f *types.Var) (core.Rng, bool) {
		if lazyFields[f] && lazyOK && sizeOK {
			return core.Rng{Lo: 0, Hi: maxPayload}, true
		}
		return core.Rng{}, false
	}
	startF := p.Field("", "lazyCallReq", "arg2StartOffset")
	endF := p.Field("", "lazyCallReq", "arg2EndOffset")
	a.OrderedInv = func(lo, hi ssa.Value) bool {
		return lazyOK && core.LoadedField(core.StripConv(lo)) == startF && core.LoadedField(core.StripConv(hi)) == endF && startF != nil
	}
	a.RetLenOf = func(f *ssa.Function) (core.RetLen, bool) { return retLenSummary(f) }
	arg3F := p.Field("", "lazyCallReq", "arg3StartOffset")
	a.SinkInv = func(i ssa.Instruction) (bool, string) {
		// SizedPayload()[arg3StartOffset:] : the offset is a byte count of a bounded read of that same sized payload
		sl, ok := i.(*ssa.Slice)
		if !ok || !lazyOK || !sizeOK || sl.High != nil || sl.Low == nil {
			return false, ""
		}
		if callResult(sl.X, "Frame.SizedPayload") != nil && core.LoadedField(core.StripConv(sl.Low)) == arg3F && arg3F != nil {
			return true, "INV-LAZY: arg3StartOffset is rbuf.BytesRead() over SizedPayload() after a successful bounded skip; size is not rewritten afterwards (INV-FRAME-SIZE writers)"
		}
		return false, ""
	}
	return a
}

// usesValue: instruction has v (or a field address derived from it) as an operand.
func usesValue(i ssa.Instruction, v ssa.Value) bool {
	var ops []*ssa.Value
	for _, op := range i.Operands(ops) {
		if op != nil && *op == v {
			return true
		}
	}
	return false
}

func constVal(p *core.Prog, name string) (int64, bool) {
	c := p.Const("", name)
	if c == nil {
		return 0, false
	}
	return constInt64(c)
}

// retLenSummary: every non-nil slice returned by f is x[a:p] (len = p - a) for parameter p and constant a.
func retLenSummary(f *ssa.Function) (core.RetLen, bool) {
	if f.Blocks == nil || f.Signature.Results().Len() != 1 {
		return core.RetLen{}, false
	}
	if _, ok := f.Signature.Results().At(0).Type().Underlying().(*types.Slice); !ok {
		return core.RetLen{}, false
	}
	var out *core.RetLen
	ok := true
	core.EachInstr(f, func(i ssa.Instruction) {
		ret, isRet := i.(*ssa.Return)
		if !isRet {
			return
		}
		rv := core.ReturnValues(ret)[0]
		if core.IsNilConst(rv) {
			return
		}
		sl, isSl := rv.(*ssa.Slice)
		if !isSl || sl.High == nil || sl.Max != nil {
			ok = false
			return
		}
		prm, isP := sl.High.(*ssa.Parameter)
		if !isP {
			ok = false
			return
		}
		low := int64(0)
		if sl.Low != nil {
			k, isK := core.ConstInt(sl.Low)
			if !isK {
				ok = false
				return
			}
			low = k
		}
		idx := -1
		for k, q := range f.Params {
			if q == prm {
				idx = k
			}
		}
		rl := core.RetLen{Idx: idx, Off: low}
		if out != nil && *out != rl {
			ok = false
		}
		out = &rl
	})
	if !ok || out == nil {
		return core.RetLen{}, false
	}
	return *out, true
}

// wireCodes: the protocol's code points (frame types, checksum types, error
// codes, response code, fragment flag, version) equal the specification's.
// groups selects the vocabularies ("frame", "checksum", "error") a property
// cares about.
func wireCodes(p *core.Prog, r *core.Report, rule string, groups ...string) {
	want := map[string]bool{}
	for _, g := range groups {
		want[g] = true
	}
	var names []string
	for n := range spec.WireCodes {
		for prefix, g := range spec.WireCodeGroups {
			if strings.HasPrefix(n, prefix) && want[g] {
				names = append(names, n)
			}
		}
	}
	sort.Strings(names)
	for _, n := range names {
		got, ok := constVal(p, n)
		if !ok {
			r.Errorf("constant %s does not resolve (renamed or removed): cannot decide its wire value", n)
			continue
		}
		r.Check(got == spec.WireCodes[n], rule, "constants", fmt.Sprintf("%s = %#02x (protocol specification)", n, spec.WireCodes[n]), "-",
			"the wire value equals the specified code point", fmt.Sprintf("constant is %#02x (resolved=%v), the protocol specifies %#02x: the bytes on the wire mean something else to every other implementation", got, ok, spec.WireCodes[n]))
	}
}

// checksumSizes: the number of checksum bytes a frame of each checksum type
// carries (protocol: none 0, crc32 4, farmhash 4, crc32c 4). The lazy relay
// parser and both codecs step over the checksum by this size whether or not
// this library can compute the type.
func checksumSizes(p *core.Prog, r *core.Report, rule string) {
	f := mustFunc(p, r, "", "ChecksumType", "ChecksumSize")
	d := p.NewDomain("", "ChecksumType")
	if f == nil || d == nil {
		return
	}
	cells := []core.TableCell{{Name: "type", D: d, Match: func(v ssa.Value) bool { return v == ssa.Value(f.Params[0]) }}}
	rows, err := core.DecisionTable(f, cells, desc)
	if err != nil {
		r.Undecided(rule, fname(f), "checksum size table", p.Pos(f.Pos()), err.Error())
		return
	}
	table := map[string]string{}
	for _, row := range rows {
		for b := 0; b < d.N(); b++ {
			if row.Sets[0]&(1<<uint(b)) != 0 && b%2 == 1 {
				lo, _, _ := d.Range(b)
				table[d.Names[lo]] = row.Result
			}
		}
	}
	want := map[string]string{"ChecksumTypeNone": "0", "ChecksumTypeCrc32": "4", "ChecksumTypeFarmhash": "4", "ChecksumTypeCrc32C": "4"}
	var names []string
	for n := range want {
		names = append(names, n)
	}
	sort.Strings(names)
	for _, n := range names {
		r.Check(table[n] == want[n], rule, fname(f), "ChecksumSize("+n+") = "+want[n], p.Pos(f.Pos()), "as specified",
			fmt.Sprintf("ChecksumSize(%s) is %q, the protocol says %s: every parser that steps over the checksum of such a frame reads the following fields from the wrong offset", n, table[n], want[n]))
	}
}

// readFieldsAreAssigned: a struct field of the root package that some code
// reads is assigned by some code (a store, a composite-literal entry, or its
// address handed to something that may fill it). A field that is only ever
// read is the zero value for ever: what used to update it has been dropped
// (an error frame without the call's tracing, a state nobody advances).
// reviewed lists fields that are legitimately never assigned.
var neverAssignedReviewed = map[string]string{
	"Peer.onUpdate":      "test-only hook, assigned by SetOnUpdate in a _test file",
	"callReqContinue.id": "continuation messages are created with new(): the frame header id is stamped from the exchange in reqResWriter.newFragment, the message's own id is not used on the write path",
	"callRes.id":         "as callReqContinue.id: response frames take their id from the exchange",
	"callResContinue.id": "as callReqContinue.id",
}

func readFieldsAreAssigned(p *core.Prog, r *core.Report, rule string, keep func(owner string) bool) {
	type use struct {
		reads, writes int
		firstRead     ssa.Instruction
		fn            *ssa.Function
	}
	uses := map[*types.Var]*use{}
	owners := map[*types.Var]string{}
	get := func(v *types.Var) *use {
		if uses[v] == nil {
			uses[v] = &use{}
		}
		return uses[v]
	}
	for _, f := range p.SrcFuncs {
		if pkgOf(f) != core.Root {
			continue
		}
		f := f
		core.EachInstr(f, func(i ssa.Instruction) {
			switch x := i.(type) {
			case *ssa.Field:
				st, ok := core.Deref(x.X.Type()).Underlying().(*types.Struct)
				if !ok {
					return
				}
				fld := st.Field(x.Field)
				owners[fld] = shortTypeName(x.X.Type())
				u := get(fld)
				u.reads++
				if u.firstRead == nil {
					u.firstRead, u.fn = i, f
				}
			case *ssa.FieldAddr:
				st, ok := core.Deref(x.X.Type()).Underlying().(*types.Struct)
				if !ok {
					return
				}
				fld := st.Field(x.Field)
				owners[fld] = shortTypeName(x.X.Type())
				u := get(fld)
				refs := x.Referrers()
				if refs == nil {
					return
				}
				for _, ref := range *refs {
					switch y := ref.(type) {
					case *ssa.UnOp:
						u.reads++
						if u.firstRead == nil {
							u.firstRead, u.fn = i, f
						}
					case *ssa.Store:
						if y.Addr == ssa.Value(x) {
							u.writes++
						} else {
							u.writes++ // address stored: may be filled elsewhere
						}
					case *ssa.DebugRef:
					case *ssa.FieldAddr, *ssa.IndexAddr, *ssa.Slice:
						// a nested field / element / slice of it: judged at the nested level; a slice may be filled
						u.writes++
					default:
						u.writes++ // address escapes (call argument, closure): may be filled
					}
				}
			}
		})
	}
	var flds []*types.Var
	for fld := range uses {
		flds = append(flds, fld)
	}
	sort.Slice(flds, func(i, j int) bool {
		a, b := owners[flds[i]]+"."+flds[i].Name(), owners[flds[j]]+"."+flds[j].Name()
		return a < b
	})
	n := 0
	for _, fld := range flds {
		u := uses[fld]
		owner := owners[fld]
		if fld.Pkg() == nil || fld.Pkg().Path() != core.Root || owner == "" || strings.Contains(owner, ".") || u.reads == 0 {
			continue
		}
		if keep != nil && !keep(owner) {
			continue
		}
		if fld.Exported() {
			continue // set by users of the package
		}
		key := owner + "." + fld.Name()
		n++
		if u.writes > 0 {
			r.OkTrivial(rule, "struct "+owner, "field "+fld.Name()+" that is read is also assigned", "-", fmt.Sprintf("%d assignments", u.writes))
			continue
		}
		if why, ok := neverAssignedReviewed[key]; ok {
			r.Ok(rule, "struct "+owner, "field "+fld.Name()+" that is read is also assigned", "-", "reviewed: "+why)
			continue
		}
		r.Fail(rule, "struct "+owner, "field "+fld.Name()+" that is read is also assigned", p.Pos(u.firstRead.Pos()),
			key+" is read (first in "+fname(u.fn)+") but nothing assigns it any more: it is the zero value for ever")
	}
	if n == 0 {
		r.Errorf("no struct field reads found for %s", rule)
	}
}
