package rules

import (
	"fmt"
	"go/token"
	"go/types"
	"sort"
	"strings"

	"golang.org/x/tools/go/ssa"

	"verif/sa/core"
	"verif/sa/spec"
)

func init() { Registry["C06"] = c06 }

// messageSpecOf maps the Go message types to the specification entry they implement.
var messageSpecOf = map[string]string{
	"initMessage": "initMessage", "initReq": "initMessage", "initRes": "initMessage",
	"callReq": "callReq", "callRes": "callRes",
	"callReqContinue": "callReqContinue", "callResContinue": "callResContinue",
	"errorMessage": "errorMessage", "cancelMessage": "cancelMessage",
	"pingReq": "pingReq", "pingRes": "pingRes", "noBodyMsg": "pingReq",
}

func c06(p *core.Prog, r *core.Report) {
	r.Explain = "Decides: (R1) the sequence grammar of buffer operations of every message's write and read method (frame header, init, call req/res, continuations, error, cancel, ping, span), extracted from the syntax tree with callees inlined, equals the layout written from the protocol text - field widths, string-length widths, repetition counts and, for the span and header, field order; every type implementing the message interface is covered; (R2) the fragment envelope flags:1 message csumtype:1 csum on both sides; (R3) Frame.write stamps id, type and SetPayloadSize(BytesWritten()), and SetPayloadSize/PayloadSize use the same constant; (R4) every read buffer built on a received frame wraps SizedPayload(), and every direct Payload[...] read is covered by evidence that the declared size reaches it (a size guard, a carrier built only by a successful bounded parse, or call sites dominated by a successful parse of that frame); (R5) the length-prefixed string writers flag strings that do not fit their prefix, and every message.write / Frame.write result is checked by its caller; relay offset constants equal the sums of the specified widths. The 16 header bytes that leave the process come from FrameHeader.write on every path of WriteOut and nothing else writes a frame's raw buffer (census, reviewed table). The whole pooled payload buffer is never wrapped by a read buffer; (R6) every decode loop terminates on truncated input (shared with C03-R4). Statements after an `if … continue/break` inside a repetition are conditional for the layout comparison (a counted element may not be skipped); message decoders do not report success after a read without consulting the buffer's error; exact length-limit comparisons are accepted, off-by-one ones reported with the limit. The code points written verbatim into frames equal the specification's; the init res is sent under the id read from the init req; a constant-index read of a frame payload needs a guard that implies declared size > index. Every unexported field of the root package that is read is also assigned somewhere (reviewed exceptions listed in the checker); ChecksumSize includes farmhash. The dialling side accepts an init res only under the id of its init req; no read buffer is created directly over the Payload field."
	r.NotDecided = "byte-for-byte agreement with an external implementation for all field values; ttl/millisecond rounding; behaviour of the varint and JSON encoders."
	r.Rule("C06-R1", "E5 layout", 18, "message writer = spec and reader = spec; all message types covered")
	r.Rule("C06-R2", "E5 layout", 2, "fragment envelope on both sides")
	r.Rule("C06-R3", "E6 provenance", 4, "header stamping and size constant symmetry")
	r.Rule("C06-R4", "E6 census/guards", 12, "decoding stays inside the declared frame size")
	r.Rule("C06-R5", "E6 guards/census", 8, "over-long values rejected at encode; write errors propagated; offset constants")

	x := &core.LayoutExtractor{P: p}
	check := func(rule string, f *ssa.Function, what, specStr string) {
		if f == nil {
			return
		}
		x.Errs = nil
		l := x.Extract(f)
		if len(x.Errs) > 0 {
			r.Undecided(rule, fname(f), what, p.Pos(f.Pos()), "layout not expressible: "+strings.Join(x.Errs, "; "))
			return
		}
		ok, why := matchLayout(l, parseSpec(specStr))
		r.Check(ok, rule, fname(f), what, p.Pos(f.Pos()), "layout "+orEmpty(l.String())+" = specification", "layout differs from the protocol: "+why+" (code: "+orEmpty(l.String())+"; spec: "+orEmpty(specStr)+")")
	}
	// R1: every type with read(*typed.ReadBuffer) error and write(*typed.WriteBuffer) error
	pkg := p.Pkg("")
	var names []string
	for _, n := range pkg.Scope().Names() {
		names = append(names, n)
	}
	sort.Strings(names)
	covered := 0
	for _, n := range names {
		tn, ok := pkg.Scope().Lookup(n).(*types.TypeName)
		if !ok {
			continue
		}
		if _, isIface := tn.Type().Underlying().(*types.Interface); isIface {
			continue
		}
		rd, wr := ownMethod(p, tn, "read"), ownMethod(p, tn, "write")
		if rd == nil && wr == nil {
			continue
		}
		if !takesBuffer(rd) && !takesBuffer(wr) {
			continue
		}
		var specStr string
		switch n {
		case "FrameHeader":
			specStr = spec.FrameHeader
		case "Span":
			specStr = spec.Tracing
		case "transportHeaders":
			specStr = "rep8[s8 s8]"
		default:
			key, ok := messageSpecOf[n]
			if !ok {
				r.Fail("C06-R1", n, "message type without a specification entry", p.Pos(tn.Pos()), "a type with wire read/write methods is not covered by the layout table")
				continue
			}
			specStr = spec.Messages[key]
		}
		covered++
		if wr != nil {
			check("C06-R1", wr, n+".write layout", specStr)
		}
		if rd != nil {
			check("C06-R1", rd, n+".read layout", specStr)
			readReportsTruncation(p, r, rd, "C06-R4")
		}
	}
	if covered < 10 {
		r.Errorf("only %d wire types found (expected >= 10)", covered)
	}
	// every spec entry has an implementing type
	for key := range spec.Messages {
		found := false
		for _, v := range messageSpecOf {
			if v == key {
				found = true
			}
		}
		if !found {
			r.Errorf("spec entry %s has no implementing type in the table", key)
		}
	}

	// R2 envelope
	envelope := func(f *ssa.Function, inner string) {
		if f == nil {
			return
		}
		x.Errs = nil
		l := x.Extract(f)
		got := kindsOf(l)
		want := strings.Replace(spec.FragmentEnvelope, "<message>", "<"+inner+">", 1)
		r.Check(got == want && len(x.Errs) == 0, "C06-R2", fname(f), "fragment envelope flags:1 message csumtype:1 csum", p.Pos(f.Pos()), "layout "+got, "fragment envelope differs: code "+got+", specification "+want+" "+strings.Join(x.Errs, "; "))
	}
	envelope(mustFunc(p, r, "", "reqResWriter", "newFragment"), "write")
	envelope(mustFunc(p, r, "", "", "parseInboundFragment"), "read")

	c06Stamping(p, r)
	c06RawHeader(p, r)
	c06InitResID(p, r)
	c06InitResChecked(p, r)
	// what goes into a frame comes from somewhere: every field of the message,
	// frame and relay-item structs that is read is also assigned
	readFieldsAreAssigned(p, r, "C06-R3", nil)
	r.Rule("C06-R6", "E6 loops", 15, "decode loops terminate on truncated input (shared with C03)")
	r.Alias("C03-R4", "C06-R6")
	c03Loops(p, r)
	r.Alias("C03-R4", "")
	c06Inside(p, r)
	c06Encode(p, r)
}

func orEmpty(s string) string {
	if s == "" {
		return "(empty)"
	}
	return s
}

// ownMethod returns the method declared directly on the named type (not promoted).
func ownMethod(p *core.Prog, tn *types.TypeName, name string) *ssa.Function {
	n, ok := tn.Type().(*types.Named)
	if !ok {
		return nil
	}
	for i := 0; i < n.NumMethods(); i++ {
		if m := n.Method(i); m.Name() == name {
			return p.SSA.FuncValue(m)
		}
	}
	return nil
}

func takesBuffer(f *ssa.Function) bool {
	if f == nil {
		return false
	}
	for _, prm := range f.Params {
		t := shortTypeName(prm.Type())
		if t == "typed.ReadBuffer" || t == "typed.WriteBuffer" {
			return true
		}
	}
	return false
}

func c06Stamping(p *core.Prog, r *core.Report) {
	fw := mustFunc(p, r, "", "Frame", "write")
	if fw != nil {
		idF := p.Field("", "FrameHeader", "ID")
		mtF := p.Field("", "FrameHeader", "messageType")
		var okID, okMT, okSize bool
		core.EachInstr(fw, func(i ssa.Instruction) {
			if st, ok := i.(*ssa.Store); ok {
				switch core.AddrField(st.Addr) {
				case idF:
					okID = callResult(st.Val, "message.ID") != nil
				case mtF:
					okMT = callResult(st.Val, "message.messageType") != nil
				}
			}
			if c, ok := core.IsCall(i, "FrameHeader.SetPayloadSize"); ok {
				okSize = callResult(core.CallArgs(c)[1], "typed.WriteBuffer.BytesWritten") != nil
			}
		})
		r.Check(okID, "C06-R3", fname(fw), "Header.ID = msg.ID()", p.Pos(fw.Pos()), "id stamped from the message", "frame id not taken from the message")
		r.Check(okMT, "C06-R3", fname(fw), "Header.messageType = msg.messageType()", p.Pos(fw.Pos()), "type stamped from the message", "frame type not taken from the message")
		r.Check(okSize, "C06-R3", fname(fw), "SetPayloadSize(uint16(wbuf.BytesWritten()))", p.Pos(fw.Pos()), "size stamped from the bytes written", "frame size not taken from the bytes written")
	}
	// SetPayloadSize: size = arg + K ; PayloadSize: size - K ; FrameSize: size ; same K = FrameHeaderSize
	hdr, _ := constVal(p, "FrameHeaderSize")
	sizeF := p.Field("", "FrameHeader", "size")
	if sp := mustFunc(p, r, "", "FrameHeader", "SetPayloadSize"); sp != nil {
		ok := false
		var k int64
		core.EachInstr(sp, func(i ssa.Instruction) {
			if st, isSt := i.(*ssa.Store); isSt && core.AddrField(st.Addr) == sizeF {
				base, kk, aff := affine(st.Val)
				if aff && base == ssa.Value(sp.Params[1]) {
					ok, k = true, kk
				}
			}
		})
		r.Check(ok && k == hdr, "C06-R3", fname(sp), "size = payload + FrameHeaderSize", p.Pos(sp.Pos()), fmt.Sprintf("stores payload%+d", k), fmt.Sprintf("SetPayloadSize does not store payload + header size (affine=%v, offset %d)", ok, k))
	}
	if ps := mustFunc(p, r, "", "FrameHeader", "PayloadSize"); ps != nil {
		ok := false
		var k int64
		core.EachInstr(ps, func(i ssa.Instruction) {
			if ret, isRet := i.(*ssa.Return); isRet && len(ret.Results) == 1 {
				base, kk, aff := affine(core.ReturnValues(ret)[0])
				if aff && (core.LoadedField(base) == sizeF || isFieldOf(base, sizeF)) {
					ok, k = true, kk
				}
			}
		})
		r.Check(ok && k == -hdr, "C06-R3", fname(ps), "payload = size - FrameHeaderSize", p.Pos(ps.Pos()), fmt.Sprintf("returns size%+d", k), fmt.Sprintf("PayloadSize does not return size - header size (affine=%v, offset %d)", ok, k))
	}
	if fs := mustFunc(p, r, "", "FrameHeader", "FrameSize"); fs != nil {
		ok := false
		core.EachInstr(fs, func(i ssa.Instruction) {
			if ret, isRet := i.(*ssa.Return); isRet && len(ret.Results) == 1 {
				if fld := core.LoadedField(core.ReturnValues(ret)[0]); fld == sizeF {
					ok = true
				}
				if f, isF := core.ReturnValues(ret)[0].(*ssa.Field); isF && core.FieldOfField(f) == sizeF {
					ok = true
				}
			}
		})
		r.Check(ok, "C06-R3", fname(fs), "FrameSize() = size", p.Pos(fs.Pos()), "frame size is the stored size", "FrameSize does not return the stored size")
	}
	// WriteOut writes header then buffer[:FrameSize()]
	if wo := mustFunc(p, r, "", "Frame", "WriteOut"); wo != nil {
		ok := false
		core.EachInstr(wo, func(i ssa.Instruction) {
			if sl, isSl := i.(*ssa.Slice); isSl {
				if f := core.LoadedField(sl.X); f != nil && f.Name() == "buffer" && sl.Low == nil && callResult(sl.High, "FrameHeader.FrameSize") != nil {
					ok = true
				}
			}
		})
		r.Check(ok, "C06-R3", fname(wo), "writes buffer[:FrameSize()]", p.Pos(wo.Pos()), "exactly the declared number of bytes is written", "WriteOut does not write exactly FrameSize() bytes")
	}
}

// c06RawHeader: the 16 header bytes that leave the process are exactly what
// FrameHeader.write (whose layout R1 compares with the specification)
// produced: WriteOut serialises the header into headerBuffer through it on
// every path before the buffer is written, checks its error, and nothing else
// writes the frame's raw buffer except the constructor, the copy of a received
// header and the test pool's scrubbing of a released frame.
// c06InitResID: the init res echoes the id of the init req it answers: the id
// given to getInitMessage by the inbound handshake is the one readMessage
// returned for the request, and getInitMessage stores its id parameter.
func c06InitResID(p *core.Prog, r *core.Report) {
	f := mustFunc(p, r, "", "Channel", "inboundHandshake")
	g := mustFunc(p, r, "", "Channel", "getInitMessage")
	if f == nil || g == nil {
		return
	}
	fromRead := func(v ssa.Value) bool {
		e, ok := v.(*ssa.Extract)
		return ok && e.Index == 0 && callResult(e.Tuple, "Channel.readMessage") != nil
	}
	n := 0
	for _, c := range core.CallsIn(f, "Channel.getInitMessage") {
		n++
		args := core.CallArgs(c)
		id := args[len(args)-1]
		ok := fromRead(id)
		how := "the id is " + desc(id)
		if u, isU := id.(*ssa.UnOp); isU && u.Op == token.MUL {
			if cell, isA := u.X.(*ssa.Alloc); isA {
				// a named result / captured local: every explicit store into
				// it is the id readMessage returned
				var good, other []*ssa.Store
				var visit func(a ssa.Value)
				visit = func(a ssa.Value) {
					for _, ref := range *a.Referrers() {
						switch x := ref.(type) {
						case *ssa.Store:
							if x.Addr == a {
								if fromRead(x.Val) {
									good = append(good, x)
								} else {
									other = append(other, x)
								}
							}
						case *ssa.MakeClosure:
							fn := x.Fn.(*ssa.Function)
							for k, b := range x.Bindings {
								if b == a {
									visit(fn.FreeVars[k])
								}
							}
						}
					}
				}
				visit(cell)
				// the store of readMessage's id dominates the call, and any other
				// store is the initialisation that precedes it
				ok = false
				for _, gs := range good {
					if gs.Parent() != f || !(gs.Block() == c.Block() && before(gs, c) || gs.Block() != c.Block() && gs.Block().Dominates(c.Block())) {
						continue
					}
					fine := true
					for _, o := range other {
						_, isConst := o.Val.(*ssa.Const)
						if !isConst || o.Parent() != f || !(o.Block() == gs.Block() && before(o, gs) || o.Block() != gs.Block() && o.Block().Dominates(gs.Block())) {
							fine = false
						}
					}
					if fine {
						ok = true
					}
				}
				how = fmt.Sprintf("%d stores of readMessage's id, %d other stores into the id variable", len(good), len(other))
			}
		}
		r.Check(ok, "C06-R3", fname(f), "init res carries the id of the init req", p.Pos(c.Pos()), "getInitMessage(ctx, <id returned by readMessage>)", "the init res is not sent under the id the peer chose for its init req ("+how+")")
	}
	if n == 0 {
		r.Errorf("inboundHandshake: no getInitMessage call found")
	}
	idF := p.Field("", "initMessage", "id")
	ok := false
	core.EachInstr(g, func(i ssa.Instruction) {
		if st, isSt := i.(*ssa.Store); isSt && core.AddrField(st.Addr) == idF && len(g.Params) > 0 && st.Val == ssa.Value(g.Params[len(g.Params)-1]) {
			ok = true
		}
	})
	r.Check(ok, "C06-R3", fname(g), "initMessage.id = id parameter", p.Pos(g.Pos()), "id stored unchanged", "the init message does not carry the id it was asked to carry")
}

// c06InitResChecked: the dialling side accepts an init res only under the id
// of its init req: the connection is constructed under an equality test of
// the id readMessage returned for the response.
func c06InitResChecked(p *core.Prog, r *core.Report) {
	f := mustFunc(p, r, "", "Channel", "outboundHandshake")
	if f == nil {
		return
	}
	ncs := core.CallsIn(f, "Channel.newConnection")
	if len(ncs) == 0 {
		r.Errorf("outboundHandshake: no newConnection call found")
		return
	}
	isResID := func(v ssa.Value) bool {
		e, ok := v.(*ssa.Extract)
		return ok && e.Index == 0 && callResult(e.Tuple, "Channel.readMessage") != nil
	}
	ok := false
	for _, c := range factsAt(ncs[0].Block()).cmps {
		if c.Op == token.EQL && (isResID(c.X) || isResID(c.Y)) {
			ok = true
		}
	}
	r.Check(ok, "C06-R3", fname(f), "init res accepted only under the id of the init req", p.Pos(ncs[0].Pos()), "newConnection is dominated by an equality test of the response frame's id", "an init res with any id is accepted: the id of the handshake frames is no longer checked")
}

func c06RawHeader(p *core.Prog, r *core.Report) {
	bufF := p.Field("", "Frame", "buffer")
	hdrF := p.Field("", "Frame", "headerBuffer")
	if bufF == nil || hdrF == nil {
		r.Errorf("Frame.buffer / Frame.headerBuffer do not resolve")
		return
	}
	wo := mustFunc(p, r, "", "Frame", "WriteOut")
	if wo != nil {
		var hw ssa.CallInstruction
		wrapped := false
		var wr []ssa.Instruction
		core.EachInstr(wo, func(i ssa.Instruction) {
			if c, ok := core.IsCall(i, "FrameHeader.write"); ok {
				hw = c
			}
			if c, ok := core.IsCall(i, "typed.WriteBuffer.Wrap"); ok {
				if core.LoadedField(core.CallArgs(c)[1]) == hdrF {
					wrapped = true
				}
			}
			if _, ok := core.IsCall(i, "io.Writer.Write"); ok {
				wr = append(wr, i)
			}
		})
		ok := hw != nil && wrapped && len(wr) > 0
		how := "header serialised by FrameHeader.write into headerBuffer before every Write"
		if ok {
			res := core.ReachAvoiding(wo, nil, func(j ssa.Instruction) bool {
				_, w := core.IsCall(j, "io.Writer.Write")
				return w
			}, func(j ssa.Instruction) bool { return j == hw.(ssa.Instruction) }, nil)
			if res.Found {
				ok = false
			}
			// the error of the header write is looked at (an over-long / failed header must not go out)
			if v := hw.Value(); v == nil || len(*v.Referrers()) == 0 {
				ok = false
			}
		}
		r.Check(ok, "C06-R3", fname(wo), "header bytes = FrameHeader.write(headerBuffer) before Write", p.Pos(wo.Pos()), how,
			"WriteOut can put the buffer on the wire without first serialising the header through FrameHeader.write into headerBuffer (stale or partial header bytes go out)")
	}
	// who may write the raw buffer
	type allow struct{ fn, what string }
	allowed := map[allow]string{
		{"NewFrame", "store"}:                                "constructor carves Payload and headerBuffer out of the buffer",
		{"(*Frame).ReadBody", "copy-dst"}:                    "copy of the received 16 header bytes (mirror of the wire)",
		{"(*Frame).WriteOut", "typed.WriteBuffer.Wrap"}:      "the layout-checked header writer",
		{"(*Frame).WriteOut", "io.Writer.Write"}:             "the frame goes to the wire",
		{"(*CheckedFramePoolForTest).Release", "zeroOut"}:    "test pool scrubs a released frame",
		{"(*CheckedFramePoolForTest).Release", "fieldstore"}: "test pool scrubs a released frame",
	}
	n := 0
	for _, fn := range p.SrcFuncs {
		if pkgOf(fn) != core.Root {
			continue
		}
		derived := map[ssa.Value]bool{}
		core.EachInstr(fn, func(i ssa.Instruction) {
			if v, ok := i.(ssa.Value); ok {
				if f := core.LoadedField(v); f == bufF || f == hdrF {
					derived[v] = true
				}
			}
		})
		if len(derived) == 0 {
			// direct stores to the fields (f.buffer = x) still count
		}
		for changed := true; changed; {
			changed = false
			core.EachInstr(fn, func(i ssa.Instruction) {
				switch x := i.(type) {
				case *ssa.Slice:
					if derived[x.X] && !derived[x] {
						derived[x] = true
						changed = true
					}
				case *ssa.Phi:
					for _, e := range x.Edges {
						if derived[e] && !derived[x] {
							derived[x] = true
							changed = true
						}
					}
				}
			})
		}
		report := func(i ssa.Instruction, what, desc string) {
			n++
			_, ok := allowed[allow{fname(fn), what}]
			r.Check(ok, "C06-R3", fname(fn), "raw frame buffer: "+desc, p.Pos(i.Pos()), "reviewed writer of the raw frame buffer: "+allowed[allow{fname(fn), what}],
				"the frame's raw header/buffer bytes are written outside FrameHeader.write ("+desc+"): the bytes on the wire no longer come from the layout-checked header writer")
		}
		core.EachInstr(fn, func(i ssa.Instruction) {
			switch x := i.(type) {
			case *ssa.Store:
				if f := core.AddrField(x.Addr); f == bufF || f == hdrF {
					if fname(fn) == "NewFrame" {
						report(i, "store", "field "+f.Name()+" assigned")
					} else {
						report(i, "fieldstore", "field "+f.Name()+" assigned")
					}
					return
				}
				if ia, ok := x.Addr.(*ssa.IndexAddr); ok && derived[ia.X] {
					report(i, "index-store", "element store into the raw buffer")
					return
				}
				if derived[x.Val] {
					report(i, "store", "slice of the raw buffer stored")
				}
			case ssa.CallInstruction:
				cc := x.Common()
				if b, ok := cc.Value.(*ssa.Builtin); ok {
					if b.Name() == "copy" && derived[cc.Args[0]] {
						report(i, "copy-dst", "copy into the raw buffer")
					}
					if b.Name() == "append" && derived[cc.Args[0]] {
						report(i, "append", "append to the raw buffer")
					}
					return
				}
				for _, a := range core.CallArgs(x) {
					if derived[a] {
						k := "dynamic call"
						if o := core.CalleeObj(x); o != nil {
							k = core.ShortKey(o)
						}
						report(i, k, "passed to "+k)
					}
				}
			}
		})
	}
	if n < 6 {
		r.Errorf("C06-R3 raw-buffer census matched %d sites (expected at least 6): anchors moved", n)
	}
}

// c06Inside: decoding looks only at bytes inside the declared size.
func c06Inside(p *core.Prog, r *core.Report) {
	payloadF := p.Field("", "Frame", "Payload")
	if payloadF == nil {
		r.Errorf("Frame.Payload does not resolve")
		return
	}
	// (a) read buffers on frames wrap SizedPayload()
	for _, cs := range p.CallsTo("typed.NewReadBuffer", "typed.ReadBuffer.Wrap") {
		if pk := pkgOf(cs.Fn); pk != core.Root {
			continue
		}
		args := core.CallArgs(cs.Call)
		arg := args[len(args)-1]
		src := sliceRoot(arg)
		fromPayload := core.LoadedField(src) == payloadF
		fromSized := callResult(src, "Frame.SizedPayload") != nil
		if !fromPayload && !fromSized {
			continue // not a frame (header buffer, arg bytes)
		}
		if fromSized {
			r.Ok("C06-R4", fname(cs.Fn), "read buffer over SizedPayload()", p.Pos(cs.Call.Pos()), "bounded by the declared payload size")
		}
		// fromPayload: handled as a direct read below
	}
	// (b) direct reads of Payload
	type site struct {
		fn   *ssa.Function
		ins  ssa.Instruction
		base ssa.Value // the *Frame value whose Payload is read
	}
	var sites []site
	for _, f := range p.SrcFuncs {
		if pkgOf(f) != core.Root {
			continue
		}
		core.EachInstr(f, func(i ssa.Instruction) {
			var X ssa.Value
			switch x := i.(type) {
			case *ssa.IndexAddr:
				X = x.X
			case *ssa.Slice:
				X = x.X
			default:
				return
			}
			ld, ok := X.(*ssa.UnOp)
			if !ok || core.LoadedField(ld) != payloadF {
				return
			}
			fa := ld.X.(*ssa.FieldAddr)
			sites = append(sites, site{f, i, fa.X})
		})
	}
	sizedEvidence := func(v ssa.Value) bool {
		return callResult(v, "FrameHeader.PayloadSize") != nil
	}
	// a read buffer directly over the Payload field (no slice expression at
	// all) decodes the whole pooled buffer as well
	for _, f := range p.SrcFuncs {
		if pkgOf(f) != core.Root {
			continue
		}
		f := f
		core.EachInstr(f, func(i ssa.Instruction) {
			c, ok := core.IsCall(i, "typed.ReadBuffer.Wrap", "typed.NewReadBuffer")
			if !ok {
				return
			}
			args := core.CallArgs(c)
			if ld, isLd := args[len(args)-1].(*ssa.UnOp); isLd && core.LoadedField(ld) == payloadF {
				r.Fail("C06-R4", fname(f), "Payload wrapped by a read buffer", p.Pos(i.Pos()), "a read buffer covers the whole pooled payload buffer instead of the declared size: a truncated message is completed from stale bytes of an earlier frame")
			}
		})
	}
	for _, s := range sites {
		name := sinkName(s.ins)
		fn := fname(s.fn)
		pos := p.Pos(s.ins.Pos())
		// writer side: whole-buffer slice for a write buffer, or SizedPayload itself
		if sl, ok := s.ins.(*ssa.Slice); ok {
			if sl.Low == nil && sl.High == nil {
				// the whole buffer may be handed to a writer, never to a reader:
				// a read buffer over it decodes stale bytes beyond the declared size
				toReader := false
				for _, ref := range *sl.Referrers() {
					if _, isRd := core.IsCall(ref, "typed.ReadBuffer.Wrap", "typed.NewReadBuffer"); isRd {
						toReader = true
					}
				}
				if toReader {
					r.Fail("C06-R4", fn, name+" wrapped by a read buffer", pos, "a read buffer covers the whole pooled payload buffer instead of the declared size: a truncated message is completed from stale bytes of an earlier frame")
					continue
				}
				r.OkTrivial("C06-R4", fn, name, pos, "full payload buffer handed to a writer")
				continue
			}
			if sl.Low == nil && sizedEvidence(sl.High) {
				r.Ok("C06-R4", fn, name, pos, "this is the size-bounded view itself")
				continue
			}
		}
		// E1: carrier built only by a successful bounded parse
		if cf := core.LoadedField(s.base); cf != nil && cf.Name() == "Frame" {
			owner := shortTypeName(baseOwner(s.base))
			if owner == "lazyCallReq" || owner == "lazyCallRes" {
				r.Ok("C06-R4", fn, name, pos, "frame of a "+owner+", which exists only after a successful size-bounded parse of this frame (INV-LAZY)")
				continue
			}
		}
		if fld, ok := s.base.(*ssa.Field); ok && core.FieldOfField(fld).Name() == "Frame" {
			owner := shortTypeName(fld.X.Type())
			if owner == "lazyCallReq" || owner == "lazyCallRes" {
				r.Ok("C06-R4", fn, name, pos, "frame of a "+owner+" (INV-LAZY)")
				continue
			}
		}
		// E2: local guard on the declared size
		fs := factsAt(s.ins.Block())
		guard := false
		// a constant index K needs a guard that implies "declared size > K";
		// any comparison with the declared size is accepted for other sinks
		var constIdx int64 = -1
		if ia, isIA := s.ins.(*ssa.IndexAddr); isIA {
			if k, isK := core.ConstInt(ia.Index); isK {
				constIdx = k
			}
		}
		weak := ""
		for _, c := range fs.cmps {
			if sizedEvidence(core.StripConv(c.X)) || sizedEvidence(core.StripConv(c.Y)) {
				if constIdx < 0 {
					guard = true
					continue
				}
				x, y, op := core.StripConv(c.X), core.StripConv(c.Y), c.Op
				if sizedEvidence(y) {
					x, y = y, x
					op = mirror(op)
				}
				lim, isK := core.ConstInt(y)
				switch {
				case !isK:
					guard = true // compared with something that is not a constant: not judged here
				case op == token.GTR && lim >= constIdx, op == token.GEQ && lim >= constIdx+1:
					guard = true
				default:
					weak = fmt.Sprintf("the guard `declared size %s %d` does not imply that byte %d lies inside the declared payload", op, lim, constIdx)
				}
				continue
			}
			if lx := lenOperand(c.X); lx != nil && callResult(lx, "Frame.SizedPayload") != nil {
				guard = true
			}
		}
		if guard {
			r.Ok("C06-R4", fn, name, pos, "dominated by a test of the declared payload size")
			continue
		}
		if weak != "" {
			r.Fail("C06-R4", fn, name, pos, weak+": for a shorter frame a stale byte of the pooled buffer is decoded")
			continue
		}
		// E3: base is a *Frame parameter and every call site is dominated by a successful bounded parse of the same frame
		prm, isP := s.base.(*ssa.Parameter)
		var bad []string
		if isP {
			idx := -1
			for k, q := range s.fn.Params {
				if q == prm {
					idx = k
				}
			}
			n := 0
			for _, cs := range p.SrcFuncs {
				core.EachInstr(cs, func(i ssa.Instruction) {
					c, ok := i.(ssa.CallInstruction)
					if !ok || c.Common().StaticCallee() != s.fn {
						return
					}
					n++
					arg := c.Common().Args[idx]
					if !parsedBefore(p, c, arg) {
						bad = append(bad, fname(cs))
					}
				})
			}
			if n > 0 && len(bad) == 0 {
				r.Ok("C06-R4", fn, name, pos, fmt.Sprintf("all %d call sites are dominated by a successful size-bounded parse of the same frame", n))
				continue
			}
		}
		sort.Strings(bad)
		bad = dedupe(bad)
		construct := name
		if len(bad) > 0 {
			construct += " (callers without size evidence: " + strings.Join(bad, ", ") + ")"
		}
		r.Fail("C06-R4", fn, construct, pos, "reads payload bytes without evidence that the declared frame size covers them: for a truncated frame these are stale bytes of an earlier frame in the pooled buffer")
	}
}

func pkgOf(f *ssa.Function) string {
	for g := f; g != nil; g = g.Parent() {
		if g.Pkg != nil {
			return g.Pkg.Pkg.Path()
		}
	}
	return ""
}

func sliceRoot(v ssa.Value) ssa.Value {
	for {
		if sl, ok := v.(*ssa.Slice); ok {
			v = sl.X
			continue
		}
		return v
	}
}

func baseOwner(v ssa.Value) types.Type {
	// v = load of &X.Frame : owner is the type of X
	if u, ok := v.(*ssa.UnOp); ok {
		if fa, ok := u.X.(*ssa.FieldAddr); ok {
			return fa.X.Type()
		}
	}
	return v.Type()
}

func lenOperand(v ssa.Value) ssa.Value {
	c, ok := core.StripConv(v).(*ssa.Call)
	if !ok {
		return nil
	}
	if b, ok := c.Call.Value.(*ssa.Builtin); ok && b.Name() == "len" {
		return c.Call.Args[0]
	}
	return nil
}

// parsedBefore: the call is dominated by the nil-error arm of a bounded parse
// (parseInboundFragment / newLazyCallReq / newLazyCallRes / Frame.read) of the same frame value.
func parsedBefore(p *core.Prog, c ssa.CallInstruction, frame ssa.Value) bool {
	fs := factsAt(c.Block())
	ok := false
	isParseErr := func(v ssa.Value) bool {
		pc := callResult(v, "parseInboundFragment", "newLazyCallReq", "newLazyCallRes", "Frame.read")
		if pc == nil {
			return false
		}
		for _, a := range core.CallArgs(pc) {
			if a == frame {
				return true
			}
		}
		return false
	}
	if fs.nilCmp(isParseErr, true) {
		ok = true
	}
	// the frame is taken out of a carrier that exists only after a successful bounded parse
	if cf := core.LoadedField(frame); cf != nil && cf.Name() == "Frame" {
		owner := shortTypeName(baseOwner(frame))
		if owner == "lazyCallReq" || owner == "lazyCallRes" {
			ok = true
		}
	}
	if fld, isF := frame.(*ssa.Field); isF && core.FieldOfField(fld).Name() == "Frame" {
		owner := shortTypeName(fld.X.Type())
		if owner == "lazyCallReq" || owner == "lazyCallRes" {
			ok = true
		}
	}
	return ok
}

func c06Encode(p *core.Prog, r *core.Report) {
	// R5a: WriteLen8String / WriteLen16String: setErr under the truncation test of the same length
	for _, name := range []string{"WriteLen8String", "WriteLen16String", "WriteLen16Bytes"} {
		f := p.Func("typed", "WriteBuffer", name)
		if f == nil {
			continue
		}
		okc := false
		maxLen := int64(255)
		if strings.Contains(name, "16") {
			maxLen = 65535
		}
		why := "over-long strings are silently truncated"
		for _, c := range core.CallsIn(f, "typed.WriteBuffer.setErr") {
			fs := factsAt(c.Block())
			for _, cm := range fs.cmps {
				// int(T(len(s))) != len(s)
				if cm.Op == token.NEQ {
					lx, ly := lenOperand(cm.X), lenOperand(cm.Y)
					if (lx != nil) != (ly != nil) || lenThroughTrunc(cm.X) || lenThroughTrunc(cm.Y) {
						okc = true
					}
					continue
				}
				// or an exact comparison with the largest representable length:
				// len > max / len >= max+1 (anything else rejects valid lengths or admits over-long ones)
				if lenOperand(cm.X) == nil {
					continue
				}
				k, isK := core.ConstInt(cm.Y)
				if !isK {
					continue
				}
				switch {
				case cm.Op == token.GTR && k == maxLen, cm.Op == token.GEQ && k == maxLen+1:
					okc = true
				default:
					why = fmt.Sprintf("the length limit is tested as len %s %d; the prefix holds lengths up to %d exactly", cm.Op, k, maxLen)
				}
			}
		}
		r.Check(okc, "C06-R5", fname(f), "over-long value flagged (setErr under a round-trip test of the length)", p.Pos(f.Pos()), "length that does not survive truncation to the prefix width sets the sticky error", why)
	}
	// R5b: write errors are checked
	for _, cs := range p.CallsTo("message.write", "Frame.write", "FrameHeader.write", "Span.write") {
		if pkgOf(cs.Fn) != core.Root {
			continue
		}
		v := cs.Call.Value()
		if v == nil {
			continue
		}
		// Span.write inside message writers: its error is the shared sticky error of the buffer, returned by w.Err()
		if o := core.CalleeObj(cs.Call); o != nil && core.ShortKey(o) == "Span.write" {
			stickyOK := false
			core.EachInstr(cs.Fn, func(i ssa.Instruction) {
				if ret, ok := i.(*ssa.Return); ok && len(ret.Results) == 1 && callResult(core.ReturnValues(ret)[0], "typed.WriteBuffer.Err") != nil {
					stickyOK = true
				}
			})
			r.Check(stickyOK, "C06-R5", fname(cs.Fn), "span write error surfaces through the buffer's sticky error", p.Pos(cs.Call.Pos()), "function returns w.Err()", "span write error is lost")
			continue
		}
		used := false
		if refs := v.Referrers(); refs != nil {
			for _, ref := range *refs {
				if _, isDbg := ref.(*ssa.DebugRef); !isDbg {
					used = true
				}
			}
		}
		r.Check(used, "C06-R5", fname(cs.Fn), "error of "+calleeShort(cs.Call)+" is used", p.Pos(cs.Call.Pos()), "result is tested or returned", "encode error discarded")
	}
	// R5d: the code points written verbatim into frames are the specification's
	wireCodes(p, r, "C06-R5", "frame", "checksum", "error")
	checksumSizes(p, r, "C06-R5")
	// R5c: relay offset constants equal the specified sums
	var names []string
	for n := range spec.Offsets {
		names = append(names, n)
	}
	sort.Strings(names)
	for _, n := range names {
		got, ok := constVal(p, n)
		if !ok {
			r.Errorf("constant %s does not resolve (renamed or removed): cannot decide the offset", n)
			continue
		}
		r.Check(got == spec.Offsets[n], "C06-R5", "constants", n+" = "+fmt.Sprint(spec.Offsets[n]), "-", "equals the sum of the specified field widths", fmt.Sprintf("constant is %d (resolved=%v), the layout implies %d", got, ok, spec.Offsets[n]))
	}
}

// affine: v = base + k for integer constants folded through +/- chains and conversions.
func affine(v ssa.Value) (ssa.Value, int64, bool) {
	var k int64
	for depth := 0; depth < 16; depth++ {
		switch x := v.(type) {
		case *ssa.Convert:
			v = x.X
			continue
		case *ssa.BinOp:
			c, isC := core.ConstInt(x.Y)
			if !isC {
				return v, k, true
			}
			switch x.Op {
			case token.ADD:
				k += c
			case token.SUB:
				k -= c
			default:
				return v, k, true
			}
			v = x.X
			continue
		}
		return v, k, true
	}
	return v, k, false
}

func isFieldOf(v ssa.Value, f *types.Var) bool {
	fl, ok := v.(*ssa.Field)
	return ok && core.FieldOfField(fl) == f
}

func lenThroughTrunc(v ssa.Value) bool {
	// int(byte(len(s))) : conversions around a len call with a narrowing step
	narrowed := false
	for {
		c, ok := v.(*ssa.Convert)
		if !ok {
			break
		}
		if b, ok := c.Type().Underlying().(*types.Basic); ok && (b.Kind() == types.Uint8 || b.Kind() == types.Uint16) {
			narrowed = true
		}
		v = c.X
	}
	return narrowed && lenOperand(v) != nil
}

func calleeShort(c ssa.CallInstruction) string {
	if o := core.CalleeObj(c); o != nil {
		return core.ShortKey(o)
	}
	return "call"
}

// readReportsTruncation: a message decoder that read from the buffer does not
// report success without consulting the buffer's sticky error afterwards: a
// body cut anywhere after the last check would otherwise decode "successfully"
// (the typed buffer returns zero values once it has failed).
func readReportsTruncation(p *core.Prog, r *core.Report, f *ssa.Function, rule string) {
	if f.Signature.Results().Len() != 1 {
		return
	}
	isRead := func(i ssa.Instruction) bool {
		c, ok := i.(*ssa.Call)
		if !ok {
			return false
		}
		o := core.CalleeObj(c)
		if o == nil {
			return false
		}
		k := core.ShortKey(o)
		if strings.HasPrefix(k, "typed.ReadBuffer.Read") || strings.HasPrefix(k, "typed.ReadBuffer.Skip") {
			return true
		}
		// a nested decoder given the same buffer
		if g := c.Call.StaticCallee(); g != nil && p.InAnalysed(g) && g != f {
			for _, a := range c.Call.Args {
				if strings.HasSuffix(a.Type().String(), "typed.ReadBuffer") {
					return true
				}
			}
		}
		return false
	}
	isErrCheck := func(i ssa.Instruction) bool {
		if _, ok := core.IsCall(i, "typed.ReadBuffer.Err"); ok {
			return true
		}
		// a nested decoder's returned error counts when it is itself returned / tested
		return false
	}
	isNilRet := func(i ssa.Instruction) bool {
		ret, ok := i.(*ssa.Return)
		return ok && core.IsNilConst(core.ReturnValues(ret)[0])
	}
	how := ""
	n := 0
	core.EachInstr(f, func(i ssa.Instruction) {
		if !isRead(i) || how != "" {
			return
		}
		n++
		// a nested decoder call whose error is returned directly is fine
		res := core.ReachAvoiding(f, i, isNilRet, isErrCheck, nil)
		if res.Found {
			how = "after the read at " + p.Pos(i.Pos()) + " the decoder can return nil without looking at the buffer's error: a truncated body is accepted"
		}
	})
	if n == 0 {
		return
	}
	r.Check(how == "", rule, fname(f), "decoder reports truncation (no nil return after a read without an Err() check)", p.Pos(f.Pos()), "every success return after a read passes ReadBuffer.Err()", how)
}
