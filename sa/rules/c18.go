package rules

import (
	"fmt"
	"go/token"
	"go/types"
	"sort"
	"strings"

	"golang.org/x/tools/go/ssa"

	"verif/sa/core"
	"verif/sa/spec"
)

func init() { Registry["C18"] = c18 }

func c18(p *core.Prog, r *core.Report) {
	r.Explain = "Decides: (R1) totality of the codec packages on arbitrary bytes as far as index/slice/make/library-length sinks go: every such sink in typed (ReadBuffer, Reader), thrift header reading, the arg2 key/value iterator and the HTTP codec is in bounds for all operand values, including negative lengths produced by uint64->int conversion; (R2) writer/reader symmetry against layouts written from the documented encodings: thrift headers nh:2 (k~2 v~2)*, HTTP request method~1 url~varint headers, HTTP response status:2 message~varint headers, the iterator's per-pair k~2 v~2, repeated HTTP header values written and appended one pair per value; (R3) the iterator's Next returns io.EOF exactly at zero remaining pairs and otherwise decrements the count by one and advances over exactly the bytes it parsed; (R4) header plumbing by value provenance: thrift and JSON clients write the context's request headers as arg2 and set the decoded response headers on the caller's context; servers build the handler context from the decoded arg2 headers and write the context's response headers. Response variables that a retried call decodes in place are re-initialised at the start of every attempt. (R5) pooled codec objects are reset when taken from the pool (shared with C04). Response headers are set on the caller's context on every successful return (empty maps included); the typed buffer's length limits are exact (shared with C06). The transport's tracing keys are removed from the application headers on every path after the tracer's Extract. A return whose error value is not known to be non-nil counts as a possibly successful return for the response-header rule; the HTTP codec's arg2 buffer has the documented constant size."
	r.NotDecided = "value equality of decoded and encoded maps for all contents; behaviour of encoding/json and the thrift struct codecs; size limits of the 10000-byte HTTP buffer."
	r.Rule("C18-R1", "E3 ranges", 12, "codec sinks in bounds for all operand values")
	r.Rule("C18-R2", "E5 layout", 8, "codec writer/reader layouts equal the documented encodings")
	r.Rule("C18-R3", "E6 guards", 3, "iterator consumes exactly the pairs present")
	r.Rule("C18-R4", "E6 provenance", 8, "application headers flow context -> arg2 -> handler context and back")

	a := core.NewRanges(p)
	a.Auto = true
	a.RetLenOf = func(f *ssa.Function) (core.RetLen, bool) { return retLenSummary(f) }
	c03Sinks(p, r, a, "C18-R1", peerFuncs(p, true))

	c18Layouts(p, r)
	c18Iterator(p, r)
	c18Plumbing(p, r)
	// bad input fails only that input: pooled codec objects (the typed.Reader
	// behind thrift header reading) carry no sticky error into the next use
	// header maps round-trip up to the 16-bit limit: the length checks of the typed buffer are exact (shared with C06-R5)
	r.Alias("C06-R5", "C18-R2")
	c06Encode(p, r)
	r.Alias("C06-R5", "")
	r.Rule("C18-R5", "E6 census/paths", 3, "pooled codec objects are reset when taken from the pool (shared with C04)")
	r.Alias("C04-R7", "C18-R5")
	c04Pools(p, r)
	r.Alias("C04-R7", "")
}

func c18Layouts(p *core.Prog, r *core.Report) {
	x := &core.LayoutExtractor{P: p}
	check := func(f *ssa.Function, what, specStr string) {
		if f == nil {
			return
		}
		x.Errs = nil
		l := x.Extract(f)
		got := kindsOf(l)
		ok := got == specStr && len(x.Errs) == 0
		r.Check(ok, "C18-R2", fname(f), what, p.Pos(f.Pos()), "layout "+got, "layout differs from the documented encoding: code "+orEmpty(got)+", documented "+specStr+" "+strings.Join(x.Errs, "; "))
	}
	check(mustFunc(p, r, "thrift", "", "WriteHeaders"), "thrift header writer", spec.Codecs["thriftHeaders"])
	check(mustFunc(p, r, "thrift", "", "readHeaders"), "thrift header reader", spec.Codecs["thriftHeaders"])
	check(mustFunc(p, r, "http", "", "WriteRequest"), "http request writer", spec.Codecs["httpRequest"])
	check(mustFunc(p, r, "http", "", "ReadRequest"), "http request reader", spec.Codecs["httpRequest"])
	check(mustFunc(p, r, "http", "tchanResponseWriter", "writeHeaders"), "http response writer", spec.Codecs["httpResponse"])
	check(mustFunc(p, r, "http", "", "ReadResponse"), "http response reader", spec.Codecs["httpResponse"])
	check(mustFunc(p, r, "thrift/arg2", "KeyValIterator", "Next"), "arg2 iterator: one pair", "s16 s16")
	// the relay's append writes pairs in the same encoding
	if f := mustFunc(p, r, "", "", "writeArg2WithAppends"); f != nil {
		x.Errs = nil
		l := x.Extract(f)
		got := kindsOf(l)
		// u16 (count) , verbatim original pairs, then appended pairs k~2 v~2
		ok := strings.HasPrefix(got, "u16 ") && strings.HasSuffix(got, "[s16 s16]")
		r.Check(ok, "C18-R2", fname(f), "relay arg2 append writes nh:2, the original pairs, then k~2 v~2 pairs", p.Pos(f.Pos()), "layout "+got, "appended pairs are not written as k~2 v~2 after a 16-bit count: "+got)
	}
	// NewKeyValIterator: count is the first two bytes, pairs start at offset 2
	if f := mustFunc(p, r, "thrift/arg2", "", "NewKeyValIterator"); f != nil {
		okCount, okRest := false, false
		core.EachInstr(f, func(i ssa.Instruction) {
			if sl, ok := i.(*ssa.Slice); ok && sl.X == ssa.Value(f.Params[0]) {
				lo, hasLo := int64(0), true
				if sl.Low != nil {
					lo, hasLo = core.ConstInt(sl.Low)
				}
				if sl.High != nil {
					if hi, ok := core.ConstInt(sl.High); ok && hasLo && lo == 0 && hi == 2 {
						okCount = true
					}
				} else if hasLo && lo == 2 {
					okRest = true
				}
			}
		})
		r.Check(okCount && okRest, "C18-R2", fname(f), "count = payload[0:2], pairs = payload[2:]", p.Pos(f.Pos()), "16-bit count then pairs", "iterator does not take a 16-bit count followed by the pairs")
	}
	// repeated HTTP headers: reader appends per value
	if f := mustFunc(p, r, "http", "", "readHeaders"); f != nil {
		ok := false
		core.EachInstr(f, func(i ssa.Instruction) {
			mu, isMU := i.(*ssa.MapUpdate)
			if !isMU {
				return
			}
			if c, isC := mu.Value.(*ssa.Call); isC {
				if b, isB := c.Call.Value.(*ssa.Builtin); isB && b.Name() == "append" {
					if lk, isL := c.Call.Args[0].(*ssa.Lookup); isL && lk.Index == mu.Key && lk.X == mu.Map {
						ok = true
					}
				}
			}
		})
		r.Check(ok, "C18-R2", fname(f), "form[k] = append(form[k], v)", p.Pos(f.Pos()), "each decoded pair is appended to the values of its key", "repeated header values overwrite each other")
	}
	// repeated HTTP headers: the deferred pair count is the number of pairs
	// written (one per value, not one per name): a counter that starts at 0 and
	// is advanced by one exactly where a pair is written
	if f := mustFunc(p, r, "http", "", "writeHeaders"); f != nil {
		ok, how := false, "no deferred count update found"
		for _, u := range core.CallsIn(f, "typed.Uint16Ref.Update") {
			a := core.CallArgs(u)
			if len(a) != 2 {
				continue
			}
			seen := map[ssa.Value]bool{}
			addBlocks := map[*ssa.BasicBlock]bool{}
			bad := ""
			var walk func(v ssa.Value)
			walk = func(v ssa.Value) {
				if seen[v] {
					return
				}
				seen[v] = true
				switch x := v.(type) {
				case *ssa.Phi:
					for _, e := range x.Edges {
						walk(e)
					}
				case *ssa.Const:
					if k, isK := core.ConstInt(x); !isK || k != 0 {
						bad = "the count starts at " + desc(x)
					}
				case *ssa.BinOp:
					if k, isK := core.ConstInt(x.Y); x.Op == token.ADD && isK && k == 1 {
						addBlocks[x.Block()] = true
						walk(x.X)
					} else {
						bad = "the count is computed as " + desc(x)
					}
				default:
					bad = "the count is " + desc(v) + ", not a counter of written pairs"
				}
			}
			walk(a[1])
			writeBlocks := map[*ssa.BasicBlock]bool{}
			for _, w := range core.CallsIn(f, "typed.WriteBuffer.WriteLen16String") {
				writeBlocks[w.Block()] = true
			}
			for b := range writeBlocks {
				if !addBlocks[b] && bad == "" {
					bad = "a pair is written without advancing the count"
				}
			}
			for b := range addBlocks {
				if !writeBlocks[b] && bad == "" {
					bad = "the count is advanced where no pair is written"
				}
			}
			ok, how = bad == "" && len(addBlocks) > 0, "the deferred header count is not the number of pairs written ("+bad+"): a multi-valued header makes the reader stop early or run past the pairs"
		}
		r.Check(ok, "C18-R2", fname(f), "deferred count = number of pairs written", p.Pos(f.Pos()), "counter from 0, +1 per written pair", how)
	}
}

func c18Iterator(p *core.Prog, r *core.Report) {
	f := mustFunc(p, r, "thrift/arg2", "KeyValIterator", "Next")
	if f == nil {
		return
	}
	cntF := mustField(p, r, "thrift/arg2", "KeyValIterator", "leftPairCount")
	remF := mustField(p, r, "thrift/arg2", "KeyValIterator", "remaining")
	if cntF == nil || remF == nil {
		return
	}
	isCnt := func(v ssa.Value) bool {
		if fl, ok := v.(*ssa.Field); ok {
			return core.FieldOfField(fl) == cntF
		}
		return core.LoadedField(v) == cntF
	}
	// EOF exactly when count <= 0: a return of io.EOF guarded by count <= 0, and the parse path guarded by count > 0
	eofOK, decOK, remOK, errOK := false, false, false, false
	core.EachInstr(f, func(i ssa.Instruction) {
		switch x := i.(type) {
		case *ssa.Return:
			rv := core.ReturnValues(x)
			if len(rv) == 2 && loadsGlobalPkg(rv[1], "EOF") {
				fs := factsAt(x.Block())
				if fs.hasCmp(isCnt, []token.Token{token.LEQ, token.EQL}, 0) || fs.hasCmp(isCnt, []token.Token{token.LSS}, 1) {
					eofOK = true
				}
			}
		case *ssa.Store:
			// building the returned iterator: leftPairCount = old - 1 ; remaining = rbuf.Remaining()
			switch core.AddrField(x.Addr) {
			case cntF:
				if bo, ok := x.Val.(*ssa.BinOp); ok && bo.Op == token.SUB && isCnt(bo.X) {
					if k, ok := core.ConstInt(bo.Y); ok && k == 1 {
						decOK = true
					}
				}
			case remF:
				if callResult(x.Val, "typed.ReadBuffer.Remaining") != nil {
					remOK = true
				}
			}
		}
	})
	// parse errors are returned: a return under rbuf.Err() != nil
	core.EachInstr(f, func(i ssa.Instruction) {
		if ret, ok := i.(*ssa.Return); ok {
			fs := factsAt(ret.Block())
			if fs.nilCmp(func(v ssa.Value) bool { return callResult(v, "typed.ReadBuffer.Err") != nil }, false) {
				errOK = true
			}
		}
	})
	r.Check(eofOK, "C18-R3", fname(f), "io.EOF exactly when no pair is left", p.Pos(f.Pos()), "EOF return is guarded by leftPairCount <= 0", "EOF is not tied to the pair count")
	r.Check(decOK, "C18-R3", fname(f), "leftPairCount decremented by one per returned pair", p.Pos(f.Pos()), "count-1 stored in the returned iterator", "pair count is not decremented by exactly one")
	r.Check(remOK && errOK, "C18-R3", fname(f), "advances over exactly the parsed bytes; truncated pairs are errors", p.Pos(f.Pos()), "remaining = rbuf.Remaining(); rbuf.Err() returned", "iterator does not continue from the read buffer's position or swallows truncation")
}

func loadsGlobalPkg(v ssa.Value, name string) bool {
	v = core.Strip(v)
	u, ok := v.(*ssa.UnOp)
	if !ok || u.Op != token.MUL {
		return false
	}
	g, ok := u.X.(*ssa.Global)
	return ok && g.Name() == name
}

// derives: v derives from a value satisfying pred through value plumbing:
// tuple extraction, phis, interface boxing, captured-variable cells, parameters
// bound at static call sites, map/pointer pass-through of `through` functions.
func derives(p *core.Prog, v ssa.Value, pred func(ssa.Value) bool, through map[string]int, depth int, seen map[ssa.Value]bool) bool {
	if v == nil || depth > 10 || seen[v] {
		return false
	}
	seen[v] = true
	if pred(v) {
		return true
	}
	switch x := v.(type) {
	case *ssa.Extract:
		if c, ok := x.Tuple.(*ssa.Call); ok {
			if cal := c.Call.StaticCallee(); cal != nil && cal.Blocks != nil && p.InAnalysed(cal) {
				found := false
				core.EachInstr(cal, func(i ssa.Instruction) {
					if ret, isRet := i.(*ssa.Return); isRet && x.Index < len(ret.Results) {
						if derives(p, core.ReturnValues(ret)[x.Index], pred, through, depth+1, seen) {
							found = true
						}
					}
				})
				if found {
					return true
				}
			}
		}
		return derives(p, x.Tuple, pred, through, depth+1, seen)
	case *ssa.Phi:
		for _, e := range x.Edges {
			if core.IsNilConst(e) {
				continue
			}
			if derives(p, e, pred, through, depth+1, seen) {
				return true
			}
		}
	case *ssa.MakeInterface:
		return derives(p, x.X, pred, through, depth+1, seen)
	case *ssa.ChangeType:
		return derives(p, x.X, pred, through, depth+1, seen)
	case *ssa.ChangeInterface:
		return derives(p, x.X, pred, through, depth+1, seen)
	case *ssa.TypeAssert:
		return derives(p, x.X, pred, through, depth+1, seen)
	case *ssa.UnOp:
		if x.Op == token.MUL {
			// load of a cell: any store into the cell (in the owner or closures)
			return cellDerives(p, x.X, pred, through, depth+1, seen)
		}
	case *ssa.Alloc:
		// address of a cell passed to a decoder (&respHeaders): the cell itself
		return false
	case *ssa.Parameter:
		f := x.Parent()
		idx := -1
		for k, q := range f.Params {
			if q == x {
				idx = k
			}
		}
		for _, g := range p.SrcFuncs {
			found := false
			core.EachInstr(g, func(i ssa.Instruction) {
				if c, ok := i.(ssa.CallInstruction); ok && c.Common().StaticCallee() == f && idx < len(c.Common().Args) {
					if derives(p, c.Common().Args[idx], pred, through, depth+1, seen) {
						found = true
					}
				}
			})
			if found {
				return true
			}
		}
	case *ssa.Call:
		if o := core.CalleeObj(x); o != nil {
			if idx, ok := through[core.ShortKey(o)]; ok {
				args := core.CallArgs(x)
				if idx < len(args) {
					return derives(p, args[idx], pred, through, depth+1, seen)
				}
			}
		}
	}
	return false
}

func cellDerives(p *core.Prog, addr ssa.Value, pred func(ssa.Value) bool, through map[string]int, depth int, seen map[ssa.Value]bool) bool {
	var cell ssa.Value = addr
	// resolve FreeVar to the bound Alloc
	if fv, ok := addr.(*ssa.FreeVar); ok {
		fn := fv.Parent()
		idx := -1
		for k, q := range fn.FreeVars {
			if q == fv {
				idx = k
			}
		}
		if par := fn.Parent(); par != nil {
			for _, g := range core.WithAnon(par) {
				core.EachInstr(g, func(i ssa.Instruction) {
					if mc, ok := i.(*ssa.MakeClosure); ok && mc.Fn == fn {
						cell = mc.Bindings[idx]
					}
				})
			}
		}
	}
	if fv, ok := cell.(*ssa.FreeVar); ok && fv != addr {
		return cellDerives(p, fv, pred, through, depth+1, seen)
	}
	if fa, isFA := cell.(*ssa.FieldAddr); isFA {
		// a field of a small struct of the analysed packages that carries
		// per-call state (what a closure would have captured): the value read
		// is one some store puts into that field
		if fld := core.AddrField(fa); fld != nil && fld.Pkg() != nil && strings.HasPrefix(fld.Pkg().Path(), core.Root) {
			for _, st := range p.StoresTo(fld) {
				if s, isSt := st.Instr.(*ssa.Store); isSt && derives(p, s.Val, pred, through, depth+1, seen) {
					return true
				}
			}
			// ... or the field's address is handed to a decoder (&res.respHeaders)
			for _, f := range p.SrcFuncs {
				hit := false
				core.EachInstr(f, func(i ssa.Instruction) {
					fa2, ok := i.(*ssa.FieldAddr)
					if !ok || core.AddrField(fa2) != fld || fa2.Referrers() == nil {
						return
					}
					for _, ref := range *fa2.Referrers() {
						var calls []ssa.Instruction
						if mi, isMI := ref.(*ssa.MakeInterface); isMI && mi.Referrers() != nil {
							calls = append(calls, *mi.Referrers()...)
						} else {
							calls = append(calls, ref)
						}
						for _, c := range calls {
							if cv, isV := c.(ssa.Value); isV {
								if _, isCall := c.(ssa.CallInstruction); isCall && pred(cv) {
									hit = true
								}
							}
						}
					}
				})
				if hit {
					return true
				}
			}
		}
		return false
	}
	al, ok := cell.(*ssa.Alloc)
	if !ok {
		return false
	}
	found := false
	var visit func(a ssa.Value)
	visit = func(a ssa.Value) {
		refs := a.Referrers()
		if refs == nil {
			return
		}
		for _, ref := range *refs {
			switch x := ref.(type) {
			case *ssa.Store:
				if x.Addr == a && derives(p, x.Val, pred, through, depth+1, seen) {
					found = true
				}
			case *ssa.MakeClosure:
				fn := x.Fn.(*ssa.Function)
				for k, b := range x.Bindings {
					if b == a {
						visit(fn.FreeVars[k])
					}
				}
			case ssa.CallInstruction:
				// &cell passed to a decoder: the cell is filled from what the decoder reads
				for _, arg := range core.CallArgs(x) {
					if core.Strip(arg) == a && pred(x.(ssa.Value)) {
						found = true
					}
				}
			case *ssa.MakeInterface:
				for _, r2 := range *x.Referrers() {
					if c, ok := r2.(ssa.CallInstruction); ok {
						if cv, isV := c.(ssa.Value); isV && pred(cv) {
							found = true
						}
						// boxed &cell passed on as a parameter (makeCall(..., &respHeaders, ...))
						if cal := c.Common().StaticCallee(); cal != nil {
							for ai, arg := range c.Common().Args {
								if arg == ssa.Value(x) && ai < len(cal.Params) {
									if paramFilledBy(p, cal.Params[ai], pred) {
										found = true
									}
								}
							}
						}
					}
				}
			}
		}
	}
	visit(al)
	return found
}

// paramFilledBy: the parameter (a pointer boxed in an interface) is passed to a call satisfying pred.
func paramFilledBy(p *core.Prog, prm *ssa.Parameter, pred func(ssa.Value) bool) bool {
	found := false
	for _, ref := range *prm.Referrers() {
		if c, ok := ref.(ssa.CallInstruction); ok {
			if cv, isV := c.(ssa.Value); isV && pred(cv) {
				found = true
			}
		}
	}
	return found
}

// c18RetryState: a retried call must not see the previous attempt's decoded
// response. A variable that outlives the attempt (captured by the closure
// given to RunWithRetry) and is filled in place (its address is passed to a
// decoder) is re-initialised at the start of every attempt, before anything
// is called: encoding/json merges into a non-nil map and skips an empty body.
func c18RetryState(p *core.Prog, r *core.Report) {
	n := 0
	stripBox := func(a ssa.Value) ssa.Value {
		for {
			if mi, isMI := a.(*ssa.MakeInterface); isMI {
				a = mi.X
				continue
			}
			if ct, isCT := a.(*ssa.ChangeType); isCT {
				a = ct.X
				continue
			}
			return a
		}
	}
	// resetAtTop: the cell is assigned in the attempt's first block before any call
	resetAtTop := func(cl *ssa.Function, isCell func(ssa.Value) bool) bool {
		for _, i := range cl.Blocks[0].Instrs {
			if st, isSt := i.(*ssa.Store); isSt && isCell(st.Addr) {
				return true
			}
			if c, isC := i.(ssa.CallInstruction); isC {
				if _, isB := c.Common().Value.(*ssa.Builtin); !isB {
					return false
				}
			}
		}
		return false
	}
	for _, at := range retryAttempts(p) {
		cl := at.Fn
		if at.Recv != nil {
			// method value: the state that outlives the attempt is the
			// receiver's fields; one whose address is handed to a call is
			// decoded in place
			passed := map[*types.Var]ssa.Instruction{}
			core.EachInstr(cl, func(i ssa.Instruction) {
				if c, isC := i.(ssa.CallInstruction); isC {
					for _, a := range c.Common().Args {
						if fa, isFA := stripBox(a).(*ssa.FieldAddr); isFA && fa.X == ssa.Value(at.Recv) {
							if fld := core.AddrField(fa); fld != nil {
								passed[fld] = i
							}
						}
					}
				}
			})
			var flds []*types.Var
			for fld := range passed {
				flds = append(flds, fld)
			}
			sort.Slice(flds, func(i, j int) bool { return flds[i].Name() < flds[j].Name() })
			for _, fld := range flds {
				n++
				reset := resetAtTop(cl, func(addr ssa.Value) bool {
					fa, isFA := addr.(*ssa.FieldAddr)
					return isFA && fa.X == ssa.Value(at.Recv) && core.AddrField(fa) == fld
				})
				r.Check(reset, "C18-R4", fname(at.Site.Fn), "per-attempt reset of "+fld.Name()+" (decoded in place across retries)", p.Pos(at.MC.Pos()),
					"assigned at the top of the attempt before any call", "the response value "+fld.Name()+" decoded by a failed attempt survives into the next attempt (stale headers/error merged into the successful response)")
			}
			continue
		}
		mc := at.MC
		for k, fv := range cl.FreeVars {
			if _, isAlloc := mc.Bindings[k].(*ssa.Alloc); !isAlloc {
				continue
			}
			passed := false
			core.EachInstr(cl, func(i ssa.Instruction) {
				if c, isC := i.(ssa.CallInstruction); isC {
					for _, a := range c.Common().Args {
						x := stripBox(a)
						if x == ssa.Value(fv) {
							passed = true
						}
						// a field of a captured struct handed to the decoder (&res.respHeaders)
						if fa, isFA := x.(*ssa.FieldAddr); isFA && fa.X == ssa.Value(fv) {
							passed = true
						}
					}
				}
			})
			if !passed {
				continue
			}
			n++
			reset := resetAtTop(cl, func(addr ssa.Value) bool { return addr == ssa.Value(fv) })
			r.Check(reset, "C18-R4", fname(at.Site.Fn), "per-attempt reset of "+fv.Name()+" (decoded in place across retries)", p.Pos(mc.Pos()),
				"assigned at the top of the retry closure before any call", "the response value "+fv.Name()+" decoded by a failed attempt survives into the next attempt (stale headers/error merged into the successful response)")
		}
	}
	if n == 0 {
		r.Errorf("no retry closure with an in-place decoded response variable found (json.Client.Call expected)")
	}
}

// c18TracingKeys: the tracing keys a client injects into the application
// headers ($tracing$...) are transport data: the server strips them before the
// headers become the handler's context, whether or not its own tracer could
// read them. On every path from the tracer's Extract to a return of
// ExtractInboundSpan the carrier's RemoveTracingKeys is called.
func c18TracingKeys(p *core.Prog, r *core.Report) {
	f := mustFunc(p, r, "", "", "ExtractInboundSpan")
	if f == nil {
		return
	}
	isRemove := func(i ssa.Instruction) bool {
		_, ok := core.IsCall(i, "tracingHeadersCarrier.RemoveTracingKeys")
		return ok
	}
	n := 0
	core.EachInstr(f, func(i ssa.Instruction) {
		c, ok := i.(*ssa.Call)
		if !ok || !c.Call.IsInvoke() || c.Call.Method.Name() != "Extract" {
			return
		}
		n++
		res := core.ReachAvoiding(f, c, core.IsReturn, isRemove, nil)
		r.Check(!res.Found, "C18-R4", fname(f), fmt.Sprintf("tracing keys removed from the headers after Extract #%d, whatever its result", n), p.Pos(c.Pos()),
			"every path from Extract to a return passes RemoveTracingKeys", "the handler can see the transport's tracing keys among its application headers (e.g. when the server's tracer cannot read them): "+p.TrailString(res))
	})
	if n == 0 {
		r.Errorf("ExtractInboundSpan: no tracer Extract call found")
	}
}

// c18HTTPBuffer: the HTTP codec serialises arg2 into a fixed buffer whose
// overflow is a sticky error nobody consults before the bytes are flushed, so
// the buffer's size is the codec's limit: it is the documented constant (at
// least 10000 bytes), never a per-message estimate that can fall short of
// what writeHeaders emits (a name per value).
func c18HTTPBuffer(p *core.Prog, r *core.Report) {
	n := 0
	for _, cs := range p.CallsTo("typed.NewWriteBufferWithSize") {
		if !p.InAnalysed(cs.Fn) || !strings.HasSuffix(pkgOf(cs.Fn), "/http") {
			continue
		}
		n++
		k, isK := core.ConstInt(core.CallArgs(cs.Call)[0])
		r.Check(isK && k >= 10000, "C18-R2", fname(cs.Fn), "arg2 buffer of the documented fixed size", p.Pos(cs.Call.Pos()), fmt.Sprintf("constant %d", k),
			"the arg2 buffer is sized by "+desc(core.CallArgs(cs.Call)[0])+" instead of the documented constant: when the estimate is short the buffer's sticky error is never consulted and a truncated arg2 is sent")
	}
	if n < 2 {
		r.Errorf("expected the HTTP request and response writers to allocate an arg2 buffer, found %d sites", n)
	}
}

func c18Plumbing(p *core.Prog, r *core.Report) {
	c18RetryState(p, r)
	c18HTTPBuffer(p, r)
	c18TracingKeys(p, r)
	through := map[string]int{"InjectOutboundSpan": 1}
	isCtxHeaders := func(v ssa.Value) bool {
		c, ok := v.(*ssa.Call)
		if !ok {
			return false
		}
		o := core.CalleeObj(c)
		return o != nil && o.Name() == "Headers" && strings.HasSuffix(core.ShortKey(o), "ContextWithHeaders.Headers")
	}
	isCtxRespHeaders := func(v ssa.Value) bool {
		c, ok := v.(*ssa.Call)
		if !ok {
			return false
		}
		o := core.CalleeObj(c)
		return o != nil && strings.HasSuffix(core.ShortKey(o), "ContextWithHeaders.ResponseHeaders")
	}
	isReadHeaders := func(v ssa.Value) bool {
		_, ok := core.IsCall(instrOf(v), "thrift.ReadHeaders")
		return ok
	}
	isReadJSON := func(v ssa.Value) bool {
		_, ok := core.IsCall(instrOf(v), "ArgReadHelper.ReadJSON")
		return ok
	}
	seen := func() map[ssa.Value]bool { return map[ssa.Value]bool{} }

	// thrift client: WriteHeaders(writer, <ctx.Headers()>) ; SetResponseHeaders(<ReadHeaders(...)>)
	if f := mustFunc(p, r, "thrift", "", "writeArgs"); f != nil {
		ok := false
		pos := p.Pos(f.Pos())
		for _, c := range core.CallsIn(f, "thrift.WriteHeaders") {
			pos = p.Pos(c.Pos())
			if derives(p, core.CallArgs(c)[1], isCtxHeaders, through, 0, seen()) {
				ok = true
			}
		}
		r.Check(ok, "C18-R4", fname(f), "thrift client writes ctx.Headers() as arg2", pos, "WriteHeaders operand derives from the call context's Headers()", "arg2 is not the context's request headers")
	}
	if f := mustFunc(p, r, "thrift", "client", "Call"); f != nil {
		ok := false
		pos := p.Pos(f.Pos())
		for _, g := range core.WithAnon(f) {
			for _, c := range core.CallsIn(g, "ContextWithHeaders.SetResponseHeaders") {
				pos = p.Pos(c.Pos())
				if derives(p, core.CallArgs(c)[1], isReadHeaders, through, 0, seen()) {
					ok = true
				}
			}
		}
		r.Check(ok, "C18-R4", fname(f), "thrift client sets the decoded response headers on the caller's context", pos, "SetResponseHeaders operand derives from ReadHeaders of the response's arg2", "decoded response headers do not reach the caller's context")
	}
	// ... on every successful return (an empty header map included: the
	// context may still hold the headers of an earlier call)
	var work []*ssa.Function
	for _, spec := range [][3]string{{"thrift", "client", "Call"}, {"json", "Client", "Call"}, {"json", "", "wrapCall"}} {
		if f := p.Func(spec[0], spec[1], spec[2]); f != nil {
			work = append(work, f)
		}
	}
	judged := map[*ssa.Function]bool{}
	for len(work) > 0 {
		f := work[0]
		work = work[1:]
		if judged[f] {
			continue
		}
		judged[f] = true
		var delegates []*ssa.Function
		isNilRet := func(i ssa.Instruction) bool {
			ret, ok := i.(*ssa.Return)
			if !ok {
				return false
			}
			rv := core.ReturnValues(ret)
			if len(rv) == 0 {
				return false
			}
			e := rv[len(rv)-1]
			if core.IsNilConst(e) {
				return true
			}
			// an error value that is not known to be non-nil here (returned
			// on a path that was not taken because of err != nil) may be nil
			if core.NeverNil(e, 0) || factsAt(i.Block()).nilCmp(func(v ssa.Value) bool { return v == e }, false) {
				return false
			}
			// `return res.finish(ctx, err)`: a helper of the same package decides; it is judged in its own right
			if c, isCall := e.(*ssa.Call); isCall {
				if g := c.Call.StaticCallee(); g != nil && g.Blocks != nil && g != f && pkgOf(g) == pkgOf(f) {
					delegates = append(delegates, g)
					return false
				}
			}
			if _, isPhi := e.(*ssa.Phi); isPhi {
				return false // merged error values: judged on their own returns
			}
			return true
		}
		res := core.ReachAvoiding(f, nil, isNilRet, func(i ssa.Instruction) bool {
			_, is := core.IsCall(i, "ContextWithHeaders.SetResponseHeaders")
			return is
		}, nil)
		r.Check(!res.Found, "C18-R4", fname(f), "response headers are set on the caller's context on every successful return", p.Pos(f.Pos()), "no nil-error return avoids SetResponseHeaders", "a successful call can return without storing its response headers (e.g. when they are empty): the context keeps an earlier call's headers: "+p.TrailString(res))
		if len(judged) < 8 {
			work = append(work, delegates...)
		}
	}
	if f := mustFunc(p, r, "thrift", "", "readResponse"); f != nil {
		// the headers returned are those read from Arg2Reader
		ok := false
		core.EachInstr(f, func(i ssa.Instruction) {
			if ret, isRet := i.(*ssa.Return); isRet {
				rv := core.ReturnValues(ret)
				if len(rv) == 3 && derives(p, rv[0], isReadHeaders, through, 0, seen()) {
					if c := core.IsNilConst(rv[2]); c || true {
						ok = true
					}
				}
			}
		})
		r.Check(ok, "C18-R4", fname(f), "readResponse returns ReadHeaders(arg2)", p.Pos(f.Pos()), "returned headers derive from ReadHeaders", "returned headers are not those decoded from arg2")
	}
	// thrift server
	if f := mustFunc(p, r, "thrift", "Server", "handle"); f != nil {
		okIn, okOut := false, false
		core.EachInstr(f, func(i ssa.Instruction) {
			c, ok := i.(*ssa.Call)
			if !ok {
				return
			}
			// s.ctxFn(origCtx, method, headers)
			if fld := core.LoadedField(c.Call.Value); fld != nil && fld.Name() == "ctxFn" && len(c.Call.Args) == 3 {
				if derives(p, c.Call.Args[2], isReadHeaders, through, 0, seen()) {
					okIn = true
				}
			}
			if _, isWH := core.IsCall(i, "thrift.WriteHeaders"); isWH {
				if derives(p, core.CallArgs(c)[1], isCtxRespHeaders, through, 0, seen()) {
					okOut = true
				}
			}
		})
		r.Check(okIn, "C18-R4", fname(f), "thrift server builds the handler context from ReadHeaders(arg2)", p.Pos(f.Pos()), "ctxFn receives the decoded headers", "handler context does not carry the decoded request headers")
		r.Check(okOut, "C18-R4", fname(f), "thrift server writes ctx.ResponseHeaders() as arg2", p.Pos(f.Pos()), "WriteHeaders operand is the handler context's response headers", "response arg2 is not the handler's response headers")
	}
	// json client
	if f := mustFunc(p, r, "json", "", "makeCall"); f != nil {
		okW, okR := false, false
		core.EachInstr(f, func(i ssa.Instruction) {
			if c, ok := core.IsCall(i, "ArgWriteHelper.WriteJSON"); ok {
				// the first WriteJSON (arg2) gets the headers parameter (possibly with the span injected)
				arg := core.CallArgs(c)[1]
				if derives(p, arg, func(v ssa.Value) bool { return v == ssa.Value(f.Params[1]) }, through, 0, seen()) {
					okW = true
				}
			}
			if c, ok := core.IsCall(i, "ArgReadHelper.ReadJSON"); ok {
				if core.CallArgs(c)[1] == ssa.Value(f.Params[3]) && callResult(core.CallArgs(c)[0], "NewArgReader") != nil {
					okR = true
				}
			}
		})
		r.Check(okW, "C18-R4", fname(f), "json client writes the given headers as arg2", p.Pos(f.Pos()), "WriteJSON operand derives from the headers parameter", "arg2 is not the caller's headers")
		r.Check(okR, "C18-R4", fname(f), "json client decodes response arg2 into respHeaders", p.Pos(f.Pos()), "ReadJSON target is the respHeaders parameter", "response arg2 is not decoded into the response headers")
	}
	for _, name := range []string{"Call", "wrapCall"} {
		recv := ""
		if name == "Call" {
			recv = "Client"
		}
		f := mustFunc(p, r, "json", recv, name)
		if f == nil {
			continue
		}
		// headers passed to makeCall derive from ctx.Headers(); SetResponseHeaders receives the cell filled by makeCall
		okH, okS := false, false
		pos := p.Pos(f.Pos())
		for _, g := range p.FuncsDeep(f, 1) {
			for _, c := range core.CallsIn(g, "json.makeCall") {
				if derives(p, c.Common().Args[1], isCtxHeaders, through, 0, seen()) {
					okH = true
				}
			}
			for _, c := range core.CallsIn(g, "ContextWithHeaders.SetResponseHeaders") {
				pos = p.Pos(c.Pos())
				if derives(p, core.CallArgs(c)[1], func(v ssa.Value) bool {
					_, ok := core.IsCall(instrOf(v), "json.makeCall")
					return ok || isReadJSON(v)
				}, through, 0, seen()) {
					okS = true
				}
			}
		}
		r.Check(okH, "C18-R4", fname(f), "json client passes ctx.Headers() to the call", p.Pos(f.Pos()), "makeCall headers operand derives from the context's Headers()", "request headers of the context are not sent")
		r.Check(okS, "C18-R4", fname(f), "json client sets the decoded response headers on the caller's context", pos, "SetResponseHeaders operand is the cell makeCall decoded arg2 into", "decoded response headers do not reach the caller's context")
	}
	// json server
	if f := mustFunc(p, r, "json", "handler", "Handle"); f != nil {
		okIn, okOut := false, false
		core.EachInstr(f, func(i ssa.Instruction) {
			if c, ok := core.IsCall(i, "json.WithHeaders"); ok {
				if derives(p, core.CallArgs(c)[1], isReadJSON, through, 0, seen()) {
					okIn = true
				}
			}
			if c, ok := core.IsCall(i, "ArgWriteHelper.WriteJSON"); ok {
				if derives(p, core.CallArgs(c)[1], isCtxRespHeaders, through, 0, seen()) {
					okOut = true
				}
			}
		})
		r.Check(okIn, "C18-R4", fname(f), "json server builds the handler context from decoded arg2", p.Pos(f.Pos()), "WithHeaders operand is the map ReadJSON filled", "handler context does not carry the decoded request headers")
		r.Check(okOut, "C18-R4", fname(f), "json server writes ctx.ResponseHeaders() as arg2", p.Pos(f.Pos()), "WriteJSON operand is the handler context's response headers", "response arg2 is not the handler's response headers")
	}
	_ = types.Typ
}

func instrOf(v ssa.Value) ssa.Instruction {
	i, _ := v.(ssa.Instruction)
	return i
}
