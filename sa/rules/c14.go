package rules

import (
	"fmt"
	"go/token"
	"strings"

	"golang.org/x/tools/go/ssa"

	"verif/sa/core"
)

func init() { Registry["C14"] = c14 }

const msNanos = 1000000

func c14(p *core.Prog, r *core.Report) {
	r.Explain = "Decides: (R1) the time-to-live sent with a call is deadline - now of the caller's context, calls with less than a millisecond left return the timeout error locally, and the wire value is ttl / Millisecond on write and x Millisecond on read (same constant); (R2) the handler's context is built with the decoded time-to-live as its timeout on top of the connection's base context, and the context builder always installs a deadline (WithCancel only when the parent already has one); (R3) a relay rewrites the ttl only to its configured maximum and only when the received value exceeds it, arms its timer with the clamped value, writes milliseconds into the ttl field, and the configured maximum is validated to fit the wire field; (R4) cancellation wiring: completing the response cancels the handler context, the inbound watcher cancels it on connection errors, a received cancel frame reaches the exchange only with PropagateCancel, a cancel frame is sent only for context.Canceled and only with SendCancelOnContextCanceled, and relays drop cancel frames unless propagation is enabled. Every context-error return of the caller's response wait passes onCtxErr. A failed frame write reaches connectionError, so handler contexts are cancelled; (R5) every blocking wait on the call path has a context arm (shared with C05). Retry closures hand the attempt's own context (not the captured overall one) to every call; connectionError and protocolError stop both exchange sets and every exchange is notified (shared with C05). A non-zero builder Timeout always bounds the built context (path rule under the hypothesis Timeout != 0). Assuming SendCancelOnContextCanceled no return of onCancel avoids sending the cancel; the relay's ttl rewrite stores the truncated millisecond count of its parameter. The call req's ttl is the truncated millisecond count of TimeToLive; the per-call watcher cancels the handler's context on every path of its error-latch arm."
	r.NotDecided = "actual expiry times; races between cancellation and completion; timer accuracy."
	r.Rule("C14-R1", "E6 provenance", 5, "ttl sent is the caller's remaining time, ms conversion symmetric")
	r.Rule("C14-R2", "E6 provenance", 4, "handler context bounded by the received ttl")
	r.Rule("C14-R3", "E6 guards", 5, "relay clamps, never raises, the ttl")
	r.Rule("C14-R4", "E6 guards", 7, "cancellation wiring and its option gates")
	c14TTL(p, r)
	c14Handler(p, r)
	c14Relay(p, r)
	c14Cancel(p, r)
	c14CancelGate(p, r)
	c14SetTTL(p, r)
	c14WatcherCancels(p, r)
	// per-attempt deadlines propagate: the attempt's context, not the overall one, reaches the call
	retryClosureUsesAttemptCtx(p, r, "C14-R1")
	// the caller's own wait ends with its context: every blocking wait on the
	// call path has a context arm (shared with C05-R1)
	r.Rule("C14-R5", "E4c blocking/ctx", 8, "every blocking wait of a call ends with the caller's context (shared with C05)")
	r.Alias("C05-R1", "C14-R5")
	c05Blocking(p, r)
	r.Alias("C05-R1", "")
}

func c14TTL(p *core.Prog, r *core.Report) {
	ttlF := p.Field("", "callReq", "TimeToLive")
	if f := mustFunc(p, r, "", "Connection", "beginCall"); f != nil {
		okTTL, okGuard := false, false
		core.EachInstr(f, func(i ssa.Instruction) {
			if st, ok := i.(*ssa.Store); ok && core.AddrField(st.Addr) == ttlF {
				if c := callResult(st.Val, "time.Time.Sub"); c != nil {
					args := core.CallArgs(c)
					// deadline.Sub(now): receiver from ctx.Deadline(), argument from timeNow
					fromDeadline := false
					if e, isE := args[0].(*ssa.Extract); isE {
						if cc, isC := e.Tuple.(*ssa.Call); isC {
							if o := core.CalleeObj(cc); o != nil && o.Name() == "Deadline" {
								fromDeadline = true
							}
						}
					}
					okTTL = fromDeadline
				}
			}
			if ret, ok := i.(*ssa.Return); ok && len(ret.Results) == 2 && loadsGlobal(core.ReturnValues(ret)[1], "ErrTimeout") {
				for _, c := range factsAt(ret.Block()).cmps {
					if k, isK := core.ConstInt(c.Y); isK && k == msNanos && c.Op == token.LSS && callResult(c.X, "time.Time.Sub") != nil {
						okGuard = true
					}
				}
			}
		})
		r.Check(okTTL, "C14-R1", fname(f), "callReq.TimeToLive = ctx deadline - now", p.Pos(f.Pos()), "stored value is deadline.Sub(now) of the caller's context", "the ttl sent is not the caller's remaining time")
		r.Check(okGuard, "C14-R1", fname(f), "ttl < 1ms -> local ErrTimeout", p.Pos(f.Pos()), "guarded return", "sub-millisecond budgets are sent on the wire (as 0)")
	}
	// ms conversion symmetric
	conv := func(f *ssa.Function, op token.Token) bool {
		ok := false
		core.EachInstr(f, func(i ssa.Instruction) {
			if bo, isB := i.(*ssa.BinOp); isB && bo.Op == op {
				if k, isK := core.ConstInt(bo.Y); isK && k == msNanos {
					ok = true
				}
			}
		})
		return ok
	}
	if w := mustFunc(p, r, "", "callReq", "write"); w != nil {
		r.Check(conv(w, token.QUO), "C14-R1", fname(w), "wire ttl = TimeToLive / Millisecond", p.Pos(w.Pos()), "divides by 1e6 ns", "ttl is not written in milliseconds")
	}
	if rd := mustFunc(p, r, "", "callReq", "read"); rd != nil {
		r.Check(conv(rd, token.MUL), "C14-R1", fname(rd), "TimeToLive = wire ttl * Millisecond", p.Pos(rd.Pos()), "multiplies by 1e6 ns", "ttl is not read as milliseconds")
	}
	if f := mustFunc(p, r, "", "lazyCallReq", "TTL"); f != nil {
		r.Check(conv(f, token.MUL), "C14-R1", fname(f), "relay reads the ttl as milliseconds", p.Pos(f.Pos()), "multiplies by 1e6 ns", "relay misreads the ttl unit")
	}
}

func c14Handler(p *core.Prog, r *core.Report) {
	ttlF := p.Field("", "callReq", "TimeToLive")
	if f := mustFunc(p, r, "", "Connection", "handleCallReq"); f != nil {
		ok := false
		for _, c := range core.CallsIn(f, "newIncomingContext") {
			a := core.CallArgs(c)
			base := core.LoadedField(a[0])
			if core.LoadedField(a[2]) == ttlF && base != nil && base.Name() == "baseContext" {
				ok = true
			}
		}
		r.Check(ok, "C14-R2", fname(f), "newIncomingContext(c.baseContext, call, callReq.TimeToLive)", p.Pos(f.Pos()), "handler context bounded by the decoded ttl over the connection's base context", "handler context is not bounded by the received ttl")
	}
	if f := mustFunc(p, r, "", "", "newIncomingContext"); f != nil {
		okT, okP := false, false
		for _, c := range core.CallsIn(f, "NewContextBuilder") {
			if core.CallArgs(c)[0] == ssa.Value(f.Params[2]) {
				okT = true
			}
		}
		for _, c := range core.CallsIn(f, "ContextBuilder.SetParentContext") {
			if core.CallArgs(c)[1] == ssa.Value(f.Params[0]) {
				okP = true
			}
		}
		r.Check(okT && okP, "C14-R2", fname(f), "builder gets the timeout and the parent", p.Pos(f.Pos()), "timeout and parent passed through", "incoming context loses its timeout or parent")
	}
	if f := mustFunc(p, r, "", "ContextBuilder", "Build"); f != nil {
		// WithCancel only under parentHasDeadline; otherwise WithTimeout(parent, cb.Timeout)
		okCancel, okTimeout := true, false
		nCancel := 0
		core.EachInstr(f, func(i ssa.Instruction) {
			c, ok := i.(*ssa.Call)
			if !ok {
				return
			}
			o := core.CalleeObj(c)
			if o == nil || o.Pkg() == nil || !strings.HasSuffix(o.Pkg().Path(), "context") {
				return
			}
			switch o.Name() {
			case "WithCancel":
				nCancel++
				fs := factsAt(c.Block())
				has := fs.hasBool(func(v ssa.Value) bool {
					e, ok := v.(*ssa.Extract)
					if !ok || e.Index != 1 {
						return false
					}
					cc, ok := e.Tuple.(*ssa.Call)
					return ok && core.CalleeObj(cc) != nil && core.CalleeObj(cc).Name() == "Deadline"
				}, true)
				if !has {
					okCancel = false
				}
			case "WithTimeout":
				if fl := core.LoadedField(c.Call.Args[1]); fl != nil && fl.Name() == "Timeout" {
					okTimeout = true
				}
			}
		})
		// an explicit (non-zero) Timeout always bounds the context, whether or
		// not the parent has its own deadline: assuming Timeout != 0, no return
		// is reachable that does not pass WithTimeout(parent, cb.Timeout)
		isWT := func(i ssa.Instruction) bool {
			c, ok := i.(*ssa.Call)
			if !ok {
				return false
			}
			o := core.CalleeObj(c)
			if o == nil || o.Pkg() == nil || !strings.HasSuffix(o.Pkg().Path(), "context") || o.Name() != "WithTimeout" {
				return false
			}
			fl := core.LoadedField(c.Call.Args[1])
			return fl != nil && fl.Name() == "Timeout"
		}
		nonZero := func(from, to *ssa.BasicBlock) bool {
			// veto the edge that needs Timeout == 0
			ifi, ok := from.Instrs[len(from.Instrs)-1].(*ssa.If)
			if !ok {
				return false
			}
			bo, ok := ifi.Cond.(*ssa.BinOp)
			if !ok || (bo.Op != token.EQL && bo.Op != token.NEQ) {
				return false
			}
			x, y := bo.X, bo.Y
			if _, isC := x.(*ssa.Const); isC {
				x, y = y, x
			}
			k, isK := core.ConstInt(y)
			fl := core.LoadedField(core.StripConv(x))
			if !isK || k != 0 || fl == nil || fl.Name() != "Timeout" {
				return false
			}
			zeroEdge := from.Succs[0]
			if bo.Op == token.NEQ {
				zeroEdge = from.Succs[1]
			}
			return to == zeroEdge && from.Succs[0] != from.Succs[1]
		}
		res := core.ReachAvoiding(f, nil, core.IsReturn, isWT, nonZero)
		r.Check(!res.Found, "C14-R2", fname(f), "a non-zero Timeout always bounds the built context", p.Pos(f.Pos()),
			"assuming Timeout != 0 every path passes WithTimeout(parent, Timeout)", "an explicit Timeout (a received ttl, a per-hop budget) is ignored on some path, e.g. when the parent already has a deadline: "+p.TrailString(res))
		// the built context is a child of the given parent (its cancellation and
		// its earlier deadline reach the call): the first argument of every
		// WithTimeout / WithCancel / WithDeadline derives from cb.ParentContext
		{
			var fromParent func(v ssa.Value, d int) bool
			fromParent = func(v ssa.Value, d int) bool {
				if d > 8 || v == nil {
					return false
				}
				if fl := core.LoadedField(v); fl != nil && fl.Name() == "ParentContext" {
					return true
				}
				switch x := v.(type) {
				case *ssa.Phi:
					for _, e := range x.Edges {
						if fromParent(e, d+1) {
							return true
						}
					}
				case *ssa.Extract:
					return fromParent(x.Tuple, d+1)
				case *ssa.TypeAssert:
					return fromParent(x.X, d+1)
				case *ssa.Field:
					return fromParent(x.X, d+1)
				case *ssa.MakeInterface:
					return fromParent(x.X, d+1)
				case *ssa.ChangeInterface:
					return fromParent(x.X, d+1)
				case *ssa.UnOp:
					if fa, isFA := x.X.(*ssa.FieldAddr); isFA && x.Op == token.MUL {
						return fromParent(fa.X, d+1)
					}
					if al, isAl := x.X.(*ssa.Alloc); isAl && x.Op == token.MUL {
						for _, ref := range *al.Referrers() {
							if st, isSt := ref.(*ssa.Store); isSt && st.Addr == ssa.Value(al) && fromParent(st.Val, d+1) {
								return true
							}
						}
					}
				}
				return false
			}
			orphan, nDer := "", 0
			core.EachInstr(f, func(i ssa.Instruction) {
				c, ok := i.(*ssa.Call)
				if !ok {
					return
				}
				o := core.CalleeObj(c)
				if o == nil || o.Pkg() == nil || !strings.HasSuffix(o.Pkg().Path(), "context") || len(c.Call.Args) == 0 {
					return
				}
				switch o.Name() {
				case "WithTimeout", "WithCancel", "WithDeadline":
					nDer++
					if !fromParent(c.Call.Args[0], 0) {
						orphan = p.Pos(c.Pos())
					}
				}
			})
			r.Check(orphan == "" && nDer > 0, "C14-R2", fname(f), "the built context is a child of the given parent", p.Pos(f.Pos()), fmt.Sprintf("%d derivations, all from cb.ParentContext (Background only when it is nil)", nDer),
				"the context derived at "+orphan+" does not descend from cb.ParentContext: the parent's cancellation and earlier deadline do not reach the call")
		}
		r.Check(okCancel && okTimeout, "C14-R2", fname(f), "every built context has a deadline", p.Pos(f.Pos()), "WithTimeout(parent, Timeout), or WithCancel only when the parent has a deadline", fmt.Sprintf("a context can be built without a deadline (withCancelGuarded=%v withTimeout=%v)", okCancel, okTimeout))
	}
	// the handler gets the exchange's context
	if f := mustFunc(p, r, "", "Connection", "dispatchInbound"); f != nil {
		ok := true
		n := 0
		for _, c := range core.CallsIn(f, "Handler.Handle") {
			n++
			if fl := core.LoadedField(core.CallArgs(c)[1]); fl == nil || fl.Name() != "ctx" {
				ok = false
			}
		}
		r.Check(ok && n > 0, "C14-R2", fname(f), "handlers run under the exchange's context", p.Pos(f.Pos()), "Handle(call.mex.ctx, call)", "handlers are not given the call's context")
	}
}

func c14Relay(p *core.Prog, r *core.Report) {
	f := mustFunc(p, r, "", "Relayer", "handleCallReq")
	if f != nil {
		maxF := p.Field("", "Relayer", "maxTimeout")
		sets := core.CallsIn(f, "lazyCallReq.SetTTL")
		ok := len(sets) == 1
		if ok {
			c := sets[0]
			arg := core.CallArgs(c)[1]
			fs := factsAt(c.Block())
			guard := false
			for _, cm := range fs.cmps {
				if cm.Op == token.GTR && callResult(cm.X, "lazyCallReq.TTL") != nil && core.LoadedField(cm.Y) == maxF {
					guard = true
				}
				if cm.Op == token.LSS && callResult(cm.Y, "lazyCallReq.TTL") != nil && core.LoadedField(cm.X) == maxF {
					guard = true
				}
			}
			ok = core.LoadedField(arg) == maxF && guard
		}
		r.Check(ok, "C14-R3", fname(f), "SetTTL(maxTimeout) only under ttl > maxTimeout", p.Pos(f.Pos()), "the only ttl rewrite lowers it to the maximum", "the relay can forward a ttl larger than it received or than its maximum")
		// timer armed with the clamped value: ttl argument of addRelayItem is phi(TTL(), maxTimeout)
		okArm := true
		n := 0
		for _, c := range core.CallsIn(f, "Relayer.addRelayItem") {
			n++
			ttlArg := core.CallArgs(c)[5]
			phi, isPhi := ttlArg.(*ssa.Phi)
			if !isPhi {
				okArm = false
				continue
			}
			a, b := false, false
			for _, e := range phi.Edges {
				if callResult(e, "lazyCallReq.TTL") != nil {
					a = true
				}
				if core.LoadedField(e) == maxF {
					b = true
				}
			}
			if !(a && b) {
				okArm = false
			}
		}
		r.Check(okArm && n == 2, "C14-R3", fname(f), "relay timers armed with min(ttl, maxTimeout)", p.Pos(f.Pos()), "both relay items get the clamped value", "relay timer is not armed with the clamped ttl")
	}
	if f := mustFunc(p, r, "", "lazyCallReq", "SetTTL"); f != nil {
		okDiv, okPut := false, false
		nPut := 0
		core.EachInstr(f, func(i ssa.Instruction) {
			if bo, isB := i.(*ssa.BinOp); isB && bo.Op == token.QUO {
				if k, isK := core.ConstInt(bo.Y); isK && k == msNanos {
					okDiv = true
				}
			}
			if c, isC := i.(*ssa.Call); isC {
				if o := core.CalleeObj(c); o != nil && o.Name() == "PutUint32" {
					if sl, isSl := core.CallArgs(c)[1].(*ssa.Slice); isSl {
						lo, _ := core.ConstInt(sl.Low)
						hi, _ := core.ConstInt(sl.High)
						if nPut == 0 {
							okPut = true
						}
						nPut++
						okPut = okPut && lo == 1 && hi == 5
					}
				}
			}
		})
		r.Check(okDiv && okPut, "C14-R3", fname(f), "writes ttl/Millisecond as uint32 at payload[1:5]", p.Pos(f.Pos()), "milliseconds at the ttl offset", "ttl rewritten with the wrong unit or offset")
	}
	if f := mustFunc(p, r, "", "", "validateRelayMaxTimeout"); f != nil {
		// returns d only under 0 < d/ms <= MaxUint32; otherwise the default
		ok := false
		core.EachInstr(f, func(i ssa.Instruction) {
			ret, isRet := i.(*ssa.Return)
			if !isRet || core.ReturnValues(ret)[0] != ssa.Value(f.Params[0]) {
				return
			}
			fs := factsAt(ret.Block())
			lo, hi := false, false
			for _, c := range fs.cmps {
				if k, isK := core.ConstInt(c.Y); isK {
					if c.Op == token.GTR && k == 0 {
						lo = true
					}
					if c.Op == token.LEQ && k == 4294967295 {
						hi = true
					}
				}
			}
			ok = lo && hi
		})
		r.Check(ok, "C14-R3", fname(f), "configured maximum accepted only within (0, MaxUint32] ms", p.Pos(f.Pos()), "range-checked", "relay maximum timeout is not validated against the wire field")
	}
	// Receive / handleNonCallReq never touch the ttl
	for _, cs := range p.CallsTo("lazyCallReq.SetTTL") {
		r.Check(cs.Fn.Name() == "handleCallReq", "C14-R3", fname(cs.Fn), "SetTTL called only at relay admission", p.Pos(cs.Call.Pos()), "single rewrite site", "ttl rewritten elsewhere")
	}
}

func c14Cancel(p *core.Prog, r *core.Report) {
	// a handler's context is cancelled when its connection fails: read and
	// write failures reach connectionError, connectionError and protocolError
	// stop both exchange sets, every exchange is notified (shared with C05-R2)
	r.Alias("C05-R2", "C14-R4")
	c05Failure(p, r)
	r.Alias("C05-R2", "")
	optGuard := func(i ssa.Instruction, field string, pol bool) bool {
		return factsAt(i.Block()).hasBool(func(v ssa.Value) bool { fl := core.LoadedField(v); return fl != nil && fl.Name() == field }, pol)
	}
	if f := mustFunc(p, r, "", "InboundCallResponse", "doneSending"); f != nil {
		ok := false
		core.EachInstr(f, func(i ssa.Instruction) {
			if c, isC := i.(*ssa.Call); isC {
				if fl := core.LoadedField(c.Call.Value); fl != nil && fl.Name() == "cancel" {
					// on every path (not under a condition that can skip it)
					miss := core.ReachAvoiding(f, nil, core.IsReturn, func(j ssa.Instruction) bool { return j == i }, nil)
					if !miss.Found {
						ok = true
					}
				}
			}
		})
		r.Check(ok, "C14-R4", fname(f), "completing the response cancels the handler context", p.Pos(f.Pos()), "response.cancel() on every path", "handler context is not cancelled when the response completes")
	}
	if f := mustFunc(p, r, "", "Connection", "dispatchInbound"); f != nil {
		ok := false
		for _, a := range f.AnonFuncs {
			core.EachInstr(a, func(i ssa.Instruction) {
				if c, isC := i.(*ssa.Call); isC {
					if fl := core.LoadedField(c.Call.Value); fl != nil && fl.Name() == "cancel" {
						ok = true
					}
				}
			})
		}
		r.Check(ok, "C14-R4", fname(f), "connection failure cancels the handler context", p.Pos(f.Pos()), "watcher's error-latch arm calls response.cancel()", "handler context survives a connection failure")
	}
	if f := mustFunc(p, r, "", "Connection", "handleCancel"); f != nil {
		ok := false
		for _, c := range core.CallsIn(f, "messageExchangeSet.handleCancel") {
			if optGuard(c, "PropagateCancel", true) {
				ok = true
			}
		}
		r.Check(ok, "C14-R4", fname(f), "cancel frames honoured only with PropagateCancel", p.Pos(f.Pos()), "guarded by the option", "cancel frames are honoured (or ignored) regardless of PropagateCancel")
	}
	if f := mustFunc(p, r, "", "messageExchange", "handleCancel"); f != nil {
		ok := false
		core.EachInstr(f, func(i ssa.Instruction) {
			if c, isC := i.(*ssa.Call); isC {
				if fl := core.LoadedField(c.Call.Value); fl != nil && fl.Name() == "ctxCancel" {
					ok = true
				}
			}
		})
		r.Check(ok, "C14-R4", fname(f), "an honoured cancel frame cancels the exchange's context", p.Pos(f.Pos()), "ctxCancel()", "cancel frames do not cancel the handler")
	}
	if f := mustFunc(p, r, "", "Connection", "onCancel"); f != nil {
		ok := false
		for _, c := range core.CallsIn(f, "Connection.sendMessage") {
			if optGuard(c, "SendCancelOnContextCanceled", true) {
				ok = true
			}
		}
		r.Check(ok, "C14-R4", fname(f), "cancel frames sent only with SendCancelOnContextCanceled", p.Pos(f.Pos()), "guarded by the option", "cancel frames are sent regardless of the option")
	}
	if f := mustFunc(p, r, "", "messageExchange", "onCtxErr"); f != nil {
		ok := false
		core.EachInstr(f, func(i ssa.Instruction) {
			c, isC := i.(*ssa.Call)
			if !isC {
				return
			}
			if _, isP := c.Call.Value.(*ssa.UnOp); !isP {
				if _, isPhi := c.Call.Value.(*ssa.Phi); !isPhi {
					if fl := core.LoadedField(c.Call.Value); fl == nil || fl.Name() != "onCancel" {
						return
					}
				}
			}
			for _, cm := range factsAt(c.Block()).cmps {
				if cm.Op == token.EQL && (loadsGlobalPkg(cm.X, "Canceled") || loadsGlobalPkg(cm.Y, "Canceled")) {
					ok = true
				}
			}
		})
		r.Check(ok, "C14-R4", fname(f), "onCancel only for context.Canceled", p.Pos(f.Pos()), "deadline expiry does not send a cancel frame", "cancel frames are sent for deadline expiry as well")
	}
	// every way the caller's wait observes its context error passes onCtxErr
	// (the only place a cancel frame is sent): a context cancelled before the
	// wait starts is reported as well as one cancelled during it.
	if f := mustFunc(p, r, "", "messageExchange", "recvPeerFrame"); f != nil {
		n := 0
		isCtxRet := func(i ssa.Instruction) bool {
			ret, isRet := i.(*ssa.Return)
			if !isRet || len(ret.Results) != 2 {
				return false
			}
			return callResult(core.ReturnValues(ret)[1], "GetContextError") != nil
		}
		core.EachInstr(f, func(i ssa.Instruction) {
			if isCtxRet(i) {
				n++
			}
		})
		res := core.ReachAvoiding(f, nil, isCtxRet, func(i ssa.Instruction) bool {
			_, ok := core.IsCall(i, "messageExchange.onCtxErr")
			return ok
		}, nil)
		r.Check(n >= 2 && !res.Found, "C14-R4", fname(f), "every context-error return of the response wait passes onCtxErr", p.Pos(f.Pos()),
			fmt.Sprintf("%d returns of GetContextError, each behind onCtxErr", n), "the wait can report the caller's cancellation without onCtxErr: no cancel frame is sent and the handler keeps running until its ttl: "+p.TrailString(res))
	}
	if f := mustFunc(p, r, "", "Connection", "handleFrameRelay"); f != nil {
		// the early `return true` for cancel frames is guarded by !PropagateCancel and type == cancel
		ok := false
		d := p.NewDomain("", "messageType")
		core.EachInstr(f, func(i ssa.Instruction) {
			ret, isRet := i.(*ssa.Return)
			if !isRet {
				return
			}
			fs := factsAt(ret.Block())
			if fs.hasBool(func(v ssa.Value) bool { fl := core.LoadedField(v); return fl != nil && fl.Name() == "PropagateCancel" }, false) &&
				fs.hasCmp(func(v ssa.Value) bool { fl := core.LoadedField(v); return fl != nil && fl.Name() == "messageType" }, []token.Token{token.EQL}, d.Min(d.OfName("messageTypeCancel"))) {
				ok = true
			}
		})
		r.Check(ok, "C14-R4", fname(f), "relay drops cancel frames unless PropagateCancel", p.Pos(f.Pos()), "early return under type == cancel && !PropagateCancel", "relay forwards (or drops) cancel frames regardless of the option")
	}
}

// c14CancelGate: with SendCancelOnContextCanceled set, a cancelled call always
// tells the peer: assuming the option is true, no return of Connection.onCancel
// is reachable that does not pass the send of the cancel message (the state
// of the connection is no reason to keep the remote handler running until its ttl).
func c14CancelGate(p *core.Prog, r *core.Report) {
	f := mustFunc(p, r, "", "Connection", "onCancel")
	if f == nil {
		return
	}
	isSend := func(i ssa.Instruction) bool {
		_, ok := core.IsCall(i, "Connection.sendMessage")
		return ok
	}
	if len(core.CallsIn(f, "Connection.sendMessage")) == 0 {
		r.Errorf("Connection.onCancel: no sendMessage call found")
		return
	}
	res := core.ReachAvoiding(f, nil, core.IsReturn, isSend, pruneBoolField("SendCancelOnContextCanceled", true))
	r.Check(!res.Found, "C14-R4", fname(f), "with the option set every cancellation is sent to the peer", p.Pos(f.Pos()),
		"assuming SendCancelOnContextCanceled no return avoids sendMessage(cancel)", "with SendCancelOnContextCanceled set a cancellation can still be swallowed (another condition decides): the remote handler runs until its ttl: "+p.TrailString(res))
}

// c14SetTTL: the relay's in-place ttl rewrite stores the clamped duration in
// whole milliseconds, truncated: uint32(d / time.Millisecond) of the parameter
// itself. Anything added before the division forwards more than the clamp.
func c14SetTTL(p *core.Prog, r *core.Report) {
	// the same for the ttl a caller writes into its call req
	if w := mustFunc(p, r, "", "callReq", "write"); w != nil {
		ok, n := false, 0
		core.EachInstr(w, func(i ssa.Instruction) {
			bo, isB := i.(*ssa.BinOp)
			if !isB || bo.Op != token.QUO {
				return
			}
			n++
			k, isK := core.ConstInt(bo.Y)
			fl := core.LoadedField(core.StripConv(bo.X))
			if isK && k == msNanos && fl != nil && fl.Name() == "TimeToLive" {
				ok = true
			}
		})
		r.Check(ok && n == 1, "C14-R1", fname(w), "ttl written = TimeToLive / time.Millisecond (truncated)", p.Pos(w.Pos()), "the field itself is divided by one millisecond", "the ttl written into the call req is not the truncated millisecond count of the remaining time (rounded): the next hop is given more time than the caller has")
	}
	f := mustFunc(p, r, "", "lazyCallReq", "SetTTL")
	if f == nil || len(f.Params) < 2 {
		return
	}
	d := f.Params[len(f.Params)-1]
	ok, n := false, 0
	core.EachInstr(f, func(i ssa.Instruction) {
		bo, isB := i.(*ssa.BinOp)
		if !isB || bo.Op != token.QUO {
			return
		}
		n++
		k, isK := core.ConstInt(bo.Y)
		if isK && k == msNanos && core.StripConv(bo.X) == ssa.Value(d) {
			ok = true
		}
	})
	r.Check(ok && n == 1, "C14-R3", fname(f), "ttl written = d / time.Millisecond (truncated)", p.Pos(f.Pos()), "the parameter itself is divided by one millisecond", "the ttl written into the forwarded frame is not the truncated millisecond count of the clamped duration (rounded up or offset): the relay forwards more than its maximum")
}

// c14WatcherCancels: when an inbound exchange ends with an error (failed
// writer or reader, connection error, shutdown) the handler's context is
// cancelled: in the per-call watcher of dispatchInbound every path that leaves
// through the exchange's error latch calls response.cancel(), whatever the error.
func c14WatcherCancels(p *core.Prog, r *core.Report) {
	f := mustFunc(p, r, "", "Connection", "dispatchInbound")
	if f == nil {
		return
	}
	n := 0
	// the watcher: a closure of dispatchInbound, or a function it starts with `go`
	cands := append([]*ssa.Function{}, f.AnonFuncs...)
	core.EachInstr(f, func(i ssa.Instruction) {
		if g, ok := i.(*ssa.Go); ok {
			if t := g.Call.StaticCallee(); t != nil && t.Blocks != nil && p.InAnalysed(t) {
				cands = append(cands, t)
			}
		}
	})
	seenCand := map[*ssa.Function]bool{}
	for _, a := range cands {
		if seenCand[a] {
			continue
		}
		seenCand[a] = true
		var sel *ssa.Select
		core.EachInstr(a, func(i ssa.Instruction) {
			if s, ok := i.(*ssa.Select); ok && s.Blocking {
				sel = s
			}
		})
		if sel == nil {
			continue
		}
		// the arm index of the error latch
		arm := -1
		for k, st := range sel.States {
			if fl := core.LoadedField(st.Chan); fl != nil && fl.Name() == "c" {
				arm = k
			}
		}
		if arm < 0 {
			continue
		}
		n++
		// blocks entered under "selected index == arm"
		isCancel := func(i ssa.Instruction) bool {
			c, ok := i.(ssa.CallInstruction)
			if !ok {
				return false
			}
			if fl := core.LoadedField(c.Common().Value); fl != nil && fl.Name() == "cancel" {
				return true
			}
			return false
		}
		found := false
		trail := ""
		for _, b := range a.Blocks {
			fs := factsAt(b)
			onArm := fs.hasCmp(func(v ssa.Value) bool {
				e, ok := v.(*ssa.Extract)
				return ok && e.Tuple == ssa.Value(sel) && e.Index == 0
			}, []token.Token{token.EQL}, int64(arm))
			if !onArm || len(b.Instrs) == 0 {
				continue
			}
			first := b.Instrs[0]
			if isCancel(first) {
				continue
			}
			res := core.ReachAvoiding(a, first, core.IsReturn, isCancel, nil)
			if res.Found {
				found, trail = true, p.TrailString(res)
			}
			break
		}
		r.Check(!found, "C14-R4", fname(a), "the watcher cancels the handler's context whenever the exchange ends with an error", p.Pos(sel.Pos()),
			"every path through the error-latch arm calls response.cancel()", "for some exchange errors the handler's context is not cancelled: the handler keeps running until the caller's ttl although its response has ended: "+trail)
	}
	if n == 0 {
		r.Errorf("dispatchInbound: no watcher select with an error-latch arm found")
	}
}
