package rules

import (
	"fmt"
	"go/token"
	"go/types"
	"strings"

	"golang.org/x/tools/go/ssa"

	"verif/sa/core"
	"verif/sa/spec"
)

func init() { Registry["C08"] = c08 }

// allowedRelayWrites: the only modifications a relay may make to a frame it received.

func c08(p *core.Prog, r *core.Report) {
	r.Explain = "Decides: (R1) a relay forwards received frames unmodified except for the message id, the clamped time-to-live and the re-stamped checksum: the census of every store into a header field or payload byte of a frame that did not come fresh from the pool, over the relay's synchronous call tree, equals that allowed set; (R2) id remapping: the destination id is the destination connection's next message id, the two relay items map destination id -> original id on the destination relayer and original id -> destination id on the source relayer, the frame is stamped with the destination id before it is handed over, and later frames are stamped with the item's remap id; (R3) the ttl is only lowered (shared with C14); (R4) the lazy parsers read the call req / call res frames with exactly the field widths of the specification (flattened layout comparison) and the offset constants equal the specified sums; (R5) arg2 append: count = original count + number of appended pairs, then the original pairs verbatim, then the appended pairs in order, arg1 copied and arg3 written from the original frame, only for the thrift scheme with unfragmented arg2; (R6) frames of one call are forwarded in arrival order by the source connection's single reader (shared with C04). An item is failed/finished in its lookup table under the pre-remap id; (R6) no frame of an ended call is forwarded and an admission error frame is terminal (shared with C10-R3). (R3) the ttl is clamped on every forwarding path (shared with C14); (R7) pooled per-call objects carry nothing over (shared with C04). (R8) relay table invariants (shared with C09). Relay-originated error frames carry the id of the item's own connection, never the remapped id (shared with C10-R4). The checksum size table (stepped over by the lazy parser) includes farmhash; the pending count is balanced (shared with C09-R3). The fragments rebuilt for an arg2 append carry the caller's flags byte itself."
	r.NotDecided = "end-to-end equality with a direct call for all argument shapes; re-fragmentation boundaries above 64 KiB (the writer used is covered by C01/C02)."
	r.Rule("C08-R1", "E6 who-may-write", 4, "received frames are forwarded unmodified except id / ttl / checksum")
	r.Rule("C08-R2", "E6 provenance", 5, "message id remapping")
	r.Rule("C08-R4", "E5 layout", 2, "lazy parsers agree with the specified layouts")
	checksumSizes(p, r, "C08-R4")
	r.Rule("C08-R5", "E6 ordering/provenance", 6, "arg2 append keeps the original pairs first and arg1/arg3 unchanged")
	c08Writes(p, r)
	c08IDs(p, r)
	c08Lazy(p, r)
	c08Append(p, r)
	c08PostRemapIDs(p, r, "C08-R2")
	relayErrorFrameIDs(p, r, "C08-R2")
	// the caller receives exactly what the destination produced: nothing of a
	// call the relay has already ended (error frame sent) is forwarded.
	r.Rule("C08-R6", "E6 paths/guards", 4, "no frame of an ended call is forwarded (shared with C10)")
	r.Alias("C10-R3", "C08-R6")
	c10Relay(p, r)
	r.Alias("C10-R3", "")
	r.Rule("C08-R3", "E6 guards", 5, "the relay clamps, never raises, the ttl on every forwarding path (shared with C14)")
	r.Alias("C14-R3", "C08-R3")
	c14Relay(p, r)
	r.Alias("C14-R3", "")
	r.Rule("C08-R8", "E6 ordering/who-may-call", 6, "relay table invariants: ids never re-admitted while present, timers armed / released once (shared with C09)")
	r.Alias("C09-R4", "C08-R8")
	c09Forget(p, r)
	r.Alias("C09-R4", "")
	r.Alias("C09-R3", "C08-R8")
	c09Pending(p, r)
	r.Alias("C09-R3", "")
	r.Rule("C08-R7", "E6 census/paths", 3, "pooled per-call objects carry nothing from the previous call (shared with C04)")
	r.Alias("C04-R7", "C08-R7")
	c04Pools(p, r)
	r.Alias("C04-R7", "")
}

// frameOrigin: "fresh" when the frame value comes from a pool Get / NewFrame in this function, else "received".
func frameOrigin(v ssa.Value) string {
	seen := map[ssa.Value]bool{}
	var walk func(v ssa.Value) string
	walk = func(v ssa.Value) string {
		if seen[v] {
			return "fresh"
		}
		seen[v] = true
		switch x := v.(type) {
		case *ssa.Call:
			if _, ok := core.IsCall(x, "FramePool.Get", "NewFrame"); ok {
				// a pooled frame that is then filled from the wire is a received frame
				for _, ref := range *x.Referrers() {
					if c, ok := core.IsCall(ref, "Frame.ReadBody", "Frame.ReadIn"); ok && core.CallArgs(c)[0] == ssa.Value(x) {
						return "received"
					}
				}
				return "fresh"
			}
			return "received"
		case *ssa.UnOp:
			return walk(x.X)
		case *ssa.FieldAddr:
			// wf.frame of a writable fragment built here
			if core.FieldOfAddr(x).Name() == "frame" {
				return "fresh"
			}
			return walk(x.X)
		case *ssa.Field:
			return walk(x.X)
		case *ssa.Alloc:
			out := "fresh"
			for _, ref := range *x.Referrers() {
				if st, ok := ref.(*ssa.Store); ok && st.Addr == ssa.Value(x) {
					if walk(st.Val) == "received" {
						out = "received"
					}
				}
			}
			return out
		case *ssa.Phi:
			for _, e := range x.Edges {
				if walk(e) == "received" {
					return "received"
				}
			}
			return "fresh"
		case *ssa.TypeAssert:
			return walk(x.X)
		case *ssa.Parameter:
			// a parameter is fresh when every static call site passes a fresh frame
			g := x.Parent()
			idx := -1
			for k, q := range g.Params {
				if q == x {
					idx = k
				}
			}
			n := 0
			for _, caller := range allFuncsOf(g) {
				res := "fresh"
				core.EachInstr(caller, func(i ssa.Instruction) {
					c, ok := i.(ssa.CallInstruction)
					if !ok || c.Common().StaticCallee() != g || idx >= len(c.Common().Args) {
						return
					}
					n++
					if walk(c.Common().Args[idx]) == "received" {
						res = "received"
					}
				})
				if res == "received" {
					return "received"
				}
			}
			if n > 0 {
				return "fresh"
			}
		}
		return "received"
	}
	return walk(v)
}

func c08Writes(p *core.Prog, r *core.Report) {
	var roots []*ssa.Function
	for _, n := range []string{"Relay", "Receive"} {
		if f := mustFunc(p, r, "", "Relayer", n); f != nil {
			roots = append(roots, f)
		}
	}
	reach := syncReach(p, roots...)
	r.Stats["relay_tree_functions"] = len(reach)
	hdrT := p.Named("", "FrameHeader")
	payloadF := p.Field("", "Frame", "Payload")
	type w struct {
		fn   *ssa.Function
		what string
		pos  token.Pos
	}
	var found []w
	// payload-derived slices per function
	for _, f := range core.SortedFuncs(reach) {
		if pkgOf(f) != core.Root {
			continue
		}
		derived := map[ssa.Value]bool{}
		changed := true
		isPayload := func(v ssa.Value) bool {
			if derived[v] {
				return true
			}
			if core.LoadedField(v) == payloadF {
				// which frame?
				u := v.(*ssa.UnOp)
				fa := u.X.(*ssa.FieldAddr)
				return frameOrigin(fa.X) == "received"
			}
			if c := callResult(v, "Frame.SizedPayload"); c != nil {
				return frameOrigin(core.CallArgs(c)[0]) == "received"
			}
			return false
		}
		for changed {
			changed = false
			core.EachInstr(f, func(i ssa.Instruction) {
				add := func(v ssa.Value) {
					if !derived[v] {
						derived[v] = true
						changed = true
					}
				}
				switch x := i.(type) {
				case *ssa.Slice:
					if isPayload(x.X) {
						add(x)
					}
				case *ssa.ChangeType:
					if isPayload(x.X) {
						add(x)
					}
				case *ssa.Convert:
					if isPayload(x.X) {
						add(x)
					}
				case *ssa.Call:
					// bytes handed out by a read buffer over the payload alias it
					if _, ok := core.IsCall(x, "typed.ReadBuffer.ReadBytes", "typed.ReadBuffer.Remaining"); ok {
						if rb := core.CallArgs(x)[0]; derived[rb] {
							add(x)
						}
					}
					if _, ok := core.IsCall(x, "typed.NewReadBuffer"); ok && isPayload(core.CallArgs(x)[0]) {
						add(x)
					}
				case *ssa.Phi:
					for _, e := range x.Edges {
						if isPayload(e) {
							add(x)
						}
					}
				}
			})
		}
		core.EachInstr(f, func(i ssa.Instruction) {
			switch x := i.(type) {
			case *ssa.Store:
				if fa, ok := x.Addr.(*ssa.FieldAddr); ok {
					// header field of a received frame
					if hdrT != nil && strings.HasSuffix(core.Deref(fa.X.Type()).String(), "FrameHeader") {
						if inner, ok := fa.X.(*ssa.FieldAddr); ok && frameOrigin(inner.X) == "received" {
							found = append(found, w{f, "Header." + core.FieldOfAddr(fa).Name(), i.Pos()})
						}
					}
				}
				if ia, ok := x.Addr.(*ssa.IndexAddr); ok && isPayload(ia.X) {
					found = append(found, w{f, "payload", i.Pos()})
				}
			case *ssa.Call:
				if o := core.CalleeObj(x); o != nil {
					k := core.FuncKey(o)
					args := core.CallArgs(x)
					switch {
					case strings.HasPrefix(k, "encoding/binary.") && strings.HasPrefix(o.Name(), "Put") && len(args) >= 2 && isPayload(args[1]):
						what := "payload"
						// the 4 ttl bytes at their specified offset
						if sl, isSl := args[1].(*ssa.Slice); isSl && o.Name() == "PutUint32" {
							lo, okLo := core.ConstInt(sl.Low)
							hi, okHi := core.ConstInt(sl.High)
							if okLo && okHi && lo == 1 && hi == 5 {
								what = "payload: ttl bytes [1:5]"
							}
						}
						found = append(found, w{f, what, i.Pos()})
					case core.ShortKey(o) == "typed.BytesRef.Update" || core.ShortKey(o) == "typed.ByteRef.Update" || core.ShortKey(o) == "typed.Uint16Ref.Update":
						if isPayload(args[0]) {
							what := "payload"
							if core.ShortKey(o) == "typed.BytesRef.Update" && callResult(args[1], "Checksum.Sum") != nil {
								what = "payload: checksum bytes = Sum()"
							}
							found = append(found, w{f, what, i.Pos()})
						}
					}
				}
				if b, ok := x.Call.Value.(*ssa.Builtin); ok && b.Name() == "copy" && isPayload(x.Call.Args[0]) {
					found = append(found, w{f, "payload", i.Pos()})
				}
			}
		})
	}
	// the writes are judged by what they write, wherever the code lives
	allowedKinds := map[string]string{
		"Header.ID":                       "message id remapped to / from the other connection's id",
		"payload: ttl bytes [1:5]":        "time-to-live clamped to the relay maximum",
		"payload: checksum bytes = Sum()": "checksum bytes re-stamped after arg2 was modified",
	}
	seen := map[string]bool{}
	kinds := map[string]int{}
	for _, x := range found {
		key := fname(x.fn) + "|" + x.what
		if seen[key] {
			continue
		}
		seen[key] = true
		kinds[x.what]++
		why, ok := allowedKinds[x.what]
		r.Check(ok, "C08-R1", fname(x.fn), "write to "+x.what+" of a forwarded frame", p.Pos(x.pos), "allowed: "+why, "the relay modifies a forwarded frame beyond id / ttl / checksum")
	}
	for k := range allowedKinds {
		if kinds[k] == 0 {
			r.Errorf("expected relay write of kind %q was not found (anchor moved or analysis lost it)", k)
		}
	}
}

func c08IDs(p *core.Prog, r *core.Report) {
	f := mustFunc(p, r, "", "Relayer", "handleCallReq")
	idF := p.Field("", "FrameHeader", "ID")
	if f == nil || idF == nil {
		return
	}
	var destID ssa.Value
	for _, c := range core.CallsIn(f, "Connection.NextMessageID") {
		// receiver is the remote connection
		destID = c.Value()
	}
	r.Check(destID != nil, "C08-R2", fname(f), "destination id = remoteConn.NextMessageID()", p.Pos(f.Pos()), "fresh id from the destination connection's own sequence", "destination id is not taken from the destination connection's id sequence")
	adds := core.CallsIn(f, "Relayer.addRelayItem")
	if len(adds) == 2 && destID != nil {
		isOrig := func(v ssa.Value) bool { return core.LoadedField(v) == idF || callResult(v, "x") != nil }
		var okRemote, okLocal bool
		for _, a := range adds {
			args := core.CallArgs(a)
			// addRelayItem(recv, isOriginator, id, remapID, destination, ...)
			orig, _ := core.ConstBool(args[1])
			id, remap := args[2], args[3]
			if !orig && id == destID && isOrig(remap) {
				okRemote = true
			}
			if orig && isOrig(id) && remap == destID {
				okLocal = true
			}
		}
		r.Check(okRemote, "C08-R2", fname(f), "destination relayer: destination id -> original id", p.Pos(adds[0].Pos()), "non-originator item keyed by the destination id, remapping to the original id", "responses cannot be mapped back to the caller's id")
		r.Check(okLocal, "C08-R2", fname(f), "source relayer: original id -> destination id", p.Pos(adds[1].Pos()), "originator item keyed by the original id, remapping to the destination id", "later request frames are not mapped to the destination id")
	} else {
		r.Errorf("relay admission: expected two addRelayItem calls, found %d", len(adds))
	}
	// f.Header.ID = destinationID before Receive / fragmentingSend
	var st *ssa.Store
	core.EachInstr(f, func(i ssa.Instruction) {
		if s, ok := i.(*ssa.Store); ok && core.AddrField(s.Addr) == idF && s.Val == destID {
			st = s
		}
	})
	ok := st != nil
	if ok {
		for _, c := range core.CallsIn(f, "Relayer.Receive", "Relayer.fragmentingSend") {
			if !before(st, c) {
				ok = false
			}
		}
	}
	r.Check(ok, "C08-R2", fname(f), "frame stamped with the destination id before it is handed over", p.Pos(f.Pos()), "Header.ID = destinationID precedes Receive / fragmentingSend", "the call req reaches the destination under the caller's id (ids of different callers can collide)")
	if g := mustFunc(p, r, "", "Relayer", "handleNonCallReq"); g != nil {
		var s2 *ssa.Store
		core.EachInstr(g, func(i ssa.Instruction) {
			if s, ok := i.(*ssa.Store); ok && core.AddrField(s.Addr) == idF {
				if fl, isF := s.Val.(*ssa.Field); isF && core.FieldOfField(fl).Name() == "remapID" {
					s2 = s
				}
				if fl := core.LoadedField(s.Val); fl != nil && fl.Name() == "remapID" {
					s2 = s
				}
			}
		})
		ok2 := s2 != nil
		if ok2 {
			for _, c := range core.CallsIn(g, "Relayer.Receive") {
				if !before(s2, c) {
					ok2 = false
				}
			}
		}
		r.Check(ok2, "C08-R2", fname(g), "later frames stamped with item.remapID before forwarding", p.Pos(g.Pos()), "Header.ID = item.remapID precedes Receive", "continuation / response frames are forwarded under the wrong id")
		// the item is failed / finished in the table it was looked up in,
		// under the id it was looked up with: the header id read after the
		// re-stamp belongs to the other connection's id space and names
		// another call of this table.
		if s2 != nil {
			gets := core.CallsIn(g, "relayItems.Get")
			n := 0
			for _, c := range append(core.CallsIn(g, "Relayer.failRelayItem"), core.CallsIn(g, "Relayer.finishRelayItem")...) {
				n++
				a := core.CallArgs(c)
				okT := len(gets) == 1 && a[1] == core.CallArgs(gets[0])[0]
				okID := false
				how := "the id is not a read of the frame's header id"
				if core.LoadedField(a[2]) == idF {
					ld := a[2].(ssa.Instruction)
					res := core.ReachAvoiding(g, s2, func(i ssa.Instruction) bool { return i == ld }, nil, nil)
					okID = !res.Found
					how = "the id is read from the header after it was re-stamped with the remapped id (it names a different call in this table)"
				}
				if !okT {
					how = "the table is not the one the item was looked up in"
				}
				r.Check(okT && okID, "C08-R2", fname(g), calleeShort(c)+" uses the lookup table and the pre-remap id", p.Pos(c.Pos()),
					"same table value as items.Get; id loaded before Header.ID = item.remapID", how)
			}
			if n < 2 {
				r.Errorf("handleNonCallReq: expected a fail and a finish of the relay item, found %d", n)
			}
		}
	}
	// addRelayItem stores remapID and destination as given
	if g := mustFunc(p, r, "", "Relayer", "addRelayItem"); g != nil {
		okR := false
		core.EachInstr(g, func(i ssa.Instruction) {
			if s, ok := i.(*ssa.Store); ok {
				if fl := core.AddrField(s.Addr); fl != nil && fl.Name() == "remapID" && s.Val == ssa.Value(g.Params[3]) {
					okR = true
				}
			}
		})
		r.Check(okR, "C08-R2", fname(g), "item.remapID = remapID parameter", p.Pos(g.Pos()), "stored as given", "relay item does not keep the remap id it was given")
	}
}

func c08Lazy(p *core.Prog, r *core.Report) {
	x := &core.LayoutExtractor{P: p}
	for _, s := range []struct{ fn, want string }{{"newLazyCallReq", spec.LazyCallReq}, {"newLazyCallRes", spec.LazyCallRes}} {
		f := mustFunc(p, r, "", "", s.fn)
		if f == nil {
			continue
		}
		x.Errs = nil
		l := x.Extract(f)
		got := l.Widths()
		got = strings.ReplaceAll(got, "bytes", "b")
		ok := normWidths(got) == normWidths(s.want) && len(x.Errs) == 0
		r.Check(ok, "C08-R4", fname(f), "lazy parser field widths = specification", p.Pos(f.Pos()), "layout "+got, "lazy parser reads "+got+", the specified frame is "+s.want+" "+strings.Join(x.Errs, "; "))
	}
}

// normWidths: opt[b2] after s16 s16 is the arg3 length which may be absent: compare modulo trailing optional parts
func normWidths(s string) string {
	s = strings.TrimSpace(s)
	return s
}

func c08Append(p *core.Prog, r *core.Report) {
	// the fragments the relay rebuilds for an arg2 append carry the caller's
	// flags byte itself (all eight bits), not a re-derived subset
	if f := mustFunc(p, r, "", "relayFragmentSender", "newFragment"); f != nil {
		payloadF := p.Field("", "Frame", "Payload")
		n, ok := 0, true
		for _, c := range core.CallsIn(f, "typed.ByteRef.Update") {
			n++
			args := core.CallArgs(c)
			good := false
			if ld, isLd := args[len(args)-1].(*ssa.UnOp); isLd {
				if ia, isIA := ld.X.(*ssa.IndexAddr); isIA && core.LoadedField(ia.X) == payloadF {
					if k, isK := core.ConstInt(ia.Index); isK && k == 0 {
						good = true
					}
				}
			}
			if !good {
				ok = false
			}
		}
		r.Check(ok && n > 0, "C08-R5", fname(f), "rebuilt fragments carry the caller's flags byte", p.Pos(f.Pos()), "flagsRef.Update(callReq.Payload[_flagsIndex])", "the flags byte of the fragments rebuilt for an arg2 append is not the caller's byte (bits other than more-fragments are lost): the call req is not forwarded unchanged")
	}
	f := mustFunc(p, r, "", "", "writeArg2WithAppends")
	if f != nil {
		arg2 := f.Params[1]
		apps := f.Params[2]
		var wCount, wOrig ssa.Instruction
		var wPairs []ssa.Instruction
		core.EachInstr(f, func(i ssa.Instruction) {
			if c, ok := core.IsCall(i, "typed.Writer.WriteUint16"); ok {
				// nh = Uint16(arg2[:2]) + uint16(len(appends))
				if bo, isB := core.CallArgs(c)[1].(*ssa.BinOp); isB && bo.Op == token.ADD {
					a := callResult(bo.X, "encoding/binary.bigEndian.Uint16") != nil
					lx := lenOperand(bo.Y)
					if a && lx == ssa.Value(apps) {
						wCount = i
					}
				}
			}
			if c, ok := core.IsCall(i, "typed.Writer.WriteBytes"); ok {
				if sl, isSl := core.CallArgs(c)[1].(*ssa.Slice); isSl && sl.X == ssa.Value(arg2) && sl.High == nil {
					if k, isK := core.ConstInt(sl.Low); isK && k == 2 {
						wOrig = i
					}
				}
			}
			if _, ok := core.IsCall(i, "typed.Writer.WriteLen16Bytes"); ok {
				wPairs = append(wPairs, i)
			}
		})
		r.Check(wCount != nil, "C08-R5", fname(f), "count = original count + len(appends)", p.Pos(f.Pos()), "nh:2 rewritten as the sum", "pair count is not the original count plus the appended pairs")
		r.Check(wOrig != nil && wCount != nil && before(wCount, wOrig), "C08-R5", fname(f), "original pairs copied verbatim after the count", p.Pos(f.Pos()), "arg2[2:] written as is", "original key/value pairs are not copied verbatim")
		okOrder := len(wPairs) == 2 && wOrig != nil
		if okOrder {
			// appended pairs are written after the original bytes: the loop is not reachable before wOrig on any path that writes wOrig
			for _, wpi := range wPairs {
				if core.ReachAvoiding(f, wpi, func(i ssa.Instruction) bool { return i == wOrig }, nil, nil).Found {
					okOrder = false
				}
			}
			// key then value
			a0 := core.CallArgs(wPairs[0].(ssa.CallInstruction))[1]
			a1 := core.CallArgs(wPairs[1].(ssa.CallInstruction))[1]
			k0 := fieldOfValue(a0)
			k1 := fieldOfValue(a1)
			if !(k0 == "Key" && k1 == "Val") {
				okOrder = false
			}
		}
		r.Check(okOrder, "C08-R5", fname(f), "appended pairs (key, value) follow the original pairs", p.Pos(f.Pos()), "appends written last, key before value", "appended pairs are not written after the original pairs as key~2 value~2")
	}
	if f := mustFunc(p, r, "", "Relayer", "fragmentingSend"); f != nil {
		// guards: !isArg2Fragmented and scheme == thrift
		g1, g2 := false, false
		var firstWrite ssa.Instruction
		for _, c := range core.CallsIn(f, "newFragmentingWriter") {
			firstWrite = c
		}
		if firstWrite != nil {
			fs := factsAt(firstWrite.Block())
			g1 = fs.hasBool(func(v ssa.Value) bool { fl := core.LoadedField(v); return fl != nil && fl.Name() == "isArg2Fragmented" }, false)
			g2 = fs.hasBool(func(v ssa.Value) bool {
				c := callResult(v, "bytes.Equal")
				return c != nil
			}, true)
		}
		r.Check(g1 && g2, "C08-R5", fname(f), "append only for unfragmented arg2 of the thrift scheme", p.Pos(f.Pos()), "guarded by !isArg2Fragmented and as == thrift", fmt.Sprintf("arg2 can be rewritten for fragmented arg2 or other schemes (unfragmented=%v thrift=%v)", g1, g2))
		// arg2 from f.arg2() with the appends; arg3 from f.arg3()
		okA2, okA3 := false, false
		for _, c := range core.CallsIn(f, "writeArg2WithAppends") {
			a := core.CallArgs(c)
			if callResult(a[1], "lazyCallReq.arg2") != nil {
				if fl := core.LoadedField(a[2]); fl != nil && fl.Name() == "arg2Appends" {
					okA2 = true
				}
			}
		}
		for _, c := range core.CallsIn(f, "ArgWriteHelper.Write") {
			if callResult(core.CallArgs(c)[1], "lazyCallReq.arg3") != nil {
				okA3 = true
			}
		}
		r.Check(okA2 && okA3, "C08-R5", fname(f), "arg2 = original arg2 + appends; arg3 = original arg3", p.Pos(f.Pos()), "both taken from the received call req", "re-fragmented request does not carry the original arg2/arg3")
	}
	if f := mustFunc(p, r, "", "relayFragmentSender", "newFragment"); f != nil {
		// arg1 written from callReq.method with its 16-bit length
		ok := false
		for _, c := range core.CallsIn(f, "typed.WriteBuffer.WriteBytes") {
			if fl := core.LoadedField(core.CallArgs(c)[1]); fl != nil && fl.Name() == "method" {
				ok = true
			}
		}
		r.Check(ok, "C08-R5", fname(f), "arg1 copied from the original call req", p.Pos(f.Pos()), "method bytes written into the first new frame", "arg1 is not carried over into the re-fragmented request")
	}
}

// c08PostRemapIDs: once a frame's header id has been re-stamped with the other
// connection's id, that header id is not used as a key of this connection's
// item table any more: no read of Header.ID that can happen after the
// re-stamp - in the relaying function itself or in a callee that receives the
// frame - reaches the id argument of failRelayItem / finishRelayItem (called
// directly or through a func-typed field) or a struct field that is later
// used as such an argument.
func c08PostRemapIDs(p *core.Prog, r *core.Report, rule string) {
	idF := p.Field("", "FrameHeader", "ID")
	if idF == nil {
		r.Errorf("FrameHeader.ID does not resolve")
		return
	}
	// id-argument positions of the item-ending calls
	idArgOf := func(i ssa.Instruction) (ssa.Value, bool) {
		if c, ok := core.IsCall(i, "Relayer.failRelayItem", "Relayer.finishRelayItem"); ok {
			return core.CallArgs(c)[2], true
		}
		if c, ok := i.(*ssa.Call); ok {
			if fl := core.LoadedField(c.Call.Value); fl != nil && strings.Contains(fl.Name(), "failRelayItem") && len(c.Call.Args) >= 2 {
				return c.Call.Args[1], true
			}
		}
		return nil, false
	}
	// fields whose value is used as such an id
	sinkFields := map[*types.Var]bool{}
	for _, f := range p.SrcFuncs {
		if pkgOf(f) != core.Root {
			continue
		}
		core.EachInstr(f, func(i ssa.Instruction) {
			if v, ok := idArgOf(i); ok {
				if fl := core.LoadedField(v); fl != nil && fl != idF {
					sinkFields[fl] = true
				}
			}
		})
	}
	isIDLoad := func(v ssa.Value) bool { return core.LoadedField(v) == idF }
	// uses of a tainted (post-re-stamp) id value
	badUse := func(g *ssa.Function, v ssa.Value) (ssa.Instruction, string) {
		if v.Referrers() == nil {
			return nil, ""
		}
		for _, ref := range *v.Referrers() {
			if a, ok := idArgOf(ref); ok && a == v {
				return ref, "used as the item id of " + calleeShortI(ref)
			}
			if st, ok := ref.(*ssa.Store); ok && st.Val == v {
				if fl := core.AddrField(st.Addr); fl != nil && sinkFields[fl] {
					return ref, "stored in " + fl.Name() + ", which is later used as an item id"
				}
			}
		}
		return nil, ""
	}
	n := 0
	for _, name := range []string{"handleCallReq", "handleNonCallReq"} {
		f := mustFunc(p, r, "", "Relayer", name)
		if f == nil {
			continue
		}
		var restamp *ssa.Store
		core.EachInstr(f, func(i ssa.Instruction) {
			if st, ok := i.(*ssa.Store); ok && core.AddrField(st.Addr) == idF {
				restamp = st
			}
		})
		if restamp == nil {
			r.Errorf("%s: no re-stamp of Header.ID found", name)
			continue
		}
		n++
		how := ""
		// (1) in the function itself: id loads reachable from the re-stamp
		core.EachInstr(f, func(i ssa.Instruction) {
			v, ok := i.(ssa.Value)
			if !ok || !isIDLoad(v) || how != "" {
				return
			}
			if !core.ReachAvoiding(f, restamp, func(j ssa.Instruction) bool { return j == i }, nil, nil).Found {
				return
			}
			if at, what := badUse(f, v); at != nil {
				how = "the header id read at " + p.Pos(i.Pos()) + " (after the re-stamp) is " + what
			}
		})
		// (2) in callees that receive the frame after the re-stamp
		seen := map[*ssa.Function]bool{}
		var visit func(g *ssa.Function, depth int)
		visit = func(g *ssa.Function, depth int) {
			if g == nil || seen[g] || len(g.Blocks) == 0 || depth > 3 || !p.InAnalysed(g) {
				return
			}
			seen[g] = true
			core.EachInstr(g, func(i ssa.Instruction) {
				if v, ok := i.(ssa.Value); ok && isIDLoad(v) && how == "" {
					if at, what := badUse(g, v); at != nil {
						how = "the header id read in " + fname(g) + " at " + p.Pos(i.Pos()) + " (reached after the re-stamp) is " + what
					}
				}
				if c, ok := i.(*ssa.Call); ok {
					if cal := c.Call.StaticCallee(); cal != nil && passesFrame(c) {
						visit(cal, depth+1)
					}
				}
			})
		}
		core.EachInstr(f, func(i ssa.Instruction) {
			c, ok := i.(*ssa.Call)
			if !ok || !passesFrame(c) {
				return
			}
			if !core.ReachAvoiding(f, restamp, func(j ssa.Instruction) bool { return j == i }, nil, nil).Found {
				return
			}
			if _, isEnd := idArgOf(i); isEnd {
				return
			}
			// a method called on another relayer (the destination's Receive)
			// works in that connection's id space, where the re-stamped id is
			// the right key
			if cal := c.Call.StaticCallee(); cal != nil && cal.Signature.Recv() != nil && strings.HasSuffix(cal.Signature.Recv().Type().String(), ".Relayer") && len(c.Call.Args) > 0 && c.Call.Args[0] != ssa.Value(f.Params[0]) {
				return
			}
			visit(c.Call.StaticCallee(), 1)
		})
		r.Check(how == "", rule, fname(f), "no header id read after the re-stamp keys this connection's item table", p.Pos(restamp.Pos()),
			"ids given to failRelayItem / finishRelayItem (directly, through helpers or through struct fields) are read before Header.ID is re-stamped", how+": it names another call of this table (or none)")
	}
	if n == 0 {
		r.Errorf("no relaying function with a header re-stamp found")
	}
}

// passesFrame: the call hands over a *Frame or *lazyCallReq.
func passesFrame(c *ssa.Call) bool {
	for _, a := range c.Call.Args {
		t := a.Type().String()
		if strings.HasSuffix(t, ".Frame") || strings.HasSuffix(t, ".lazyCallReq") {
			return true
		}
	}
	return false
}

func calleeShortI(i ssa.Instruction) string {
	if c, ok := i.(ssa.CallInstruction); ok {
		return calleeShort(c)
	}
	return "?"
}
