package rules

import (
	"fmt"
	"go/token"
	"go/types"
	"sort"
	"strings"

	"golang.org/x/tools/go/ssa"

	"verif/sa/core"
)

func init() { Registry["C04"] = c04 }

// guardedTable: (package, type, field path) -> (mutex field path). Candidates
// were found with the majority rule (field accessed under the lock at >= 90% of
// its sites), then confirmed by reading; see DESIGN.md C04.
type guardedEntry struct {
	pkg   string
	typ   string
	field []string
	mutex []string
}

var guardedTable = []guardedEntry{
	{"", "messageExchangeSet", []string{"exchanges"}, []string{"RWMutex"}},
	{"", "messageExchangeSet", []string{"expiredExchanges"}, []string{"RWMutex"}},
	{"", "messageExchangeSet", []string{"shutdown"}, []string{"RWMutex"}},
	{"", "relayItems", []string{"items"}, []string{"RWMutex"}},
	{"", "relayItems", []string{"tombs"}, []string{"RWMutex"}},
	{"", "Connection", []string{"state"}, []string{"stateMut"}},
	{"", "Channel", []string{"mutable", "state"}, []string{"mutable", "RWMutex"}},
	{"", "Channel", []string{"mutable", "peerInfo"}, []string{"mutable", "RWMutex"}},
	{"", "Channel", []string{"mutable", "l"}, []string{"mutable", "RWMutex"}},
	{"", "Channel", []string{"mutable", "idleSweep"}, []string{"mutable", "RWMutex"}},
	{"", "Channel", []string{"mutable", "conns"}, []string{"mutable", "RWMutex"}},
	{"", "PeerList", []string{"peersByHostPort"}, []string{"RWMutex"}},
	{"", "PeerList", []string{"peerHeap"}, []string{"RWMutex"}},
	{"", "PeerList", []string{"scoreCalculator"}, []string{"RWMutex"}},
	{"", "RootPeerList", []string{"peersByHostPort"}, []string{"RWMutex"}},
	{"", "Peer", []string{"inboundConnections"}, []string{"RWMutex"}},
	{"", "Peer", []string{"outboundConnections"}, []string{"RWMutex"}},
	{"", "Peer", []string{"scCount"}, []string{"RWMutex"}},
	{"", "Peer", []string{"onUpdate"}, []string{"RWMutex"}},
	{"", "subChannelMap", []string{"subchannels"}, []string{"RWMutex"}},
	{"", "SubChannel", []string{"peers"}, []string{"RWMutex"}},
	{"", "handlerMap", []string{"handlers"}, []string{"RWMutex"}},
	{"", "healthHistory", []string{"states"}, []string{"RWMutex"}},
	{"", "healthHistory", []string{"insertAt"}, []string{"RWMutex"}},
	{"", "healthHistory", []string{"total"}, []string{"RWMutex"}},
	{"", "tracingKeysMapping", []string{"mapping"}, []string{"RWMutex"}},
}

func c04(p *core.Prog, r *core.Report) {
	r.Explain = "Decides necessary lock and ownership discipline (not schedules): (R1) every read of a field in the guarded-by table happens with its mutex held (R or W) and every write with the write lock, on every path, with locks followed through wrappers, helpers whose callers all hold the lock, and address getters; fields written once before the reading goroutine is started are checked for exactly that; shared (non-fresh) objects are not mutated while only a read lock is held; (R2) the message id counter is touched only through atomic Inc after one initial Store that precedes the reader/writer goroutines; (R3) an exchange is stored under an id only after a lookup miss for that id, both under the write lock, and a duplicate inbound id reaches the protocol-error path; (R4) a frame is delivered to the exchange looked up under the frame's own id; (R5) exactly one reader and one writer goroutine are started per connection and every delivery of peer frames to exchanges / relay send queues happens on the reader's call tree; (R6) the lock-order graph is acyclic. Frames already delivered to an exchange are received before the connection error is returned. A guarded map or slice header loaded under the lock is followed to its later iteration steps and element accesses; (R7) objects taken from a sync.Pool have every per-use field re-assigned (or the whole struct overwritten) before they are handed out, with a reviewed table for the frame. No header id read after the relay's re-stamp keys this connection's item table (interprocedural, through struct fields and func-typed fields); every blocking wait on an exchange has the error-latch arm, so the connection's reader is never parked beyond an exchange's life. No instruction reachable after a non-deferred sync.Pool.Put uses the object or a view of it. A fragment's frame is released only by the readers that own it; an exchange's context is not assigned inside a goroutine started after the exchange was registered."
	r.NotDecided = "absence of data races on fields outside the table (this is a necessary condition, not a race detector); that responses match requests under every interleaving; fairness between calls."
	r.Rule("C04-R1", "E4 lockset", 100, "guarded-by discipline for every access of every table field; no mutation under a read-only lock")
	r.Rule("C04-R2", "E6 who-may-call", 2, "message ids allocated atomically")
	r.Rule("C04-R3", "E6 guards", 2, "in-flight ids are distinct (lookup miss before insert, under the write lock)")
	r.Rule("C04-R4", "E6 provenance", 2, "frames delivered to the exchange of their own id")
	r.Rule("C04-R5", "E6 who-may-call", 4, "single reader / writer goroutine; deliveries only from the reader's call tree")
	r.Rule("C04-R6", "E4 lock order", 1, "lock-order graph acyclic")

	locks := p.ComputeLocks()
	guardedAccesses(p, r, locks, "C04-R1", nil)
	c04ReadLockMutation(p, r, locks)
	c04IDs(p, r, locks)
	c04Goroutines(p, r)
	c03LockOrder(p, r, "C04-R6")
	noReentrantLock(p, r, locks, "C04-R6")
	r.Rule("C04-R7", "E6 census/paths", 3, "pooled per-call objects are reset when taken from the pool")
	c04Pools(p, r)
}

// guardedAccesses: every access of a field of the guarded table happens with
// its mutex held (read mode for reads, write mode for writes), on an object
// under construction, or is a reviewed write-once-before-go field. keep (when
// not nil) selects the table entries a property cares about.
func guardedAccesses(p *core.Prog, r *core.Report, locks *core.Locks, rule string, keep func(typ, field string, fld *types.Var) bool) {
	nth := map[string]int{}
	for _, e := range guardedTable {
		fld := mustField(p, r, e.pkg, e.typ, e.field...)
		mu := mustField(p, r, e.pkg, e.typ, e.mutex...)
		if fld == nil || mu == nil {
			continue
		}
		if keep != nil && !keep(e.typ, strings.Join(e.field, "."), fld) {
			continue
		}
		name := e.typ + "." + strings.Join(e.field, ".")
		for _, a := range locks.AccessesOf(fld) {
			fn := fname(a.Fn)
			kind := "read"
			need := core.RHeld
			if a.Write {
				kind, need = "write", core.WHeld
			}
			key := fn + "|" + kind + " " + name
			nth[key]++
			construct := kind + " " + name
			if nth[key] > 1 {
				construct = fmt.Sprintf("%s #%d", construct, nth[key])
			}
			pos := p.Pos(a.Instr.Pos())
			switch {
			case a.Fresh:
				r.OkTrivial(rule, fn, construct, pos, "object under construction (not yet published)")
			case a.Held[mu] >= need:
				r.Ok(rule, fn, construct, pos, "mutex "+core.LockName(mu)+" held")
			default:
				if ok, why := writtenOnceBeforeGo(p, locks, fld, mu, a); ok {
					r.Ok(rule, fn, construct, pos, why)
					continue
				}
				r.Fail(rule, fn, construct, pos, fmt.Sprintf("%s of %s without %s (held: %s)", kind, name, core.LockName(mu), a.Held))
			}
		}
	}
}

// writtenOnceBeforeGo: the field has a single non-constructor store, under the
// write lock, and the unlocked access is a read in a goroutine started after that store.
func writtenOnceBeforeGo(p *core.Prog, locks *core.Locks, fld, mu *types.Var, a core.FieldAccess) (bool, string) {
	if a.Write {
		return false, ""
	}
	var stores []core.FieldAccess
	for _, x := range locks.AccessesOf(fld) {
		if x.Write && !x.Fresh {
			stores = append(stores, x)
		}
	}
	if len(stores) != 1 || stores[0].Held[mu] != core.WHeld {
		return false, ""
	}
	st := stores[0]
	// the reader function is started by a go statement that the store dominates (same function)
	var goStmt ssa.Instruction
	core.EachInstr(st.Fn, func(i ssa.Instruction) {
		if g, ok := i.(*ssa.Go); ok {
			for _, t := range p.Callees(g) {
				if t == a.Fn {
					goStmt = i
				}
			}
		}
	})
	if goStmt == nil || !before(st.Instr, goStmt) {
		return false, ""
	}
	// and the reader is started only there
	n := 0
	for _, f := range p.SrcFuncs {
		core.EachInstr(f, func(i ssa.Instruction) {
			if c, ok := i.(ssa.CallInstruction); ok {
				for _, t := range p.Callees(c) {
					if t == a.Fn {
						n++
					}
				}
			}
		})
	}
	if n != 1 {
		return false, ""
	}
	return true, "written once under the lock in " + fname(st.Fn) + " before the only `go` that starts this reader (happens-before by goroutine creation)"
}

// c04ReadLockMutation: stores into non-fresh heap objects performed while only read-mode locks are held.
func c04ReadLockMutation(p *core.Prog, r *core.Report, locks *core.Locks) {
	rOnly := func(ls core.LockSet) (bool, string) {
		if len(ls) == 0 {
			return false, ""
		}
		name := ""
		for k, m := range ls {
			if m == core.WHeld {
				return false, ""
			}
			name = core.LockName(k)
		}
		return true, name
	}
	via := map[*ssa.Function]string{}
	var work []*ssa.Function
	for _, f := range p.SrcFuncs {
		core.EachInstr(f, func(i ssa.Instruction) {
			c, ok := i.(*ssa.Call)
			if !ok {
				return
			}
			if ro, name := rOnly(locks.At(i)); ro {
				for _, t := range p.Callees(c) {
					if t.Blocks != nil && p.InAnalysed(t) {
						if _, ok := via[t]; !ok {
							via[t] = name + " held in " + fname(f)
							work = append(work, t)
						}
					}
				}
			}
		})
	}
	checked := 0
	type hit struct {
		fn    *ssa.Function
		field string
		pos   token.Pos
	}
	var hits []hit
	for len(work) > 0 {
		f := work[len(work)-1]
		work = work[:len(work)-1]
		if strings.Contains(f.Name(), "Introspect") {
			continue // builds fresh result structures; stores are to locals
		}
		core.EachInstr(f, func(i ssa.Instruction) {
			for _, m := range locks.At(i) {
				if m == core.WHeld {
					return
				}
			}
			switch x := i.(type) {
			case *ssa.Store:
				fa, ok := x.Addr.(*ssa.FieldAddr)
				if !ok {
					return
				}
				checked++
				if freshBase(fa.X) {
					return
				}
				if isAtomicOrSync(core.FieldOfAddr(fa).Type()) {
					return
				}
				hits = append(hits, hit{f, shortTypeName(fa.X.Type()) + "." + core.FieldOfAddr(fa).Name(), i.Pos()})
			case *ssa.Call:
				for _, t := range p.Callees(x) {
					if t.Blocks != nil && p.InAnalysed(t) {
						if _, ok := via[t]; !ok {
							via[t] = via[f]
							work = append(work, t)
						}
					}
				}
			}
		})
	}
	r.Stats["stores_checked_under_read_only_locks"] = checked
	sort.Slice(hits, func(i, j int) bool {
		if hits[i].fn.String() != hits[j].fn.String() {
			return hits[i].fn.String() < hits[j].fn.String()
		}
		return hits[i].field < hits[j].field
	})
	seen := map[string]bool{}
	for _, h := range hits {
		k := fname(h.fn) + "|" + h.field
		if seen[k] {
			continue
		}
		seen[k] = true
		r.Fail("C04-R1", fname(h.fn), "store to "+h.field+" while only a read lock is held", p.Pos(h.pos),
			"a shared object is mutated while only "+via[h.fn]+" (read mode): two holders of the read lock can run this store concurrently")
	}
	if len(hits) == 0 {
		r.Ok("C04-R1", "package", "no shared object mutated under a read-only lock", "-", fmt.Sprintf("%d stores reachable under read-only locks, all to objects under construction", checked))
	}
}

// freshBase: the address is rooted at an allocation made in the same function (object under construction / local).
func freshBase(v ssa.Value) bool {
	for {
		switch x := v.(type) {
		case *ssa.Alloc:
			return true
		case *ssa.FieldAddr:
			v = x.X
		case *ssa.IndexAddr:
			v = x.X
		default:
			return false
		}
	}
}

func isAtomicOrSync(t types.Type) bool {
	s := t.String()
	return strings.HasPrefix(s, "go.uber.org/atomic.") || strings.HasPrefix(s, "sync.") || strings.HasPrefix(s, "sync/atomic.")
}

func c04IDs(p *core.Prog, r *core.Report, locks *core.Locks) {
	// R2: nextMessageID: one Store (initial) in newConnection before the go statements; otherwise only Inc
	idF := mustField(p, r, "", "Connection", "nextMessageID")
	newConn := mustFunc(p, r, "", "Channel", "newConnection")
	if idF != nil && newConn != nil {
		okAll := true
		n := 0
		for _, f := range p.SrcFuncs {
			core.EachInstr(f, func(i ssa.Instruction) {
				c, ok := i.(*ssa.Call)
				if !ok {
					return
				}
				args := core.CallArgs(c)
				if len(args) == 0 || core.AddrField(args[0]) != idF {
					return
				}
				o := core.CalleeObj(c)
				if o == nil {
					return
				}
				n++
				switch o.Name() {
				case "Inc", "Load":
					r.Ok("C04-R2", fname(f), "nextMessageID."+o.Name()+"()", p.Pos(i.Pos()), "atomic operation")
				case "Store":
					// must precede both go statements in newConnection
					ok2 := f == newConn
					if ok2 {
						core.EachInstr(f, func(j ssa.Instruction) {
							if _, isGo := j.(*ssa.Go); isGo && !before(i, j) {
								ok2 = false
							}
						})
					}
					if !ok2 {
						okAll = false
					}
					r.Check(ok2, "C04-R2", fname(f), "nextMessageID.Store(initial)", p.Pos(i.Pos()), "initial value stored before the connection's goroutines start", "id counter overwritten outside connection construction")
				default:
					okAll = false
					r.Fail("C04-R2", fname(f), "nextMessageID."+o.Name(), p.Pos(i.Pos()), "non-incrementing write to the id counter: ids may repeat")
				}
			})
		}
		_ = okAll
		if n < 2 {
			r.Errorf("nextMessageID: expected an initial Store and an Inc, found %d operations", n)
		}
		// NextMessageID returns Inc()
		if f := mustFunc(p, r, "", "Connection", "NextMessageID"); f != nil {
			ok := false
			core.EachInstr(f, func(i ssa.Instruction) {
				if ret, isRet := i.(*ssa.Return); isRet && len(ret.Results) == 1 {
					if c, isC := core.ReturnValues(ret)[0].(*ssa.Call); isC {
						if o := core.CalleeObj(c); o != nil && o.Name() == "Inc" && core.AddrField(core.CallArgs(c)[0]) == idF {
							ok = true
						}
					}
				}
			})
			r.Check(ok, "C04-R2", fname(f), "NextMessageID() = nextMessageID.Inc()", p.Pos(f.Pos()), "fresh id by atomic increment", "ids are not allocated by a single atomic increment")
		}
	}
	// R3: exchanges[k] = mex dominated by a lookup miss on the same key, W lock held
	exF := mustField(p, r, "", "messageExchangeSet", "exchanges")
	mu := mustField(p, r, "", "messageExchangeSet", "RWMutex")
	if exF != nil && mu != nil {
		n := 0
		for _, a := range locks.AccessesOf(exF) {
			upd, ok := a.Instr.(*ssa.MapUpdate)
			if !ok || a.Fresh {
				continue
			}
			n++
			// facts at the update: a comma-ok lookup of the same map and key was false
			fs := factsAt(upd.Block())
			miss := fs.hasBool(func(v ssa.Value) bool {
				ex, ok := v.(*ssa.Extract)
				if !ok || ex.Index != 1 {
					return false
				}
				lk, ok := ex.Tuple.(*ssa.Lookup)
				if !ok || !lk.CommaOk {
					return false
				}
				return core.LoadedField(lk.X) == exF && sameKey(lk.Index, upd.Key)
			}, false)
			held := a.Held[mu] == core.WHeld
			r.Check(miss && held, "C04-R3", fname(a.Fn), "exchanges[id] = mex only after a lookup miss for id, under the write lock", p.Pos(upd.Pos()),
				"insert is dominated by the failed comma-ok lookup of the same key; write lock held (callers hold it)", fmt.Sprintf("insert without duplicate check (miss=%v writeLock=%v): two calls could share an id", miss, held))
		}
		if n == 0 {
			r.Errorf("no insert into messageExchangeSet.exchanges found")
		}
	}
	// inbound duplicate -> protocolError
	if f := mustFunc(p, r, "", "Connection", "handleCallReq"); f != nil {
		ok := false
		for _, c := range core.CallsIn(f, "Connection.protocolError") {
			fs := factsAt(c.Block())
			if fs.nilCmp(func(v ssa.Value) bool { return callResult(v, "messageExchangeSet.newExchange") != nil }, false) {
				ok = true
			}
		}
		r.Check(ok, "C04-R3", fname(f), "duplicate inbound id -> protocolError", p.Pos(f.Pos()), "the failing arm of newExchange reaches protocolError", "a duplicate in-flight id from the peer is not treated as a protocol error")
	}
	// R4: forwardPeerFrame: lookup key is frame.Header.ID of the frame that is forwarded
	if f := mustFunc(p, r, "", "messageExchangeSet", "forwardPeerFrame"); f != nil {
		ok := false
		idFld := p.Field("", "FrameHeader", "ID")
		core.EachInstr(f, func(i ssa.Instruction) {
			c, isC := core.IsCall(i, "messageExchange.forwardPeerFrame")
			if !isC {
				return
			}
			args := core.CallArgs(c)
			mexV, frameV := args[0], args[1]
			// mexV = exchanges[frame.Header.ID]
			lk, isL := core.StripConv(mexV).(*ssa.Lookup)
			if !isL {
				if ex, isE := mexV.(*ssa.Extract); isE {
					lk, isL = ex.Tuple.(*ssa.Lookup)
				}
			}
			if isL && core.LoadedField(lk.X) == exF && core.LoadedField(lk.Index) == idFld && rootOfValue(lk.Index) == frameV {
				ok = true
			}
		})
		r.Check(ok, "C04-R4", fname(f), "mex = exchanges[frame.Header.ID]; mex.forwardPeerFrame(frame)", p.Pos(f.Pos()), "the exchange is looked up under the id of the very frame it receives", "frame is delivered to an exchange not selected by its own id")
	}
	if f := mustFunc(p, r, "", "messageExchange", "checkFrame"); f != nil {
		ok := false
		idFld := p.Field("", "FrameHeader", "ID")
		msgID := p.Field("", "messageExchange", "msgID")
		core.EachInstr(f, func(i ssa.Instruction) {
			if bo, isB := i.(*ssa.BinOp); isB && (bo.Op == token.NEQ || bo.Op == token.EQL) {
				a, b := core.LoadedField(bo.X), core.LoadedField(bo.Y)
				if (a == idFld && b == msgID) || (a == msgID && b == idFld) {
					ok = true
				}
			}
		})
		r.Check(ok, "C04-R4", fname(f), "received frame id compared with the exchange id", p.Pos(f.Pos()), "checkFrame compares Header.ID with msgID", "received frames are not checked against the exchange's id")
	}
	recvPriority(p, r, "C04-R4")
	// through a relay too: an item is failed under the id it is registered with
	c08PostRemapIDs(p, r, "C04-R4")
	// the connection's single reader goroutine is never parked on one call's
	// full buffer beyond that exchange's life: other calls proceed
	exchangeWaitsHaveLatch(p, r, "C04-R5")
	c04ExchangeCtx(p, r)
}

// c04ExchangeCtx: an exchange's context is read by the connection's reader
// goroutine for every later frame of the call (forwardPeerFrame) and by the
// caller; it has no lock. It is therefore only assigned before the exchange
// can be seen by another goroutine: in the constructor, or on the goroutine
// that registered it - never inside a function started with `go`.
func c04ExchangeCtx(p *core.Prog, r *core.Report) {
	fld := mustField(p, r, "", "messageExchange", "ctx")
	if fld == nil {
		return
	}
	goTargets := map[*ssa.Function]bool{}
	for _, f := range p.SrcFuncs {
		core.EachInstr(f, func(i ssa.Instruction) {
			g, ok := i.(*ssa.Go)
			if !ok {
				return
			}
			if mc, isMC := g.Call.Value.(*ssa.MakeClosure); isMC {
				goTargets[mc.Fn.(*ssa.Function)] = true
			}
			if t := g.Call.StaticCallee(); t != nil {
				goTargets[t] = true
			}
		})
	}
	n := 0
	for _, st := range p.StoresTo(fld) {
		n++
		inGo := false
		for g := st.Fn; g != nil; g = g.Parent() {
			if goTargets[g] {
				inGo = true
			}
		}
		r.Check(!inGo, "C04-R5", fname(st.Fn), fmt.Sprintf("messageExchange.ctx assigned before the exchange is shared (#%d)", n), p.Pos(st.Instr.Pos()),
			"not inside a goroutine body", "the exchange's context is assigned inside a goroutine started after the exchange was registered: the reader goroutine reads it concurrently for the call's next frames (data race)")
	}
	if n == 0 {
		r.Errorf("no assignment of messageExchange.ctx found")
	}
}

// recvPriority: shared by C04 (each caller receives its own complete response) and
// C20 (a system error already sent by the handler reaches the caller).
func recvPriority(p *core.Prog, r *core.Report, rule string) {
	// frames already delivered to the exchange reach the caller before the
	// connection error does: the error-notifier's error is returned only after
	// a non-blocking receive on recvCh found nothing (select picks a ready case
	// at random, so without this a complete queued response is lost to the error)
	if f := mustFunc(p, r, "", "messageExchange", "recvPeerFrame"); f != nil {
		recvCh := p.Field("", "messageExchange", "recvCh")
		errF := p.Field("", "errNotifier", "err")
		isDrainSel := func(i ssa.Instruction) bool {
			sel, isSel := i.(*ssa.Select)
			if !isSel || sel.Blocking {
				return false
			}
			for _, st := range sel.States {
				if st.Dir == types.RecvOnly && core.LoadedField(st.Chan) == recvCh {
					return true
				}
			}
			return false
		}
		isDrain := func(i ssa.Instruction) bool {
			if isDrainSel(i) {
				return true
			}
			// the non-blocking receive may live in a helper method
			if c, isC := i.(*ssa.Call); isC {
				if g := c.Call.StaticCallee(); g != nil && p.InAnalysed(g) && len(g.Blocks) > 0 {
					has := false
					core.EachInstr(g, func(j ssa.Instruction) {
						if isDrainSel(j) {
							has = true
						}
					})
					return has
				}
			}
			return false
		}
		var fromErr func(v ssa.Value, d int) bool
		fromErr = func(v ssa.Value, d int) bool {
			if d > 6 {
				return false
			}
			if core.LoadedField(v) == errF {
				return true
			}
			if ph, isPhi := v.(*ssa.Phi); isPhi {
				for _, e := range ph.Edges {
					if fromErr(e, d+1) {
						return true
					}
				}
			}
			return false
		}
		n := 0
		res := core.ReachAvoiding(f, nil, func(i ssa.Instruction) bool {
			ret, isRet := i.(*ssa.Return)
			if !isRet {
				return false
			}
			for _, v := range ret.Results {
				if fromErr(v, 0) {
					n++
					return true
				}
			}
			return false
		}, isDrain, nil)
		has := false
		core.EachInstr(f, func(i ssa.Instruction) {
			if ret, isRet := i.(*ssa.Return); isRet {
				for _, v := range ret.Results {
					if fromErr(v, 0) {
						has = true
					}
				}
			}
		})
		if !has || recvCh == nil || errF == nil {
			r.Errorf("recvPeerFrame: no return of the error notifier's error found (anchors moved)")
		} else {
			r.Check(!res.Found, rule, fname(f), "queued frames are received before the connection error is returned", p.Pos(f.Pos()),
				"every path returning errCh.err passes a non-blocking receive on recvCh", "the connection error can be returned while a delivered frame is still queued: "+p.TrailString(res))
		}
	}
}

func sameKey(a, b ssa.Value) bool {
	if a == b {
		return true
	}
	// two loads of the same field path
	return core.AccessPath(a) == core.AccessPath(b) && core.LoadedField(a) != nil
}

func rootOfValue(v ssa.Value) ssa.Value {
	for {
		switch x := v.(type) {
		case *ssa.UnOp:
			v = x.X
		case *ssa.FieldAddr:
			v = x.X
		case *ssa.Field:
			v = x.X
		default:
			return v
		}
	}
}

func c04Goroutines(p *core.Prog, r *core.Report) {
	rf := mustFunc(p, r, "", "Connection", "readFrames")
	wf := mustFunc(p, r, "", "Connection", "writeFrames")
	newConn := mustFunc(p, r, "", "Channel", "newConnection")
	if rf == nil || wf == nil || newConn == nil {
		return
	}
	for _, target := range []*ssa.Function{rf, wf} {
		n, inNew, inLoop := 0, 0, false
		for _, f := range p.SrcFuncs {
			core.EachInstr(f, func(i ssa.Instruction) {
				c, ok := i.(ssa.CallInstruction)
				if !ok {
					return
				}
				for _, t := range p.Callees(c) {
					if t == target {
						n++
						if _, isGo := i.(*ssa.Go); isGo && f == newConn {
							inNew++
							for _, l := range core.Loops(f) {
								if l.Blocks[i.Block()] {
									inLoop = true
								}
							}
						}
					}
				}
			})
		}
		r.Check(n == 1 && inNew == 1 && !inLoop, "C04-R5", fname(newConn), "exactly one `go "+target.Name()+"` per connection", p.Pos(newConn.Pos()),
			"started once, in newConnection, outside any loop", fmt.Sprintf("%s is started %d times (%d in newConnection, inLoop=%v)", target.Name(), n, inNew, inLoop))
	}
	// deliveries happen on the reader's synchronous call tree
	reach := syncReach(p, rf)
	for _, key := range []string{"messageExchangeSet.forwardPeerFrame", "Relayer.Relay"} {
		for _, cs := range p.CallsTo(key) {
			r.Check(reach[cs.Fn], "C04-R5", fname(cs.Fn), "call "+key+" on the reader goroutine's call tree", p.Pos(cs.Call.Pos()),
				"caller is synchronously reachable from readFrames (per-exchange order = arrival order)", "peer frames are delivered from outside the single reader goroutine: per-call frame order is no longer the arrival order")
		}
	}
}

// pooledStateReviewed: fields of pooled structs that are not reset when the
// object is taken from the pool, with the reason this is harmless.
var pooledStateReviewed = map[string]string{
	"Frame.Payload":           "assigned once by NewFrame; only CheckedFramePoolForTest.Release clears it, and that pool never hands the frame out again",
	"Frame.buffer":            "as Frame.Payload",
	"Frame.headerBuffer":      "as Frame.Payload",
	"Frame.Header":            "every use overwrites the header (ReadBody parses it from the wire, Frame.write stamps it) before anything reads it",
	"relayTimer.active":       "set by Start before the timer is used; Get only hands out released (inactive) timers (verified by relayTimer.verifyNotReleased / pool verification)",
	"relayTimer.stopped":      "assigned by Start",
	"relayTimer.released":     "cleared by relayTimerPool.Get",
	"relayTimer.items":        "assigned by Start",
	"relayTimer.id":           "assigned by Start",
	"relayTimer.isOriginator": "assigned by Start",
}

// c04Pools: an object taken from a sync.Pool must not carry state of the call
// that used it before: every field of the pooled struct that some function
// other than the taking one assigns (its per-use state) is assigned again by
// the function that takes it from the pool, on every path before it returns
// (or the whole struct is overwritten), unless reviewed.
func c04Pools(p *core.Prog, r *core.Report) {
	n := 0
	for _, f := range p.SrcFuncs {
		if !strings.HasPrefix(pkgOf(f), core.Root) || strings.Contains(pkgOf(f), "/examples") || strings.Contains(pkgOf(f), "/benchmark") || strings.Contains(pkgOf(f), "thrift-gen") {
			continue
		}
		f := f
		core.EachInstr(f, func(i ssa.Instruction) {
			ta, ok := i.(*ssa.TypeAssert)
			if !ok || ta.CommaOk {
				return
			}
			if callResult(ta.X, "sync.Pool.Get") == nil {
				return
			}
			ptr, ok := ta.AssertedType.(*types.Pointer)
			if !ok {
				return
			}
			named, ok := ptr.Elem().(*types.Named)
			if !ok || named.Obj().Pkg() == nil || !strings.HasPrefix(named.Obj().Pkg().Path(), core.Root) {
				return
			}
			st, ok := named.Underlying().(*types.Struct)
			if !ok {
				return
			}
			n++
			// whole-struct overwrite?
			whole := false
			for _, ref := range *ta.Referrers() {
				if s2, isSt := ref.(*ssa.Store); isSt && s2.Addr == ssa.Value(ta) {
					whole = true
				}
			}
			for k := 0; k < st.NumFields(); k++ {
				fld := st.Field(k)
				// is the field assigned anywhere else (per-use state)?
				stateful := false
				for _, g := range p.SrcFuncs {
					if isPoolNew(g) {
						continue
					}
					core.EachInstr(g, func(j ssa.Instruction) {
						if s2, isSt := j.(*ssa.Store); isSt && core.AddrField(s2.Addr) == fld {
							if fa := s2.Addr.(*ssa.FieldAddr); !isFreshAllocValue(fa.X) {
								stateful = true
							}
						}
					})
				}
				if !stateful {
					continue
				}
				key := named.Obj().Name() + "." + fld.Name()
				construct := "pooled " + key + " reset on Get"
				if whole {
					r.Ok("C04-R7", fname(f), construct, p.Pos(ta.Pos()), "the whole struct is overwritten after Get")
					continue
				}
				// a store to x.fld on every path from the Get to a return
				isReset := func(j ssa.Instruction) bool {
					s2, isSt := j.(*ssa.Store)
					if !isSt || core.AddrField(s2.Addr) != fld {
						return false
					}
					return s2.Addr.(*ssa.FieldAddr).X == ssa.Value(ta)
				}
				res := core.ReachAvoiding(f, ta, core.IsReturn, isReset, nil)
				if !res.Found {
					r.Ok("C04-R7", fname(f), construct, p.Pos(ta.Pos()), "assigned on every path between Get and return")
				} else if why, ok := pooledStateReviewed[key]; ok {
					r.Ok("C04-R7", fname(f), construct, p.Pos(ta.Pos()), "reviewed: "+why)
				} else {
					r.Fail("C04-R7", fname(f), construct, p.Pos(ta.Pos()), "the object keeps the value "+key+" had when the previous user released it: state of one call leaks into an unrelated later call")
				}
			}
		})
	}
	if n < 3 {
		r.Errorf("pool census found %d typed sync.Pool.Get sites (expected at least 3)", n)
	}
	noUseAfterPut(p, r, "C04-R7", "")
	releasedByOwnersOnly(p, r, "C04-R7")
}

// noUseAfterPut: an object handed back to a sync.Pool belongs to whoever takes
// it next. After a (non-deferred) Put no instruction of the function may use
// the object or a view of its storage (a slice, a field or element address
// derived from it), unless the path passes the point where the variable is
// bound to a fresh Get again. pkgSuffix restricts the census to one package.
func noUseAfterPut(p *core.Prog, r *core.Report, rule, pkgSuffix string) {
	n := 0
	for _, f := range p.SrcFuncs {
		if !strings.HasPrefix(pkgOf(f), core.Root) || strings.Contains(pkgOf(f), "/examples") || strings.Contains(pkgOf(f), "/benchmark") || strings.Contains(pkgOf(f), "thrift-gen") || strings.Contains(pkgOf(f), "gen-go") {
			continue
		}
		if pkgSuffix != "" && !strings.HasSuffix(pkgOf(f), pkgSuffix) {
			continue
		}
		f := f
		core.EachInstr(f, func(i ssa.Instruction) {
			c, ok := core.IsCall(i, "sync.Pool.Put")
			if !ok {
				return
			}
			n++
			if _, isDefer := i.(*ssa.Defer); isDefer {
				r.Ok(rule, fname(f), "no use after Put", p.Pos(i.Pos()), "the Put is deferred: it runs after everything else in the function")
				return
			}
			args := core.CallArgs(c)
			obj := args[len(args)-1]
			for {
				if mi, isMI := obj.(*ssa.MakeInterface); isMI {
					obj = mi.X
					continue
				}
				if ct, isCT := obj.(*ssa.ChangeType); isCT {
					obj = ct.X
					continue
				}
				break
			}
			// the object and every view of its storage
			views := map[ssa.Value]bool{obj: true}
			var grow func(v ssa.Value)
			grow = func(v ssa.Value) {
				refs := v.Referrers()
				if refs == nil {
					return
				}
				for _, ref := range *refs {
					switch x := ref.(type) {
					case *ssa.Slice:
						if x.X == v && !views[x] {
							views[x] = true
							grow(x)
						}
					case *ssa.FieldAddr:
						if !views[x] {
							views[x] = true
							grow(x)
						}
					case *ssa.IndexAddr:
						if x.X == v && !views[x] {
							views[x] = true
							grow(x)
						}
					case *ssa.ChangeType:
						if !views[x] {
							views[x] = true
							grow(x)
						}
					}
				}
			}
			grow(obj)
			def, _ := obj.(ssa.Instruction)
			isUse := func(j ssa.Instruction) bool {
				if j == i {
					return false
				}
				if _, isDbg := j.(*ssa.DebugRef); isDbg {
					return false
				}
				for _, op := range j.Operands(nil) {
					if *op != nil && views[*op] {
						return true
					}
				}
				return false
			}
			rebinds := func(j ssa.Instruction) bool { return def != nil && j == def }
			res := core.ReachAvoiding(f, i, isUse, rebinds, nil)
			if res.Found {
				r.Fail(rule, fname(f), "no use after Put", p.Pos(i.Pos()), "the object (or a slice / field of it) is still used at "+p.Pos(res.Exit.Pos())+" after it was returned to the pool: another goroutine may already own and overwrite it")
			} else {
				r.Ok(rule, fname(f), "no use after Put", p.Pos(i.Pos()), "nothing reachable after the Put touches the object or a view of it")
			}
		})
	}
	if n == 0 {
		r.Errorf("no sync.Pool.Put site found for %s (package filter %q)", rule, pkgSuffix)
	}
}

func isPoolNew(g *ssa.Function) bool {
	// closures assigned to sync.Pool.New build fresh objects
	return g.Parent() == nil && strings.HasPrefix(g.Name(), "init$") || (g.Parent() != nil && strings.HasPrefix(g.Parent().Name(), "init"))
}

func isFreshAllocValue(v ssa.Value) bool {
	switch x := v.(type) {
	case *ssa.Alloc:
		return x.Heap || true
	}
	return false
}

// noReentrantLock: a goroutine that holds an object's mutex does not call a
// method of the same object that acquires that mutex again. For a sync.Mutex
// that is an immediate self-deadlock; for the read side of a sync.RWMutex it
// deadlocks as soon as a writer asks for the lock between the two read
// locks (every later reader and writer then waits for ever). "The same
// object": the call's receiver is the value whose mutex was locked in this
// function, or - when the lock is held on entry, as in the *Locked helpers -
// the function's own receiver.
func noReentrantLock(p *core.Prog, r *core.Report, locks *core.Locks, rule string) {
	// direct acquisitions on the receiver, per method
	acqOnRecv := map[*ssa.Function]map[types.Object]bool{}
	for _, f := range p.SrcFuncs {
		if f.Signature.Recv() == nil || len(f.Params) == 0 {
			continue
		}
		core.EachInstr(f, func(i ssa.Instruction) {
			if obj, acq, base, ok := core.LockOpBase(i); ok && acq && base == ssa.Value(f.Params[0]) {
				if acqOnRecv[f] == nil {
					acqOnRecv[f] = map[types.Object]bool{}
				}
				acqOnRecv[f][obj] = true
			}
		})
	}
	n, bad := 0, 0
	for _, f := range p.SrcFuncs {
		if !strings.HasPrefix(pkgOf(f), core.Root) {
			continue
		}
		f := f
		// where this function itself locked: obj -> bases
		own := map[types.Object]map[ssa.Value]bool{}
		core.EachInstr(f, func(i ssa.Instruction) {
			if obj, acq, base, ok := core.LockOpBase(i); ok && acq {
				if own[obj] == nil {
					own[obj] = map[ssa.Value]bool{}
				}
				own[obj][base] = true
			}
		})
		core.EachInstr(f, func(i ssa.Instruction) {
			c, ok := i.(*ssa.Call)
			if !ok {
				return
			}
			t := c.Call.StaticCallee()
			if t == nil || acqOnRecv[t] == nil || len(c.Call.Args) == 0 {
				return
			}
			held := locks.At(i)
			recv := c.Call.Args[0]
			for obj := range acqOnRecv[t] {
				if held[obj] == core.NotHeld {
					continue
				}
				n++
				same := own[obj][recv]
				if !same && len(own[obj]) == 0 && len(f.Params) > 0 && f.Signature.Recv() != nil && recv == ssa.Value(f.Params[0]) {
					same = true // held on entry: the *Locked convention, the receiver's own mutex
				}
				if same {
					bad++
					r.Fail(rule, fname(f), "no re-entrant acquisition of "+core.LockName(obj)+" through "+t.Name(), p.Pos(i.Pos()),
						fname(t)+" locks "+core.LockName(obj)+" of the object whose "+core.LockName(obj)+" is already held here: a writer asking for the lock in between (or a plain mutex) deadlocks the object for ever")
				}
			}
		})
	}
	if bad == 0 {
		r.Ok(rule, "package", "no re-entrant lock acquisition", "-", fmt.Sprintf("%d calls of locking methods made with the same mutex type held; none on the same object", n))
	}
}
