// Command tchk decides the structural clauses of one property of
// uber/tchannel-go from /repo's current source (static analysis only).
package main

import (
	"encoding/json"
	"flag"
	"fmt"
	"os"
	"os/exec"
	"path/filepath"
	"runtime"
	"runtime/debug"
	"sort"

	"verif/sa/core"
	"verif/sa/rules"
)

func main() {
	prop := flag.String("property", "", "property id (C01..C20)")
	tier := flag.String("tier", "quick", "quick|thorough")
	noEv := flag.Bool("no-evidence", false, "do not write the evidence file (used by self-tests)")
	list := flag.Bool("list", false, "list properties with rules")
	goarch := flag.String("goarch", "", "GOARCH override")
	goos := flag.String("goos", "", "GOOS override")
	explain := flag.String("explain", "", "violation file written by an earlier run: print it and re-decide that obligation on the current tree")
	flag.Parse()
	if *list {
		var ids []string
		for id := range rules.Registry {
			ids = append(ids, id)
		}
		sort.Strings(ids)
		for _, id := range ids {
			fmt.Println(id)
		}
		return
	}
	if t := os.Getenv("VERIF_TIER"); t != "" && !isFlagSet("tier") {
		*tier = t
	}
	run, ok := rules.Registry[*prop]
	if !ok {
		fmt.Printf("ERROR unknown property %q\n", *prop)
		os.Exit(2)
	}
	if *explain != "" {
		os.Exit(explainOne(*prop, *explain, *goarch, *goos, run))
	}
	os.Exit(runOne(*prop, *tier, *noEv, *goarch, *goos, run))
}

// explainOne is the replay of a static finding: it prints the recorded
// obligation (rule, function, construct, position, reason) and re-runs the
// property's rules on /repo's current source; exit 1 if the same
// (rule, function, construct) is still violated, 0 if it is now discharged.
func explainOne(prop, path, goarch, goos string, run rules.RuleFunc) (code int) {
	b, err := os.ReadFile(path)
	if err != nil {
		fmt.Printf("ERROR read %s: %v\n", path, err)
		return 2
	}
	var rec struct {
		Property   string          `json:"property"`
		Tier       string          `json:"tier"`
		Obligation core.Obligation `json:"obligation"`
	}
	if err := json.Unmarshal(b, &rec); err != nil {
		fmt.Printf("ERROR parse %s: %v\n", path, err)
		return 2
	}
	o := rec.Obligation
	fmt.Printf("recorded violation of %s (tier %s)\n  rule:      %s\n  function:  %s\n  construct: %s\n  at:        %s\n  reason:    %s\n",
		rec.Property, rec.Tier, o.Rule, o.Function, o.Construct, o.Pos, o.How)
	if rec.Property != prop {
		fmt.Printf("ERROR the file belongs to %s, not %s\n", rec.Property, prop)
		return 2
	}
	defer func() {
		if e := recover(); e != nil {
			fmt.Printf("ERROR analyser panic (cannot decide): %v\n%s\n", e, debug.Stack())
			code = 2
		}
	}()
	rep := core.NewReport(prop, rec.Tier)
	p, err := core.Load(core.LoadConfig{GOARCH: goarch, GOOS: goos})
	if err != nil {
		fmt.Printf("ERROR load: %v\n", err)
		return 2
	}
	run(p, rep)
	if rec.Tier == "thorough" {
		rules.Thorough(prop, p, rep)
	}
	found := false
	for _, c := range rep.Obls {
		if c.Rule == o.Rule && c.Function == o.Function && c.Construct == o.Construct {
			found = true
			fmt.Printf("on the current tree: %s at %s: %s\n", c.Status, c.Pos, c.How)
			if c.Status == core.Violated && !c.Known {
				fmt.Printf("VIOLATION property=%s replay=%s\n", prop, path)
				code = 1
			}
		}
	}
	if !found {
		fmt.Println("on the current tree: the construct no longer exists (obligation not generated)")
	}
	return code
}

func isFlagSet(name string) bool {
	set := false
	flag.Visit(func(f *flag.Flag) {
		if f.Name == name {
			set = true
		}
	})
	return set
}

func runOne(prop, tier string, noEv bool, goarch, goos string, run rules.RuleFunc) (code int) {
	rep := core.NewReport(prop, tier)
	defer func() {
		if e := recover(); e != nil {
			fmt.Printf("ERROR analyser panic (cannot decide): %v\n%s\n", e, debug.Stack())
			code = 2
		}
	}()
	p, err := core.Load(core.LoadConfig{GOARCH: goarch, GOOS: goos})
	if err != nil {
		fmt.Printf("ERROR load: %v\n", err)
		return 2
	}
	run(p, rep)
	if tier == "thorough" {
		rules.Thorough(prop, p, rep)
		// the same rules on the other build configurations (build-tagged
		// files, 32-bit int ranges); explicit -goarch/-goos disables this.
		if goarch == "" && goos == "" {
			for _, c := range [][2]string{{"linux", "386"}, {"darwin", "amd64"}, {"windows", "amd64"}} {
				p2, err := core.Load(core.LoadConfig{GOOS: c[0], GOARCH: c[1]})
				if err != nil {
					rep.Errorf("load %s/%s: %v", c[0], c[1], err)
					continue
				}
				rep2 := core.NewReport(prop, tier)
				run(p2, rep2)
				rules.Thorough(prop, p2, rep2)
				rep.MergeConfig(c[0]+"/"+c[1], rep2)
				p2 = nil
				runtime.GC()
			}
		}
		if !noEv && os.Getenv("TCHK_NO_SELFTEST") == "" {
			selfTest(prop, rep)
		}
	}
	return rep.Finish(p, noEv)
}

// selfTest runs this property's seeded-fault table (sa/mutants) against a
// scratch copy of the current tree and records, in the evidence only, how
// many of the faults the rules detect. It never changes the verdict: a fault
// that no longer applies to an edited tree is skipped.
func selfTest(prop string, rep *core.Report) {
	if !rep.Clean() {
		rep.Extra["self_test"] = "skipped: the tree has undischarged obligations"
		return
	}
	tool := filepath.Join(core.VerifDir(), "tools", "mutants.py")
	cmd := exec.Command("python3", tool, "-p", prop, "-j", "8", "--json")
	cmd.Env = append(os.Environ(), "TCHK_NO_SELFTEST=1")
	out, err := cmd.Output()
	var res map[string]interface{}
	if e := json.Unmarshal(out, &res); e != nil {
		rep.Extra["self_test"] = fmt.Sprintf("not available: %v %v", err, e)
		return
	}
	rep.Extra["self_test"] = res
}
