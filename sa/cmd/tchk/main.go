// Command tchk decides the structural clauses of one property of
// uber/tchannel-go from /repo's current source (static analysis only).
package main

import (
	"flag"
	"fmt"
	"os"
	"runtime/debug"
	"sort"

	"verif/sa/core"
	"verif/sa/rules"
)

func main() {
	prop := flag.String("property", "", "property id (C01..C20)")
	tier := flag.String("tier", "quick", "quick|thorough")
	noEv := flag.Bool("no-evidence", false, "do not write the evidence file (used by self-tests)")
	list := flag.Bool("list", false, "list properties with rules")
	goarch := flag.String("goarch", "", "GOARCH override")
	goos := flag.String("goos", "", "GOOS override")
	flag.Parse()
	if *list {
		var ids []string
		for id := range rules.Registry {
			ids = append(ids, id)
		}
		sort.Strings(ids)
		for _, id := range ids {
			fmt.Println(id)
		}
		return
	}
	if t := os.Getenv("VERIF_TIER"); t != "" && !isFlagSet("tier") {
		*tier = t
	}
	run, ok := rules.Registry[*prop]
	if !ok {
		fmt.Printf("ERROR unknown property %q\n", *prop)
		os.Exit(2)
	}
	os.Exit(runOne(*prop, *tier, *noEv, *goarch, *goos, run))
}

func isFlagSet(name string) bool {
	set := false
	flag.Visit(func(f *flag.Flag) {
		if f.Name == name {
			set = true
		}
	})
	return set
}

func runOne(prop, tier string, noEv bool, goarch, goos string, run rules.RuleFunc) (code int) {
	rep := core.NewReport(prop, tier)
	defer func() {
		if e := recover(); e != nil {
			fmt.Printf("ERROR analyser panic (cannot decide): %v\n%s\n", e, debug.Stack())
			code = 2
		}
	}()
	p, err := core.Load(core.LoadConfig{GOARCH: goarch, GOOS: goos})
	if err != nil {
		fmt.Printf("ERROR load: %v\n", err)
		return 2
	}
	run(p, rep)
	if tier == "thorough" {
		rules.Thorough(prop, p, rep)
	}
	return rep.Finish(p, noEv)
}
