package main

import (
	"fmt"

	"golang.org/x/tools/go/callgraph/vta"
	"golang.org/x/tools/go/packages"
	"golang.org/x/tools/go/ssa/ssautil"
	"golang.org/x/tools/go/cfg"
)

var _ = vta.CallGraph
var _ = packages.Load
var _ = ssautil.AllFunctions
var _ = cfg.New

func main() { fmt.Println("ok") }
