package spec

// Wire layouts written from the TChannel protocol specification
// (https://tchannel.readthedocs.io/en/latest/protocol/), independently of the
// Go code under analysis. Notation: uN = N-bit big-endian unsigned; bN = N raw
// bytes; s8 / s16 = byte string prefixed by an 8- / 16-bit length (the
// protocol's "~1" / "~2"); rep8[...] / rep16[...] = an 8- / 16-bit count
// followed by that many repetitions; var = bytes whose length is fixed by a
// preceding field; opt[...] = present depending on earlier fields.
// A ":name" suffix names the field; several accepted spellings are separated by "|".

// Tracing is "spanid:8 parentid:8 traceid:8 traceflags:1".
const Tracing = "u64:spanid u64:parentid u64:traceid u8:flags|traceflags"

// FrameHeader is "size:2 type:1 reserved:1 id:4 reserved:8".
const FrameHeader = "u16:size u8:type|messagetype u8:reserved|reserved1 u32:id b8:reserved"

// Message bodies (the part between the fragment flags byte and the checksum type byte, or
// the whole payload for messages without arguments).
var Messages = map[string]string{
	// init req / init res: version:2 nh:2 (key~2 value~2){nh}
	"initMessage": "u16:version rep16[s16 s16]",
	// call req: ttl:4 tracing:25 service~1 nh:1 (hk~1 hv~1){nh}
	"callReq": "u32:ttl|timetolive " + Tracing + " s8:service rep8[s8 s8]",
	// call res: code:1 tracing:25 nh:1 (hk~1 hv~1){nh}
	"callRes": "u8:code|responsecode " + Tracing + " rep8[s8 s8]",
	// continuations carry no message-specific fields
	"callReqContinue": "",
	"callResContinue": "",
	// error: code:1 tracing:25 message~2
	"errorMessage": "u8:code|errcode " + Tracing + " s16:message",
	// cancel: ttl:4 tracing:25 why~2
	"cancelMessage": "u32:ttl " + Tracing + " s16:why|message",
	// ping req / res: empty
	"pingReq": "",
	"pingRes": "",
}

// FragmentEnvelope: flags:1 <message> csumtype:1 (csum:4){0,1} then the chunks.
const FragmentEnvelope = "u8 <message> u8 var"

// Lazy (relay) parsers are compared on flattened widths, starting at the flags byte.
// call req frame: flags:1 ttl:4 tracing:25 service~1 nh:1 (hk~1 hv~1){nh} csumtype:1 (csum:4){0,1} arg1~2 arg2~2 arg3~2
const LazyCallReq = "b30 s8 rep8[s8 s8] b1 var s16 s16 opt[b2]"

// call res frame: flags:1 code:1 tracing:25 nh:1 (hk~1 hv~1){nh} csumtype:1 (csum:4){0,1} arg1~2 arg2~2 ...
const LazyCallRes = "b27 rep8[s8 s8] b1 var s16 s16"

// Offsets into a call req / call res / error frame payload implied by the layouts above.
var Offsets = map[string]int64{
	"_flagsIndex":       0,
	"_ttlIndex":         1,     // after flags:1
	"_ttlLen":           4,     // ttl:4
	"_spanIndex":        1 + 4, // after flags, ttl
	"_spanLength":       25,    // tracing:25
	"_serviceLenIndex":  1 + 4 + 25,
	"_serviceNameIndex": 1 + 4 + 25 + 1,
	"_resCodeIndex":     1, // call res: after flags:1
	"_errCodeIndex":     0, // error: code is the first byte
}

// Argument-scheme codecs.
var Codecs = map[string]string{
	// thrift application headers: nh:2 (k~2 v~2){nh}
	"thriftHeaders": "rep16[s16 s16]",
	// http request arg2: method~1 url~varint nh:2 (k~2 v~2){nh}
	"httpRequest": "s8 sv rep16[s16 s16]",
	// http response arg2: status:2 message~varint nh:2 (k~2 v~2){nh}
	"httpResponse": "u16 sv rep16[s16 s16]",
}

// WireCodes: the code points of the TChannel protocol specification
// (docs/protocol.md of the protocol repository), keyed by the name of the Go
// constant that carries them. The constants are written to and compared with
// wire bytes verbatim, so a build in which two of them are swapped is
// self-consistent (it passes every test that uses the names at both ends) and
// cannot talk to any other implementation or version.
var WireCodes = map[string]int64{
	// frame types
	"messageTypeInitReq":         0x01,
	"messageTypeInitRes":         0x02,
	"messageTypeCallReq":         0x03,
	"messageTypeCallRes":         0x04,
	"messageTypeCallReqContinue": 0x13,
	"messageTypeCallResContinue": 0x14,
	"messageTypeCancel":          0xc0,
	"messageTypePingReq":         0xd0,
	"messageTypePingRes":         0xd1,
	"messageTypeError":           0xff,
	// checksum types
	"ChecksumTypeNone":     0x00,
	"ChecksumTypeCrc32":    0x01,
	"ChecksumTypeFarmhash": 0x02,
	"ChecksumTypeCrc32C":   0x03,
	// error codes
	"ErrCodeInvalid":    0x00,
	"ErrCodeTimeout":    0x01,
	"ErrCodeCancelled":  0x02,
	"ErrCodeBusy":       0x03,
	"ErrCodeDeclined":   0x04,
	"ErrCodeUnexpected": 0x05,
	"ErrCodeBadRequest": 0x06,
	"ErrCodeNetwork":    0x07,
	"ErrCodeProtocol":   0xff,
	// call res code, fragment flag, protocol version
	"responseOK":               0x00,
	"responseApplicationError": 0x01,
	"hasMoreFragmentsFlag":     0x01,
	"CurrentProtocolVersion":   0x02,
}

// WireCodeGroups: which names belong to which property's vocabulary.
var WireCodeGroups = map[string]string{
	"messageType": "frame", "ChecksumType": "checksum", "ErrCode": "error",
	"response": "frame", "hasMoreFragmentsFlag": "frame", "CurrentProtocolVersion": "frame",
}
