// Package spec holds tables written from the TChannel protocol text and the
// property statements, independently of the Go code under analysis.
package spec

// CanRetry is the documented retry policy (property C17): busy and declined
// errors are retryable under every policy but never; bad requests under none;
// network errors only under connection-error, default and idempotent;
// unexpected errors only under unexpected and idempotent; everything else
// only under idempotent.
func CanRetry(policy, code string) bool {
	if policy == "RetryNever" {
		return false
	}
	switch code {
	case "ErrCodeBusy", "ErrCodeDeclined":
		return true
	case "ErrCodeBadRequest":
		return false
	case "ErrCodeNetwork":
		return policy == "RetryConnectionError" || policy == "RetryDefault" || policy == "RetryIdempotent"
	case "ErrCodeUnexpected":
		return policy == "RetryUnexpected" || policy == "RetryIdempotent"
	default:
		return policy == "RetryIdempotent"
	}
}
