package core

import (
	"fmt"
	"go/token"
	"go/types"
	"os"
	"sort"
	"strings"

	"golang.org/x/tools/go/ssa"
)

// Ctx binds the parameters of some functions to one of their call sites
// (call-site sensitivity for closures such as moveState(from, to)).
type Ctx map[*ssa.Function]ssa.CallInstruction

func (c Ctx) key() string {
	var parts []string
	for f, s := range c {
		parts = append(parts, f.String()+"@"+s.String())
	}
	sort.Strings(parts)
	return strings.Join(parts, ";")
}

// EnumInterp evaluates enum-typed values across closures and call sites.
type EnumInterp struct {
	P     *Prog
	D     *Domain
	flows map[string]*EnumFlow
	depth int
	// writers of domain-typed fields, by field name -> closure of callers
	modClosure map[string]map[*ssa.Function]bool
	sites      map[*ssa.Function][]ssa.CallInstruction
	escaped    map[*ssa.Function]bool
	// ModsFilter may decide that a call cannot modify a field (e.g. because the
	// field's guarding mutex is held across the call).
	ModsFilter func(call ssa.CallInstruction, fieldName string) (decided, mods bool)
	// AutoFields: a load of a domain-typed field yields only values some store puts there
	// (plus the zero value), and a call of a domain-typed function yields what it can return.
	AutoFields bool
	// ClosedWorld: exported functions are assumed to be called only from the analysed packages.
	ClosedWorld bool
	fieldSets   map[*types.Var]Set
	fieldBusy   map[*types.Var]bool
	retSets     map[*ssa.Function]Set
	inRet       map[*ssa.Function]bool
}

// NewEnumInterp builds an interpreter for one domain.
func NewEnumInterp(p *Prog, d *Domain) *EnumInterp {
	ip := &EnumInterp{P: p, D: d, flows: map[string]*EnumFlow{}, modClosure: map[string]map[*ssa.Function]bool{},
		sites: map[*ssa.Function][]ssa.CallInstruction{}, escaped: map[*ssa.Function]bool{}}
	for _, f := range p.SrcFuncs {
		EachInstr(f, func(i ssa.Instruction) {
			if c, ok := i.(ssa.CallInstruction); ok {
				if cal := c.Common().StaticCallee(); cal != nil {
					ip.sites[cal] = append(ip.sites[cal], c)
				}
			}
			var ops []*ssa.Value
			if _, isMC := i.(*ssa.MakeClosure); isMC {
				return
			}
			for _, op := range i.Operands(ops) {
				if op == nil || *op == nil {
					continue
				}
				var fn *ssa.Function
				switch v := (*op).(type) {
				case *ssa.Function:
					fn = v
				case *ssa.MakeClosure:
					fn = v.Fn.(*ssa.Function)
				}
				if fn == nil {
					continue
				}
				if c, ok := i.(ssa.CallInstruction); ok && c.Common().Value == *op {
					continue
				}
				if st, ok := i.(*ssa.Store); ok {
					// closure stored into a local variable that is only called: not escaped
					if al, ok := st.Addr.(*ssa.Alloc); ok && onlyCalled(al) {
						continue
					}
				}
				ip.escaped[fn] = true
			}
		})
	}
	return ip
}

// onlyCalled: every use of the alloc is the store itself or a load that is directly called.
func onlyCalled(al *ssa.Alloc) bool {
	for _, r := range *al.Referrers() {
		switch u := r.(type) {
		case *ssa.Store:
			if u.Addr != al {
				return false
			}
		case *ssa.UnOp:
			for _, r2 := range *u.Referrers() {
				c, ok := r2.(ssa.CallInstruction)
				if !ok || c.Common().Value != u {
					return false
				}
			}
		case *ssa.DebugRef:
		default:
			return false
		}
	}
	return true
}

// Sites returns the static call sites of f (nil if f escapes as a value or is exported).
func (ip *EnumInterp) Sites(f *ssa.Function) ([]ssa.CallInstruction, bool) {
	if ip.escaped[f] {
		return nil, false
	}
	if f.Parent() == nil {
		if o := f.Object(); o != nil && o.Exported() && !ip.ClosedWorld {
			return nil, false
		}
		// methods may be called through interfaces
		if f.Signature.Recv() != nil {
			if ip.mayBeInvoked(f) {
				return nil, false
			}
		}
	}
	return ip.sites[f], true
}

func (ip *EnumInterp) mayBeInvoked(f *ssa.Function) bool {
	n := ip.P.CHA().Nodes[f]
	if n == nil {
		return false
	}
	for _, e := range n.In {
		if e.Site != nil && e.Site.Common().IsInvoke() {
			return true
		}
	}
	return false
}

func (ip *EnumInterp) mods(call ssa.CallInstruction, fieldName string) bool {
	if ip.ModsFilter != nil {
		if decided, m := ip.ModsFilter(call, fieldName); decided {
			return m
		}
	}
	cl, ok := ip.modClosure[fieldName]
	if !ok {
		writers := map[*ssa.Function]bool{}
		for _, f := range ip.P.SrcFuncs {
			EachInstr(f, func(i ssa.Instruction) {
				if st, ok := i.(*ssa.Store); ok {
					if fld := AddrField(st.Addr); fld != nil && fld.Name() == fieldName && types.Identical(fld.Type(), ip.D.T) {
						writers[f] = true
					}
				}
			})
		}
		cl = ip.P.CallersClosureWithin(writers, ip.P.InAnalysed)
		// a function that creates a writer closure and passes it on is covered
		// by the call graph edge from whoever invokes it.
		ip.modClosure[fieldName] = cl
	}
	if ip.P.MayCall(call, cl) {
		return true
	}
	// closures passed as arguments may be invoked by the callee
	for _, a := range call.Common().Args {
		if mc, ok := a.(*ssa.MakeClosure); ok && cl[mc.Fn.(*ssa.Function)] {
			return true
		}
	}
	return false
}

// Flow returns the (memoised) fixpoint of f under ctx.
func (ip *EnumInterp) Flow(f *ssa.Function, ctx Ctx) *EnumFlow {
	k := f.String() + "|" + ctx.key()
	if fl, ok := ip.flows[k]; ok {
		return fl
	}
	fl := &EnumFlow{P: ip.P, F: f, D: ip.D, Mods: ip.mods}
	ip.flows[k] = fl // break recursion: an in-progress flow answers ⊤
	fl.Res = func(v ssa.Value) (Set, bool) { return ip.resolve(f, ctx, v) }
	fl.CellRes = func(path string, root ssa.Value) (Set, bool) { return ip.cellResolve(f, ctx, path, root) }
	ip.depth++
	if ip.depth < 24 {
		fl.Run()
	} else {
		fl.Unknown = true
		fl.Done = true
		delete(ip.flows, k) // do not memoise a cut-off analysis
	}
	ip.depth--
	return fl
}

func (ip *EnumInterp) resolve(f *ssa.Function, ctx Ctx, v ssa.Value) (Set, bool) {
	switch x := v.(type) {
	case *ssa.Parameter:
		if !types.Identical(x.Type(), ip.D.T) {
			return 0, false
		}
		idx := -1
		for k, p := range f.Params {
			if p == x {
				idx = k
			}
		}
		if idx < 0 {
			return 0, false
		}
		if site, ok := ctx[f]; ok {
			return ip.evalArg(site, idx, ctx)
		}
		sites, ok := ip.Sites(f)
		if !ok || len(sites) == 0 {
			return 0, false
		}
		var u Set
		for _, s := range sites {
			if _, isGo := s.(*ssa.Go); isGo {
				return 0, false
			}
			su, ok := ip.evalArg(s, idx, ctx)
			if !ok {
				return 0, false
			}
			u |= su
		}
		return u, true
	case *ssa.UnOp:
		if x.Op != token.MUL {
			return 0, false
		}
		// load of a captured variable
		if fv, ok := x.X.(*ssa.FreeVar); ok {
			return ip.resolveFreeVar(f, ctx, fv)
		}
		if al, ok := x.X.(*ssa.Alloc); ok {
			// local spilled variable (captured by a closure): union of stores
			return ip.allocStores(al, ctx)
		}
		if fld := AddrField(x.X); fld != nil && ip.AutoFields && types.Identical(fld.Type(), ip.D.T) {
			return ip.fieldSet(fld), true
		}
	case *ssa.Call:
		// the result of a helper of the analysed packages: union of what its
		// returns can carry (sound without AutoFields: fields read inside the
		// helper stay at the range of their type)
		if types.Identical(x.Type(), ip.D.T) {
			return ip.retSet(x)
		}
	}
	return 0, false
}

// fieldSet: union of everything stored into the field anywhere (plus the zero
// value when no constructor initialises it). Cyclic dependencies (a value read
// from the field is stored back) are solved as a least fixpoint.
func (ip *EnumInterp) fieldSet(fld *types.Var) Set {
	if ip.fieldSets == nil {
		ip.fieldSets = map[*types.Var]Set{}
		ip.fieldBusy = map[*types.Var]bool{}
	}
	if ip.fieldBusy[fld] {
		return ip.fieldSets[fld] // optimistic partial result
	}
	if s, ok := ip.fieldSets[fld]; ok {
		return s
	}
	ip.fieldBusy[fld] = true
	stores := ip.P.StoresTo(fld)
	hasInit := false
	for _, st := range stores {
		if st.Kind == "init" {
			hasInit = true
		}
	}
	var cur Set
	if !hasInit {
		cur = ip.D.Of(0)
	}
	ip.fieldSets[fld] = cur
	for iter := 0; iter < 8; iter++ {
		u := cur
		for _, st := range stores {
			s, ok := st.Instr.(*ssa.Store)
			if !ok {
				u = ip.D.Top()
				break
			}
			fl := ip.Flow(st.Fn, Ctx{})
			if v, reach := fl.ValueAt(s.Val, s); reach {
				u |= v
			}
		}
		if u == cur {
			break
		}
		cur = u
		ip.fieldSets[fld] = cur
		// facts derived from the previous approximation are stale
		ip.flows = map[string]*EnumFlow{}
		ip.retSets = map[*ssa.Function]Set{}
	}
	delete(ip.fieldBusy, fld)
	if os.Getenv("TCHK_DEBUG") != "" {
		fmt.Fprintf(os.Stderr, "fieldSet %s = %s\n", fld.Name(), ip.D.String(cur))
		for _, st := range stores {
			if s, ok := st.Instr.(*ssa.Store); ok {
				fl := ip.Flow(st.Fn, Ctx{})
				v, reach := fl.ValueAt(s.Val, s)
				fmt.Fprintf(os.Stderr, "   store in %s: %s reach=%v\n", st.Fn, ip.D.String(v), reach)
			}
		}
	}
	return cur
}

func (ip *EnumInterp) retSet(c *ssa.Call) (Set, bool) {
	if ip.retSets == nil {
		ip.retSets = map[*ssa.Function]Set{}
	}
	if ip.inRet == nil {
		ip.inRet = map[*ssa.Function]bool{}
	}
	callees := ip.P.Callees(c)
	if len(callees) == 0 {
		return 0, false
	}
	var u Set
	for _, g := range callees {
		if g.Blocks == nil || !ip.P.InAnalysed(g) {
			return 0, false
		}
		s, ok := ip.retSets[g]
		if !ok {
			if ip.inRet[g] {
				return 0, false
			}
			ip.inRet[g] = true
			fl := ip.Flow(g, Ctx{})
			EachInstr(g, func(i ssa.Instruction) {
				if ret, isRet := i.(*ssa.Return); isRet && len(ret.Results) == 1 {
					if v, reach := fl.ValueAt(ReturnValues(ret)[0], ret); reach {
						s |= v
					}
				}
			})
			delete(ip.inRet, g)
			if len(ip.fieldBusy) == 0 {
				ip.retSets[g] = s
			}
		}
		u |= s
	}
	return u, true
}

func (ip *EnumInterp) evalArg(site ssa.CallInstruction, idx int, ctx Ctx) (Set, bool) {
	args := site.Common().Args
	if site.Common().IsInvoke() || idx >= len(args) {
		return 0, false
	}
	caller := site.Parent()
	fl := ip.Flow(caller, ctx)
	if !fl.Done {
		return 0, false
	}
	return fl.ValueAt(args[idx], site)
}

func (ip *EnumInterp) resolveFreeVar(f *ssa.Function, ctx Ctx, fv *ssa.FreeVar) (Set, bool) {
	parent := f.Parent()
	if parent == nil {
		return 0, false
	}
	idx := -1
	for k, v := range f.FreeVars {
		if v == fv {
			idx = k
		}
	}
	var u Set
	found := false
	for _, pf := range WithAnon(parent) {
		EachInstr(pf, func(i ssa.Instruction) {
			mc, ok := i.(*ssa.MakeClosure)
			if !ok || mc.Fn != f {
				return
			}
			b := mc.Bindings[idx]
			switch bv := b.(type) {
			case *ssa.Alloc:
				s, ok := ip.allocStores(bv, ctx)
				if ok {
					u |= s
					found = true
				} else {
					u = ip.D.Top()
					found = true
				}
			case *ssa.FreeVar:
				s, ok := ip.resolveFreeVar(pf, ctx, bv)
				if !ok {
					s = ip.D.Top()
				}
				u |= s
				found = true
			default:
				u = ip.D.Top()
				found = true
			}
		})
	}
	return u, found
}

// allocStores: union of every value stored into a local cell (by its owner
// function and every closure that captured it).
func (ip *EnumInterp) allocStores(al *ssa.Alloc, ctx Ctx) (Set, bool) {
	if !types.Identical(Deref(al.Type()), ip.D.T) {
		return 0, false
	}
	var u Set
	ok := true
	var visit func(addr ssa.Value, owner *ssa.Function)
	visit = func(addr ssa.Value, owner *ssa.Function) {
		refs := addr.Referrers()
		if refs == nil {
			ok = false
			return
		}
		for _, r := range *refs {
			switch x := r.(type) {
			case *ssa.Store:
				if x.Addr == addr {
					fl := ip.Flow(x.Parent(), ctx)
					s, reach := fl.ValueAt(x.Val, x)
					if reach {
						u |= s
					}
				} else {
					ok = false // address stored somewhere
				}
			case *ssa.UnOp, *ssa.DebugRef:
			case *ssa.MakeClosure:
				fn := x.Fn.(*ssa.Function)
				for k, b := range x.Bindings {
					if b == addr {
						visit(fn.FreeVars[k], fn)
					}
				}
			default:
				ok = false
			}
		}
	}
	visit(al, al.Parent())
	// zero value if the cell may be read before any store: include it,
	// unless the cell is a spilled parameter (stored at function entry).
	spilled := false
	if owner := al.Parent(); owner != nil && len(owner.Blocks) > 0 {
		for _, i := range owner.Blocks[0].Instrs {
			if st, isSt := i.(*ssa.Store); isSt && st.Addr == al {
				if _, isP := st.Val.(*ssa.Parameter); isP {
					spilled = true
				}
			}
		}
	}
	if !spilled {
		u |= ip.D.Of(0)
	}
	return u, ok
}

// cellResolve: contents of a memory cell rooted at a parameter, as established
// by the callers (union over call sites, or the context's site).
func (ip *EnumInterp) cellResolve(f *ssa.Function, ctx Ctx, path string, root ssa.Value) (Set, bool) {
	prm, ok := root.(*ssa.Parameter)
	if !ok || prm.Parent() != f {
		return 0, false
	}
	prefix := "p:" + prm.Name()
	if !strings.HasPrefix(path, prefix) {
		return 0, false
	}
	suffix := strings.TrimPrefix(path, prefix)
	if !strings.HasPrefix(suffix, ".&") {
		return 0, false
	}
	idx := -1
	for k, q := range f.Params {
		if q == prm {
			idx = k
		}
	}
	var sites []ssa.CallInstruction
	if s, ok := ctx[f]; ok {
		sites = []ssa.CallInstruction{s}
	} else {
		ss, ok := ip.Sites(f)
		if !ok || len(ss) == 0 {
			return 0, false
		}
		sites = ss
	}
	var u Set
	for _, s := range sites {
		args := s.Common().Args
		if s.Common().IsInvoke() || idx >= len(args) {
			return 0, false
		}
		if _, isGo := s.(*ssa.Go); isGo {
			return 0, false
		}
		arg := args[idx]
		fl := ip.Flow(s.Parent(), ctx)
		if !fl.Done {
			return 0, false // caller is being analysed (recursion): no information
		}
		cs, reach := fl.PathAt(AccessPath(arg)+suffix, rootOf(arg), s)
		if os.Getenv("TCHK_DEBUG") != "" {
			fmt.Fprintf(os.Stderr, "cellResolve %s %s <- site in %s: %s reach=%v\n", f.Name(), path, s.Parent().Name(), ip.D.String(cs), reach)
		}
		if !reach {
			continue
		}
		u |= cs
	}
	return u, true
}

// Contexts enumerates call-site contexts for f: one per static call site of
// the nearest enclosing function (f itself or an ancestor closure) that has
// parameters of the domain type. A function with none gets the empty context.
func (ip *EnumInterp) Contexts(f *ssa.Function) []Ctx {
	for g := f; g != nil; g = g.Parent() {
		has := false
		for _, p := range g.Params {
			if types.Identical(p.Type(), ip.D.T) {
				has = true
			}
		}
		if !has {
			continue
		}
		sites, ok := ip.Sites(g)
		if !ok || len(sites) == 0 {
			return []Ctx{{}}
		}
		var out []Ctx
		for _, s := range sites {
			out = append(out, Ctx{g: s})
		}
		return out
	}
	return []Ctx{{}}
}
