package core

import (
	"fmt"
	"go/constant"
	"go/token"
	"go/types"
	"math"
	"os"
	"sort"
	"strings"

	"golang.org/x/tools/go/ssa"
)

// ---------------------------------------------------------------------------
// E1: finite-domain abstract interpretation over the repo's small enums.

// Set is a bitset over the buckets of a Domain.
type Set uint64

// Domain partitions the integers around the declared constants of a type:
// bucket 0 = below the smallest, 1+2i = the i-th declared value, 2+2i = the
// gap above it (the last gap is "above the largest").
type Domain struct {
	T      types.Type
	Vals   []int64
	Names  map[int64]string
	Lo, Hi int64 // range of the underlying integer type
}

// NewDomain collects the package-level constants of named type t.
func (p *Prog) NewDomain(pkg, name string) *Domain {
	n := p.Named(pkg, name)
	if n == nil {
		return nil
	}
	d := &Domain{T: n, Names: map[int64]string{}}
	sc := n.Obj().Pkg().Scope()
	for _, nm := range sc.Names() {
		c, ok := sc.Lookup(nm).(*types.Const)
		if !ok || !types.Identical(c.Type(), n) {
			continue
		}
		v, ok := constant.Int64Val(c.Val())
		if !ok {
			continue
		}
		if _, dup := d.Names[v]; !dup {
			d.Vals = append(d.Vals, v)
			d.Names[v] = nm
		} else if len(nm) < len(d.Names[v]) {
			d.Names[v] = nm
		}
	}
	sort.Slice(d.Vals, func(i, j int) bool { return d.Vals[i] < d.Vals[j] })
	d.Lo, d.Hi = math.MinInt64, math.MaxInt64
	if b, ok := n.Underlying().(*types.Basic); ok {
		switch b.Kind() {
		case types.Uint8:
			d.Lo, d.Hi = 0, 255
		case types.Uint16:
			d.Lo, d.Hi = 0, 65535
		case types.Uint32:
			d.Lo, d.Hi = 0, math.MaxUint32
		case types.Uint, types.Uint64:
			d.Lo = 0
		case types.Int8:
			d.Lo, d.Hi = -128, 127
		}
	}
	return d
}

// N is the number of buckets.
func (d *Domain) N() int { return 2*len(d.Vals) + 1 }

// Range returns the inclusive integer range of bucket b (ok=false if empty).
func (d *Domain) Range(b int) (lo, hi int64, ok bool) {
	n := len(d.Vals)
	switch {
	case b == 0:
		lo, hi = d.Lo, d.Vals[0]-1
	case b%2 == 1:
		v := d.Vals[(b-1)/2]
		return v, v, true
	default:
		i := (b - 2) / 2
		lo = d.Vals[i] + 1
		if i+1 < n {
			hi = d.Vals[i+1] - 1
		} else {
			hi = d.Hi
		}
	}
	return lo, hi, lo <= hi
}

// Top is the set of all non-empty buckets.
func (d *Domain) Top() Set {
	var s Set
	for b := 0; b < d.N(); b++ {
		if _, _, ok := d.Range(b); ok {
			s |= 1 << uint(b)
		}
	}
	return s
}

// Declared is the set of declared constants.
func (d *Domain) Declared() Set {
	var s Set
	for i := range d.Vals {
		s |= 1 << uint(1+2*i)
	}
	return s
}

// Of returns the singleton set for integer k.
func (d *Domain) Of(k int64) Set {
	for b := 0; b < d.N(); b++ {
		lo, hi, ok := d.Range(b)
		if ok && lo <= k && k <= hi {
			return 1 << uint(b)
		}
	}
	return 0
}

// OfName returns the singleton for a declared constant name.
func (d *Domain) OfName(names ...string) Set {
	var s Set
	for _, name := range names {
		found := false
		for v, n := range d.Names {
			if n == name {
				s |= d.Of(v)
				found = true
			}
		}
		if !found {
			// look up aliases (several names for one value)
			if c, ok := d.T.(*types.Named).Obj().Pkg().Scope().Lookup(name).(*types.Const); ok {
				if v, ok := constant.Int64Val(c.Val()); ok {
					s |= d.Of(v)
					found = true
				}
			}
		}
		if !found {
			panic("enum constant not found: " + name)
		}
	}
	return s
}

// Min/Max return the extreme integer possibly in s.
func (d *Domain) Min(s Set) int64 {
	for b := 0; b < d.N(); b++ {
		if s&(1<<uint(b)) != 0 {
			lo, _, _ := d.Range(b)
			return lo
		}
	}
	return math.MaxInt64
}
func (d *Domain) Max(s Set) int64 {
	for b := d.N() - 1; b >= 0; b-- {
		if s&(1<<uint(b)) != 0 {
			_, hi, _ := d.Range(b)
			return hi
		}
	}
	return math.MinInt64
}

// String renders a set.
func (d *Domain) String(s Set) string {
	if s == d.Top() {
		return "⊤"
	}
	var parts []string
	for b := 0; b < d.N(); b++ {
		if s&(1<<uint(b)) == 0 {
			continue
		}
		lo, hi, _ := d.Range(b)
		if b%2 == 1 {
			parts = append(parts, d.Names[lo])
		} else if lo == hi {
			parts = append(parts, fmt.Sprintf("%d", lo))
		} else {
			parts = append(parts, fmt.Sprintf("[%d..%d]", lo, hi))
		}
	}
	return "{" + strings.Join(parts, ",") + "}"
}

// RefineConst keeps the buckets of x that may satisfy "x op k" for the exact integer k.
func (d *Domain) RefineConst(x Set, op token.Token, k int64) Set {
	var out Set
	for b := 0; b < d.N(); b++ {
		bit := Set(1) << uint(b)
		if x&bit == 0 {
			continue
		}
		lo, hi, _ := d.Range(b)
		keep := true
		switch op {
		case token.EQL:
			keep = lo <= k && k <= hi
		case token.NEQ:
			keep = !(lo == hi && lo == k)
		case token.LSS:
			keep = lo < k
		case token.LEQ:
			keep = lo <= k
		case token.GTR:
			keep = hi > k
		case token.GEQ:
			keep = hi >= k
		}
		if keep {
			out |= bit
		}
	}
	return out
}

// RefineSet keeps the buckets of x that may satisfy "x op y" for some y in ys.
func (d *Domain) RefineSet(x Set, op token.Token, ys Set) Set {
	if ys == 0 {
		return 0
	}
	ymin, ymax := d.Min(ys), d.Max(ys)
	var out Set
	for b := 0; b < d.N(); b++ {
		bit := Set(1) << uint(b)
		if x&bit == 0 {
			continue
		}
		lo, hi, _ := d.Range(b)
		keep := false
		switch op {
		case token.EQL:
			// some y bucket overlaps
			for c := 0; c < d.N(); c++ {
				if ys&(1<<uint(c)) != 0 {
					l2, h2, _ := d.Range(c)
					if l2 <= hi && lo <= h2 {
						keep = true
					}
				}
			}
		case token.NEQ:
			// removable only if ys is exactly this singleton value
			keep = !(lo == hi && ymin == ymax && ymin == lo)
		case token.LSS:
			keep = lo < ymax
		case token.LEQ:
			keep = lo <= ymax
		case token.GTR:
			keep = hi > ymin
		case token.GEQ:
			keep = hi >= ymin
		default:
			keep = true
		}
		if keep {
			out |= bit
		}
	}
	return out
}

// ---------------------------------------------------------------------------

// EnumResolver supplies sets for values the intra-procedural flow cannot see
// (parameters, captured cells, call results). ok=false means "unknown": ⊤.
type EnumResolver func(v ssa.Value) (Set, bool)

type enumEnv map[interface{}]Set // key: ssa.Value or string (memory cell path)

func (e enumEnv) clone() enumEnv {
	o := make(enumEnv, len(e))
	for k, v := range e {
		o[k] = v
	}
	return o
}

// EnumFlow is the per-function fixpoint.
type EnumFlow struct {
	P    *Prog
	F    *ssa.Function
	D    *Domain
	Res  EnumResolver
	in   map[*ssa.BasicBlock]enumEnv
	Mods func(call ssa.CallInstruction, fieldName string) bool // may the call store to a domain-typed field of that name?
	// CellRes supplies the contents of a memory cell (by access path) that the
	// function itself has no fact about, e.g. from the callers.
	CellRes   func(path string, root ssa.Value) (Set, bool)
	Undecided []string
	Done      bool // fixpoint finished (false while Run is in progress)
	Unknown   bool // analysis was cut off (recursion depth): every query answers "anything"
}

// AccessPath gives a structural name to an address or value so that two
// syntactically separate loads of the same location compare equal.
func AccessPath(v ssa.Value) string {
	switch x := v.(type) {
	case *ssa.Parameter:
		return "p:" + x.Name()
	case *ssa.FreeVar:
		return "fv:" + x.Name()
	case *ssa.Global:
		return "g:" + x.Name()
	case *ssa.Alloc:
		return fmt.Sprintf("alloc:%s#%p", x.Comment, x)
	case *ssa.UnOp:
		if x.Op == token.MUL {
			return "*(" + AccessPath(x.X) + ")"
		}
	case *ssa.FieldAddr:
		f := FieldOfAddr(x)
		return AccessPath(x.X) + ".&" + f.Name()
	case *ssa.Field:
		return AccessPath(x.X) + "." + FieldOfField(x).Name()
	case *ssa.ChangeType:
		return AccessPath(x.X)
	}
	return fmt.Sprintf("v:%s#%p", v.Name(), v)
}

func (ef *EnumFlow) isDomType(t types.Type) bool {
	return types.Identical(t, ef.D.T)
}

func (ef *EnumFlow) eval(env enumEnv, v ssa.Value) Set {
	if c, ok := v.(*ssa.Const); ok {
		if k, ok := ConstInt(c); ok {
			return ef.D.Of(k)
		}
		return ef.D.Top()
	}
	if s, ok := env[v]; ok {
		return s
	}
	switch x := v.(type) {
	case *ssa.ChangeType:
		return ef.eval(env, x.X)
	case *ssa.Convert:
		if isIntegral(x.X.Type()) {
			s := ef.eval(env, x.X)
			return s & ef.typeRange(x.Type())
		}
	case *ssa.UnOp:
		if x.Op == token.MUL {
			path := AccessPath(x.X)
			if s, ok := env[path]; ok {
				return s
			}
			// two independent over-approximations: what the callers established
			// about this cell, and what can be stored in the field at all
			out := ef.D.Top() & ef.typeRange(v.Type())
			if ef.CellRes != nil {
				if s, ok := ef.CellRes(path, rootOf(x.X)); ok {
					out &= s
				}
			}
			if ef.Res != nil {
				if s, ok := ef.Res(v); ok {
					out &= s
				}
			}
			return out
		}
	case *ssa.Call:
		if path, root, ok := GetterPath(x); ok {
			if s, ok := env[path]; ok {
				return s
			}
			if ef.CellRes != nil {
				if s, ok := ef.CellRes(path, root); ok {
					return s
				}
			}
		}
	case *ssa.Phi:
		// not yet visited (loop): unknown
	}
	if ef.Res != nil {
		if s, ok := ef.Res(v); ok {
			return s
		}
	}
	return ef.D.Top() & ef.typeRange(v.Type())
}

func isIntegral(t types.Type) bool {
	b, ok := t.Underlying().(*types.Basic)
	return ok && b.Info()&types.IsInteger != 0
}

// typeRange restricts ⊤ to what the value's integer type can hold.
func (ef *EnumFlow) typeRange(t types.Type) Set {
	lo, hi := int64(math.MinInt64), int64(math.MaxInt64)
	if b, ok := t.Underlying().(*types.Basic); ok {
		switch b.Kind() {
		case types.Uint8:
			lo, hi = 0, 255
		case types.Uint16:
			lo, hi = 0, 65535
		case types.Uint32:
			lo, hi = 0, math.MaxUint32
		case types.Uint, types.Uint64, types.Uintptr:
			lo = 0
		case types.Int8:
			lo, hi = -128, 127
		}
	}
	var s Set
	for b := 0; b < ef.D.N(); b++ {
		l, h, ok := ef.D.Range(b)
		if ok && l <= hi && lo <= h {
			s |= 1 << uint(b)
		}
	}
	return s
}

func (ef *EnumFlow) setVal(env enumEnv, v ssa.Value, s Set) {
	if _, isConst := v.(*ssa.Const); isConst {
		return
	}
	env[v] = s
	switch x := v.(type) {
	case *ssa.ChangeType:
		ef.setVal(env, x.X, s)
	case *ssa.Convert:
		if isIntegral(x.X.Type()) {
			// narrowing conversions lose information about the source; only
			// refine the source when the conversion is value-preserving.
			if ef.typeRange(x.X.Type())&^ef.typeRange(x.Type()) == 0 {
				ef.setVal(env, x.X, s)
			}
		}
	case *ssa.UnOp:
		if x.Op == token.MUL {
			env[AccessPath(x.X)] = s
		}
	case *ssa.Call:
		if path, _, ok := GetterPath(x); ok {
			env[path] = s
		}
	}
}

// GetterPath: c calls a function whose body just returns a field reachable
// from its first parameter (e.g. (*Frame).messageType); returns the access
// path of that field as seen from the caller.
func GetterPath(c *ssa.Call) (string, ssa.Value, bool) {
	g := c.Call.StaticCallee()
	if g == nil || len(g.Blocks) != 1 || len(g.Params) == 0 || len(c.Call.Args) == 0 {
		return "", nil, false
	}
	var ret *ssa.Return
	for _, i := range g.Blocks[0].Instrs {
		switch x := i.(type) {
		case *ssa.Return:
			ret = x
		case *ssa.FieldAddr, *ssa.UnOp, *ssa.DebugRef:
		default:
			return "", nil, false
		}
	}
	if ret == nil || len(ret.Results) != 1 {
		return "", nil, false
	}
	ld, ok := ret.Results[0].(*ssa.UnOp)
	if !ok || ld.Op != token.MUL {
		return "", nil, false
	}
	if rootOf(ld.X) != ssa.Value(g.Params[0]) {
		return "", nil, false
	}
	inner := AccessPath(ld.X)
	prefix := "p:" + g.Params[0].Name()
	if !strings.HasPrefix(inner, prefix) {
		return "", nil, false
	}
	arg := c.Call.Args[0]
	return AccessPath(arg) + strings.TrimPrefix(inner, prefix), rootOf(arg), true
}

func (ef *EnumFlow) refine(env enumEnv, cond ssa.Value, pol bool) (feasible bool) {
	switch x := cond.(type) {
	case *ssa.UnOp:
		if x.Op == token.NOT {
			return ef.refine(env, x.X, !pol)
		}
	case *ssa.Const:
		if b, ok := ConstBool(x); ok {
			return b == pol
		}
	case *ssa.BinOp:
		op := x.Op
		switch op {
		case token.EQL, token.NEQ, token.LSS, token.LEQ, token.GTR, token.GEQ:
		default:
			return true
		}
		if !pol {
			op = negateOp(op)
		}
		if !ef.relevant(x.X) && !ef.relevant(x.Y) {
			return true
		}
		xs, ys := ef.eval(env, x.X), ef.eval(env, x.Y)
		var nx, ny Set
		if k, ok := ConstInt(x.Y); ok {
			nx, ny = ef.D.RefineConst(xs, op, k), ys
		} else if k, ok := ConstInt(x.X); ok {
			nx, ny = xs, ef.D.RefineConst(ys, mirrorOp(op), k)
		} else {
			nx = ef.D.RefineSet(xs, op, ys)
			ny = ef.D.RefineSet(ys, mirrorOp(op), xs)
		}
		if nx == 0 || ny == 0 {
			return false
		}
		ef.setVal(env, x.X, nx)
		ef.setVal(env, x.Y, ny)
	}
	return true
}

// relevant: value is of the domain type, or an integer converted to/from it.
func (ef *EnumFlow) relevant(v ssa.Value) bool {
	if ef.isDomType(v.Type()) {
		return true
	}
	if c, ok := v.(*ssa.Convert); ok {
		return ef.relevant(c.X)
	}
	if c, ok := v.(*ssa.ChangeType); ok {
		return ef.relevant(c.X)
	}
	return false
}

// transfer applies one instruction's memory effects.
func (ef *EnumFlow) transfer(env enumEnv, i ssa.Instruction) {
	switch x := i.(type) {
	case *ssa.Store:
		path := AccessPath(x.Addr)
		fld := AddrField(x.Addr)
		if ef.isDomType(x.Val.Type()) {
			s := ef.eval(env, x.Val)
			// weak update of other cells naming the same field
			if fld != nil {
				suffix := ".&" + fld.Name()
				for k, old := range env {
					if ks, ok := k.(string); ok && ks != path && strings.HasSuffix(ks, suffix) {
						env[k] = old | s
					}
				}
			}
			env[path] = s
		}
	case ssa.CallInstruction:
		if _, isGo := i.(*ssa.Go); isGo {
			return
		}
		if _, isDefer := i.(*ssa.Defer); isDefer {
			return
		}
		if _, _, _, isLock := lockOp(i); isLock {
			for k := range env {
				if ks, ok := k.(string); ok && strings.Contains(ks, ".&") {
					delete(env, k)
				}
			}
			return
		}
		if b, ok := x.Common().Value.(*ssa.Builtin); ok && b != nil {
			return
		}
		for k := range env {
			ks, ok := k.(string)
			if !ok {
				continue
			}
			// captured local cells ("*(fv:..)", "alloc:") may be written by closures called
			if ef.Mods == nil || ef.callMayWritePath(x, ks) {
				if os.Getenv("TCHK_DEBUG") != "" {
					fmt.Fprintf(os.Stderr, "kill %s by %v in %s\n", ks, x, ef.F)
				}
				delete(env, k)
			}
		}
	}
}

func (ef *EnumFlow) callMayWritePath(c ssa.CallInstruction, path string) bool {
	idx := strings.LastIndex(path, ".&")
	if idx < 0 {
		// local cell: written only by closures; conservatively killed when the
		// callee is a closure or unknown
		if cal := c.Common().StaticCallee(); cal != nil && cal.Parent() == nil {
			return false
		}
		return true
	}
	name := path[idx+2:]
	return ef.Mods(c, name)
}

// Run computes the fixpoint.
func (ef *EnumFlow) Run() {
	defer func() { ef.Done = true }()
	f := ef.F
	ef.in = map[*ssa.BasicBlock]enumEnv{}
	if len(f.Blocks) == 0 {
		return
	}
	ef.in[f.Blocks[0]] = enumEnv{}
	work := []*ssa.BasicBlock{f.Blocks[0]}
	inWork := map[*ssa.BasicBlock]bool{f.Blocks[0]: true}
	iters := 0
	for len(work) > 0 {
		iters++
		if iters > 20000 {
			ef.Undecided = append(ef.Undecided, "enum flow did not converge")
			return
		}
		b := work[0]
		work = work[1:]
		inWork[b] = false
		env := ef.in[b].clone()
		for _, i := range b.Instrs {
			ef.transfer(env, i)
		}
		for si, s := range b.Succs {
			e2 := env.clone()
			if ifi, ok := b.Instrs[len(b.Instrs)-1].(*ssa.If); ok {
				if b.Succs[0] != b.Succs[1] {
					if !ef.refine(e2, ifi.Cond, si == 0) {
						continue // infeasible edge
					}
				}
			}
			// phis of s
			predIdx := -1
			for k, pb := range s.Preds {
				if pb == b {
					predIdx = k
					break
				}
			}
			for _, i := range s.Instrs {
				phi, ok := i.(*ssa.Phi)
				if !ok {
					break
				}
				if ef.relevant(phi) {
					e2[phi] = ef.eval(e2, phi.Edges[predIdx])
				}
			}
			old, seen := ef.in[s]
			if !seen {
				ef.in[s] = e2
			} else {
				j, changed := ef.join(old, e2)
				if !changed {
					continue
				}
				ef.in[s] = j
			}
			if !inWork[s] {
				inWork[s] = true
				work = append(work, s)
			}
		}
	}
}

// join: pointwise union; a key missing on either side means ⊤ (dropped).
func (ef *EnumFlow) join(a, b enumEnv) (enumEnv, bool) {
	out := enumEnv{}
	changed := false
	for k, va := range a {
		if vb, ok := b[k]; ok {
			u := va | vb
			out[k] = u
			if u != va {
				changed = true
			}
		} else {
			changed = true
		}
	}
	return out, changed
}

// Reachable reports whether block b is reachable given the enum facts.
func (ef *EnumFlow) Reachable(b *ssa.BasicBlock) bool {
	if ef.Unknown || !ef.Done {
		return true
	}
	_, ok := ef.in[b]
	return ok
}

func (ef *EnumFlow) envBefore(i ssa.Instruction) (enumEnv, bool) {
	if ef.Unknown || !ef.Done {
		return enumEnv{}, true
	}
	b := i.Block()
	in, ok := ef.in[b]
	if !ok {
		return nil, false
	}
	env := in.clone()
	for _, j := range b.Instrs {
		if j == i {
			break
		}
		ef.transfer(env, j)
	}
	return env, true
}

// ValueAt: possible set of value v immediately before instruction i.
func (ef *EnumFlow) ValueAt(v ssa.Value, i ssa.Instruction) (Set, bool) {
	env, ok := ef.envBefore(i)
	if !ok {
		return 0, false
	}
	return ef.eval(env, v), true
}

// PathAt: possible contents of the memory cell named by path immediately before i.
func (ef *EnumFlow) PathAt(path string, root ssa.Value, i ssa.Instruction) (Set, bool) {
	env, ok := ef.envBefore(i)
	if !ok {
		return 0, false
	}
	if s, ok := env[path]; ok {
		return s, true
	}
	if ef.CellRes != nil {
		if s, ok := ef.CellRes(path, root); ok {
			return s, true
		}
	}
	return ef.D.Top(), true
}

// CellAt: possible contents of the memory cell at addr immediately before i.
func (ef *EnumFlow) CellAt(addr ssa.Value, i ssa.Instruction) (Set, bool) {
	env, ok := ef.envBefore(i)
	if !ok {
		return 0, false
	}
	if s, ok := env[AccessPath(addr)]; ok {
		return s, true
	}
	return ef.D.Top(), true
}

// EdgeFeasible reports whether the CFG edge b->b.Succs[k] is feasible.
func (ef *EnumFlow) EdgeFeasible(b *ssa.BasicBlock, k int) bool {
	if ef.Unknown || !ef.Done {
		return true
	}
	in, ok := ef.in[b]
	if !ok {
		return false
	}
	env := in.clone()
	for _, i := range b.Instrs {
		ef.transfer(env, i)
	}
	if ifi, ok := b.Instrs[len(b.Instrs)-1].(*ssa.If); ok && b.Succs[0] != b.Succs[1] {
		return ef.refine(env, ifi.Cond, k == 0)
	}
	return true
}

// ---------------------------------------------------------------------------
// Decision tables: the (acyclic) CFG of a pure predicate is unfolded into its
// decision tree; each path constrains the input cells to a product of sets.

// TableCell is one input of a decision table.
type TableCell struct {
	Name  string
	D     *Domain
	Match func(v ssa.Value) bool
}

// TableRow is one region of the input product with its result.
type TableRow struct {
	Sets   []Set
	Result string // "true", "false", or a description of a non-boolean result
}

type tblState struct {
	sets  []Set
	alias map[ssa.Value]int   // value is exactly cell #i
	konst map[ssa.Value]int64 // value is this constant on the current path
}

func (s tblState) clone() tblState {
	o := tblState{sets: append([]Set{}, s.sets...), alias: map[ssa.Value]int{}, konst: map[ssa.Value]int64{}}
	for k, v := range s.alias {
		o.alias[k] = v
	}
	for k, v := range s.konst {
		o.konst[k] = v
	}
	return o
}

// DecisionTable extracts the table of f over the given cells. describe renders
// non-constant results.
func DecisionTable(f *ssa.Function, cells []TableCell, describe func(ssa.Value) string) ([]TableRow, error) {
	var rows []TableRow
	var firstErr error
	fail := func(format string, a ...interface{}) {
		if firstErr == nil {
			firstErr = fmt.Errorf(format, a...)
		}
	}
	cellOf := func(st tblState, v ssa.Value) (int, bool) {
		v = Strip(v)
		if i, ok := st.alias[v]; ok {
			return i, true
		}
		for i, c := range cells {
			if c.Match(v) {
				return i, true
			}
		}
		return -1, false
	}
	constOf := func(st tblState, v ssa.Value) (int64, bool) {
		v = Strip(v)
		if k, ok := ConstInt(v); ok {
			return k, true
		}
		k, ok := st.konst[v]
		return k, ok
	}
	// split evaluates cond under st, returning the states in which it is true / false.
	var split func(st tblState, cond ssa.Value) (t, fl []tblState)
	split = func(st tblState, cond ssa.Value) (t, fl []tblState) {
		switch x := cond.(type) {
		case *ssa.Const:
			if b, ok := ConstBool(x); ok {
				if b {
					return []tblState{st}, nil
				}
				return nil, []tblState{st}
			}
		case *ssa.UnOp:
			if x.Op == token.NOT {
				a, b := split(st, x.X)
				return b, a
			}
		case *ssa.BinOp:
			op := x.Op
			switch op {
			case token.EQL, token.NEQ, token.LSS, token.LEQ, token.GTR, token.GEQ:
			default:
				fail("unsupported condition %v", x)
				return nil, nil
			}
			l, r := x.X, x.Y
			if _, lc := constOf(st, l); lc {
				if _, rc := constOf(st, r); !rc {
					l, r = r, l
					op = mirrorOp(op)
				}
			}
			k, kok := constOf(st, r)
			if !kok {
				fail("comparison of two non-constant values: %v", x)
				return nil, nil
			}
			if lk, lok := constOf(st, l); lok {
				res := false
				switch op {
				case token.EQL:
					res = lk == k
				case token.NEQ:
					res = lk != k
				case token.LSS:
					res = lk < k
				case token.LEQ:
					res = lk <= k
				case token.GTR:
					res = lk > k
				case token.GEQ:
					res = lk >= k
				}
				if res {
					return []tblState{st}, nil
				}
				return nil, []tblState{st}
			}
			ci, ok := cellOf(st, l)
			if !ok {
				fail("branch on a value that is not a table cell: %v", x)
				return nil, nil
			}
			d := cells[ci].D
			ts := d.RefineConst(st.sets[ci], op, k)
			fs := d.RefineConst(st.sets[ci], negateOp(op), k)
			// a non-singleton bucket straddling k would land in both: tolerated only if identical result later
			if ts != 0 {
				n := st.clone()
				n.sets[ci] = ts
				t = append(t, n)
			}
			if fs != 0 {
				n := st.clone()
				n.sets[ci] = fs
				fl = append(fl, n)
			}
			return t, fl
		}
		fail("unsupported condition %T", cond)
		return nil, nil
	}
	depth := 0
	var walk func(b *ssa.BasicBlock, from *ssa.BasicBlock, st tblState, onPath map[*ssa.BasicBlock]bool)
	walk = func(b *ssa.BasicBlock, from *ssa.BasicBlock, st tblState, onPath map[*ssa.BasicBlock]bool) {
		if firstErr != nil {
			return
		}
		if onPath[b] {
			fail("loop in decision function at block %d", b.Index)
			return
		}
		depth++
		if depth > 100000 {
			fail("decision tree too large")
			return
		}
		onPath[b] = true
		defer delete(onPath, b)
		st = st.clone()
		for _, i := range b.Instrs {
			switch x := i.(type) {
			case *ssa.Phi:
				idx := -1
				for k, p := range b.Preds {
					if p == from {
						idx = k
					}
				}
				e := x.Edges[idx]
				delete(st.alias, x)
				delete(st.konst, x)
				if k, ok := constOf(st, e); ok {
					st.konst[x] = k
				} else if ci, ok := cellOf(st, e); ok {
					st.alias[x] = ci
				}
			case *ssa.If:
				t, fl := split(st, x.Cond)
				for _, s := range t {
					walk(b.Succs[0], b, s, onPath)
				}
				for _, s := range fl {
					walk(b.Succs[1], b, s, onPath)
				}
				return
			case *ssa.Jump:
				walk(b.Succs[0], b, st, onPath)
				return
			case *ssa.Return:
				if len(x.Results) != 1 {
					fail("decision function must return one value")
					return
				}
				rv := x.Results[0]
				if bv, ok := ConstBool(rv); ok {
					rows = append(rows, TableRow{st.sets, fmt.Sprint(bv)})
					return
				}
				if isBoolType(rv.Type()) {
					if _, isPhi := rv.(*ssa.Phi); !isPhi {
						t, fl := split(st, rv)
						for _, s := range t {
							rows = append(rows, TableRow{s.sets, "true"})
						}
						for _, s := range fl {
							rows = append(rows, TableRow{s.sets, "false"})
						}
						return
					}
				}
				if k, ok := constOf(st, rv); ok {
					rows = append(rows, TableRow{st.sets, fmt.Sprint(k)})
					return
				}
				rows = append(rows, TableRow{st.sets, describe(rv)})
				return
			case *ssa.Panic:
				rows = append(rows, TableRow{st.sets, "panic"})
				return
			}
		}
	}
	init := tblState{alias: map[ssa.Value]int{}, konst: map[ssa.Value]int64{}}
	for _, c := range cells {
		init.sets = append(init.sets, c.D.Top())
	}
	if len(f.Blocks) > 0 {
		walk(f.Blocks[0], nil, init, map[*ssa.BasicBlock]bool{})
	}
	return rows, firstErr
}

func isBoolType(t types.Type) bool {
	b, ok := t.Underlying().(*types.Basic)
	return ok && b.Kind() == types.Bool
}
