package core

import (
	"fmt"
	"go/token"
	"go/types"

	"golang.org/x/tools/go/ssa"
)

// SinkResult is the verdict for one panic sink.
type SinkResult struct {
	OK      bool
	Trivial bool
	How     string
}

// boundedBy: value v satisfies v + need <= len(X) at block b.
func (a *Ranges) boundedBy(v ssa.Value, X ssa.Value, need int64, b *ssa.BasicBlock) (bool, string) {
	lr := a.sliceSrcLen(X, b, 0)
	vr := a.RangeAt(v, b)
	if vr.Hi != PosInf && lr.Lo != NegInf && addSat(vr.Hi, need) <= lr.Lo {
		return true, fmt.Sprintf("value %s, len >= %d", vr, lr.Lo)
	}
	key := LenKey(X)
	for _, sb := range a.UpperBounds(v, b, 0) {
		if sb.Key != key || sb.Off < need {
			continue
		}
		if Strip(sb.Src) == Strip(X) || NoStoreBetween(sb.Src, X) || sameLocalValue(sb.Src, X) {
			return true, fmt.Sprintf("guard: value+%d <= len(%s)", sb.Off, shortKey(key))
		}
	}
	return false, fmt.Sprintf("value %s vs len %s", vr, lr)
}

func sameLocalValue(x, y ssa.Value) bool { return Strip(x) == Strip(y) }

// orderedLE: lo <= hi is known at b.
func (a *Ranges) orderedLE(lo, hi ssa.Value, b *ssa.BasicBlock) bool {
	lr, hr := a.RangeAt(lo, b), a.RangeAt(hi, b)
	if lr.Hi <= hr.Lo {
		return true
	}
	if a.OrderedInv != nil && a.OrderedInv(lo, hi) {
		return true
	}
	// hi = lo + nonneg
	if bo, ok := hi.(*ssa.BinOp); ok && bo.Op == token.ADD {
		xr, yr := a.RangeAt(bo.X, b), a.RangeAt(bo.Y, b)
		tr := TypeRng(bo.Type(), a.WordBits)
		noWrap := addSat(xr.Hi, yr.Hi) <= tr.Hi
		if noWrap && a.sameInt(bo.X, lo) && yr.Lo >= 0 {
			return true
		}
		if noWrap && a.sameInt(bo.Y, lo) && xr.Lo >= 0 {
			return true
		}
	}
	for _, g := range a.guards(b) {
		x, y, op := g.X, g.Y, g.Op
		if a.sameInt(x, lo) && a.sameInt(y, hi) && (op == token.LEQ || op == token.LSS || op == token.EQL) {
			return true
		}
		if a.sameInt(x, hi) && a.sameInt(y, lo) && (op == token.GEQ || op == token.GTR || op == token.EQL) {
			return true
		}
	}
	return false
}

// CheckSink decides one index / slice / make instruction.
func (a *Ranges) CheckSink(i ssa.Instruction) SinkResult {
	res := a.checkSink(i)
	if !res.OK && a.SinkInv != nil {
		if ok, why := a.SinkInv(i); ok {
			return SinkResult{true, false, why}
		}
	}
	return res
}

func (a *Ranges) checkSink(i ssa.Instruction) SinkResult {
	b := i.Block()
	switch x := i.(type) {
	case *ssa.IndexAddr:
		return a.checkIndex(x.X, x.Index, b)
	case *ssa.Index:
		return a.checkIndex(x.X, x.Index, b)
	case *ssa.Lookup:
		return a.checkIndex(x.X, x.Index, b)
	case *ssa.MakeSlice:
		lr := a.RangeAt(x.Len, b)
		if lr.Lo < 0 {
			return SinkResult{false, false, "make length may be negative: " + lr.String()}
		}
		cr := a.RangeAt(x.Cap, b)
		if x.Cap != x.Len && cr.Lo < lr.Hi {
			if !a.orderedLE(x.Len, x.Cap, b) {
				return SinkResult{false, false, "make cap may be below len"}
			}
		}
		_, isC := x.Len.(*ssa.Const)
		return SinkResult{true, isC, "length " + lr.String()}
	case *ssa.Slice:
		return a.checkSlice(x, b)
	case *ssa.Call:
		if need, argIdx, ok := LibLenPrecondition(x); ok {
			lr := a.LenRange(x.Call.Args[argIdx], b)
			if lr.Lo >= need {
				return SinkResult{true, false, fmt.Sprintf("argument length %s >= %d", lr, need)}
			}
			return SinkResult{false, false, fmt.Sprintf("library call needs len >= %d, argument length is %s", need, lr)}
		}
	}
	return SinkResult{true, true, "not a sink"}
}

func (a *Ranges) checkIndex(X, idx ssa.Value, b *ssa.BasicBlock) SinkResult {
	ir := a.RangeAt(idx, b)
	if ir.Lo < 0 {
		return SinkResult{false, false, "index may be negative: " + ir.String()}
	}
	if arr, ok := Deref(X.Type()).Underlying().(*types.Array); ok {
		if ir.Hi < arr.Len() {
			_, isC := idx.(*ssa.Const)
			return SinkResult{true, isC, fmt.Sprintf("index %s < array length %d", ir, arr.Len())}
		}
		return SinkResult{false, false, fmt.Sprintf("index %s may reach array length %d", ir, arr.Len())}
	}
	if ok, how := a.boundedBy(idx, X, 1, b); ok {
		return SinkResult{true, false, how}
	} else {
		return SinkResult{false, false, "index not shown below the length: " + how}
	}
}

func (a *Ranges) checkSlice(x *ssa.Slice, b *ssa.BasicBlock) SinkResult {
	// limit: array length, string length, or slice capacity (we prove against the length, which is <= capacity)
	lo, hi, max := x.Low, x.High, x.Max
	trivial := true
	how := ""
	if lo != nil {
		lr := a.RangeAt(lo, b)
		if lr.Lo < 0 {
			return SinkResult{false, false, "low bound may be negative: " + lr.String()}
		}
		if _, isC := lo.(*ssa.Const); !isC {
			trivial = false
		}
	}
	top := hi
	if max != nil {
		top = max
	}
	if top != nil {
		if _, isC := top.(*ssa.Const); !isC {
			trivial = false
		}
		tr := a.RangeAt(top, b)
		if tr.Lo < 0 {
			return SinkResult{false, false, "high bound may be negative: " + tr.String()}
		}
		ok, h := a.boundedBy(top, x.X, 0, b)
		if !ok {
			// re-slicing up to capacity: x.X is itself s[:0] / s[a:b] of something large enough
			if ok2, h2 := a.withinCap(top, x.X, b); ok2 {
				h = h2
			} else {
				return SinkResult{false, false, "high bound not shown within the length/capacity: " + h}
			}
		}
		how = h
		if k, isC := ConstInt(top); isC && k == 0 {
			trivial = true
		}
	}
	if hi != nil && max != nil && !a.orderedLE(hi, max, b) {
		return SinkResult{false, false, "high may exceed max"}
	}
	if lo != nil {
		if hi != nil {
			if !a.orderedLE(lo, hi, b) {
				return SinkResult{false, false, fmt.Sprintf("low %s may exceed high %s", a.RangeAt(lo, b), a.RangeAt(hi, b))}
			}
		} else {
			ok, h := a.boundedBy(lo, x.X, 0, b)
			if !ok {
				return SinkResult{false, false, "low bound not shown within the length: " + h}
			}
			how = h
		}
	}
	if how == "" {
		how = "full slice"
	}
	return SinkResult{true, trivial, how}
}

// withinCap: top <= cap(X) where X was produced by slicing a larger object from its start.
func (a *Ranges) withinCap(top ssa.Value, X ssa.Value, b *ssa.BasicBlock) (bool, string) {
	X = Strip(X)
	tr := a.RangeAt(top, b)
	switch v := X.(type) {
	case *ssa.Slice:
		if v.Max == nil {
			// cap(v) = cap(v.X) - low >= len(v.X) - low
			src := a.sliceSrcLen(v.X, b, 0)
			low := Rng{0, 0}
			if v.Low != nil {
				low = a.RangeAt(v.Low, b)
			}
			if tr.Hi != PosInf && src.Lo != NegInf && tr.Hi <= addSat(src.Lo, negSat(low.Hi)) {
				return true, fmt.Sprintf("within capacity: %s <= %d-%d", tr, src.Lo, low.Hi)
			}
		}
	case *ssa.MakeSlice:
		cr := a.RangeAt(v.Cap, b)
		if tr.Hi <= cr.Lo {
			return true, "within make capacity"
		}
	case *ssa.Phi:
		okAll := true
		for _, e := range v.Edges {
			if ok, _ := a.withinCap(top, e, b); !ok {
				if ok2, _ := a.boundedBy(top, e, 0, b); !ok2 {
					okAll = false
				}
			}
		}
		if okAll {
			return true, "within capacity on every incoming value"
		}
	}
	return false, ""
}

// LibLenPrecondition: standard-library calls that panic when a slice argument is too short.
func LibLenPrecondition(c *ssa.Call) (need int64, argIdx int, ok bool) {
	o := CalleeObj(c)
	if o == nil || o.Pkg() == nil || o.Pkg().Path() != "encoding/binary" {
		return 0, 0, false
	}
	sig := o.Type().(*types.Signature)
	if sig.Recv() == nil {
		return 0, 0, false
	}
	switch o.Name() {
	case "Uint16", "PutUint16":
		need = 2
	case "Uint32", "PutUint32":
		need = 4
	case "Uint64", "PutUint64":
		need = 8
	default:
		return 0, 0, false
	}
	// receiver is args[0] for static method calls
	return need, 1, true
}
