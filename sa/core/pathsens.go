package core

import (
	"go/token"

	"golang.org/x/tools/go/ssa"
)

// NeverNil reports whether v is certainly a non-nil value: an interface made
// from a concrete value, an allocation, or the result of a function all of
// whose returns are such values.
func NeverNil(v ssa.Value, depth int) bool {
	if depth > 4 {
		return false
	}
	switch x := v.(type) {
	case *ssa.MakeInterface, *ssa.Alloc, *ssa.MakeClosure, *ssa.MakeMap, *ssa.MakeChan, *ssa.MakeSlice:
		return true
	case *ssa.ChangeInterface:
		return NeverNil(x.X, depth+1)
	case *ssa.Call:
		g := x.Call.StaticCallee()
		if g != nil && g.Pkg != nil {
			switch g.Pkg.Pkg.Path() + "." + g.Name() {
			case "fmt.Errorf", "errors.New":
				return true
			}
		}
		if g == nil || len(g.Blocks) == 0 || g.Signature.Results().Len() != 1 {
			return false
		}
		n := 0
		ok := true
		EachInstr(g, func(i ssa.Instruction) {
			if ret, isRet := i.(*ssa.Return); isRet {
				n++
				if !NeverNil(ret.Results[0], depth+1) {
					ok = false
				}
			}
		})
		return ok && n > 0
	}
	return false
}

// ReachPhiSensitive is ReachAvoiding with the branch conditions that the path
// itself decides: a phi takes the value of the edge the path arrived on, and
// `x == nil` / `x != nil` is decided when x (after phi resolution) is
// NeverNil or the nil constant. Conditions it cannot decide are explored both
// ways, so every reported path is feasible as far as those facts go and no
// feasible path is dropped.
func ReachPhiSensitive(f *ssa.Function, from ssa.Instruction, target, avoid InstrPred) PathResult {
	return ReachPhiSensitiveV(f, from, func(i ssa.Instruction, _ func(ssa.Value) ssa.Value) bool { return target(i) }, avoid)
}

// ReachPhiSensitiveV is ReachPhiSensitive with a target predicate that can
// resolve phi values to what they are on the path being explored.
func ReachPhiSensitiveV(f *ssa.Function, from ssa.Instruction, target func(ssa.Instruction, func(ssa.Value) ssa.Value) bool, avoid InstrPred) PathResult {
	type state struct{ b, pred *ssa.BasicBlock }
	visited := map[state]bool{}
	var found PathResult
	var walk func(b, pred *ssa.BasicBlock, start int, trail []*ssa.BasicBlock, phis map[*ssa.Phi]ssa.Value) bool
	resolve := func(v ssa.Value, phis map[*ssa.Phi]ssa.Value) ssa.Value {
		for d := 0; d < 8; d++ {
			ph, ok := v.(*ssa.Phi)
			if !ok {
				return v
			}
			r, has := phis[ph]
			if !has {
				return v
			}
			v = r
		}
		return v
	}
	walk = func(b, pred *ssa.BasicBlock, start int, trail []*ssa.BasicBlock, phis map[*ssa.Phi]ssa.Value) bool {
		if start == 0 {
			st := state{b, pred}
			if visited[st] {
				return false
			}
			visited[st] = true
		}
		trail = append(trail, b)
		local := phis
		copied := false
		for k := start; k < len(b.Instrs); k++ {
			ins := b.Instrs[k]
			if ph, isPhi := ins.(*ssa.Phi); isPhi && pred != nil {
				for e, pb := range b.Preds {
					if pb == pred {
						if !copied {
							n := make(map[*ssa.Phi]ssa.Value, len(local)+1)
							for kk, vv := range local {
								n[kk] = vv
							}
							local, copied = n, true
						}
						local[ph] = resolve(ph.Edges[e], local)
					}
				}
				continue
			}
			if avoid != nil && avoid(ins) {
				return false
			}
			if target(ins, func(v ssa.Value) ssa.Value { return resolve(v, local) }) {
				found = PathResult{true, ins, append([]*ssa.BasicBlock(nil), trail...)}
				return true
			}
		}
		succs := b.Succs
		if ifi, isIf := b.Instrs[len(b.Instrs)-1].(*ssa.If); isIf {
			if bo, isBO := ifi.Cond.(*ssa.BinOp); isBO && (bo.Op == token.EQL || bo.Op == token.NEQ) {
				x, y := resolve(bo.X, local), resolve(bo.Y, local)
				isNil := func(v ssa.Value) bool { c, ok := v.(*ssa.Const); return ok && c.IsNil() }
				var dec, known bool
				switch {
				case isNil(y) && NeverNil(x, 0), isNil(x) && NeverNil(y, 0):
					dec, known = bo.Op == token.NEQ, true
				case isNil(x) && isNil(y):
					dec, known = bo.Op == token.EQL, true
				}
				if known {
					if dec {
						succs = b.Succs[:1]
					} else {
						succs = b.Succs[1:2]
					}
				}
			}
		}
		for _, s := range succs {
			if walk(s, b, 0, trail, local) {
				return true
			}
		}
		return false
	}
	if from == nil {
		walk(f.Blocks[0], nil, 0, nil, map[*ssa.Phi]ssa.Value{})
		return found
	}
	b := from.Block()
	idx := 0
	for k, i := range b.Instrs {
		if i == from {
			idx = k + 1
		}
	}
	walk(b, nil, idx, nil, map[*ssa.Phi]ssa.Value{})
	return found
}
