package core

import (
	"fmt"
	"go/token"
	"go/types"
	"os"
	"sort"
	"strings"

	"golang.org/x/tools/go/ssa"
)

// ---------------------------------------------------------------------------
// E2: linear-resource (ownership) analysis over SSA, path-sensitive on boolean
// / nil-ness valuations that guard consume events, with inferred summaries.

// Ownership state bits.
const (
	StOwned    uint8 = 1 // resource may still be held by this holder
	StConsumed uint8 = 2 // resource may have been handed back / handed over
	StAlias    uint8 = 4 // an alias owner (fragment) can release it independently
	StEscaped  uint8 = 8 // stored into the heap or returned: not a leak here
)

// OwnSpec parameterises the analysis for one resource type.
type OwnSpec struct {
	IsRes     func(t types.Type) bool
	IsRelease func(c ssa.CallInstruction) (ssa.Value, bool) // explicit hand-back of its argument
	IsAlias   func(c ssa.CallInstruction) (ssa.Value, bool) // call makes an alias owner for its argument
	// MayReleaseAlias: the call may (transitively) run the alias owner's release.
	MayReleaseAlias func(c ssa.CallInstruction) bool
	// NonNilResult: call whose (error) result is known non-nil (fmt.Errorf, errors.New).
	NonNilResult func(c ssa.CallInstruction) bool
	// OnceWrapper: callee invokes its function-typed parameter #idx exactly once and returns its result.
	OnceWrapper func(callee *ssa.Function) (idx int, ok bool)
	// IsCarrier: a struct (or pointer to one) that wraps the resource (e.g. lazyCallReq embeds *Frame):
	// a carrier built from the resource denotes the same resource.
	IsCarrier func(t types.Type) bool
	// GlobalID: identity of a package-level error variable loaded by v (0 if none); ids start at 2.
	GlobalID func(g *ssa.Global) int8
}

func (sp *OwnSpec) carrier(t types.Type) bool { return sp.IsCarrier != nil && sp.IsCarrier(t) }

type vkey struct {
	v   ssa.Value
	idx int
}

type ownCfg struct {
	st     uint8
	vals   map[vkey]int8
	defers []ssa.Instruction
}

func (c ownCfg) clone() ownCfg {
	o := ownCfg{st: c.st, vals: make(map[vkey]int8, len(c.vals)), defers: append([]ssa.Instruction{}, c.defers...)}
	for k, v := range c.vals {
		o.vals[k] = v
	}
	return o
}

func (c ownCfg) key() string {
	var parts []string
	for k, v := range c.vals {
		parts = append(parts, fmt.Sprintf("%p.%d=%d", k.v, k.idx, v))
	}
	sort.Strings(parts)
	d := ""
	for _, x := range c.defers {
		d += fmt.Sprintf("%p,", x)
	}
	return fmt.Sprintf("%d|%s|%s", c.st, strings.Join(parts, ";"), d)
}

// OwnOutcome is one (result valuation, state) pair of a summary.
type OwnOutcome struct {
	Res []int8 // per result: -1 unknown, 0 false/nil, 1 true/non-nil
	St  uint8
	Ret *ssa.Return
}

// OwnEvent is a violation or leak found.
type OwnEvent struct {
	Kind  string // double-consume | use-after-consume | leak
	Fn    *ssa.Function
	Instr ssa.Instruction
	Root  ssa.Value
	Note  string
}

// Own is the analysis driver.
type Own struct {
	P      *Prog
	Spec   OwnSpec
	sums   map[string][]OwnOutcome
	inProg map[string]bool
	Events []OwnEvent
	seenEv map[string]bool
	// SiteState records the state bits of a resource where it is passed to a callee / go statement.
	SiteState map[ssa.Instruction]uint8
	// EntryFlags: extra state bits (StAlias) for parameter #idx of a function.
	EntryFlags map[*ssa.Function]map[int]uint8
	Analysed   int
	Consumes   int
	quiet      int
	retSums    map[string][][]int8
	// CalleeLeaks: exits of a callee on which a passed-in resource stays owned although other
	// exits with the same result valuation hand it on (normalised to "handed on" for callers).
	CalleeLeaks map[string]*ssa.Return
}

// NewOwn creates the driver.
func NewOwn(p *Prog, spec OwnSpec) *Own {
	return &Own{P: p, Spec: spec, sums: map[string][]OwnOutcome{}, inProg: map[string]bool{}, seenEv: map[string]bool{},
		SiteState: map[ssa.Instruction]uint8{}, EntryFlags: map[*ssa.Function]map[int]uint8{}}
}

func (o *Own) event(kind string, fn *ssa.Function, i ssa.Instruction, root ssa.Value, note string) {
	if o.quiet > 0 {
		return
	}
	k := fmt.Sprintf("%s|%p|%p", kind, i, root)
	if o.seenEv[k] {
		return
	}
	o.seenEv[k] = true
	o.Events = append(o.Events, OwnEvent{kind, fn, i, root, note})
}

// resource describes which SSA values / cells of a function denote the tracked resource.
type resource struct {
	fresh bool // root is created by its defining instruction (acquire / receive / call result)
	root  ssa.Value
	vals  map[ssa.Value]bool
	cells map[ssa.Value]bool // Alloc / FreeVar cells holding the resource
}

func (r *resource) has(v ssa.Value) bool {
	if v == nil {
		return false
	}
	if r.vals[v] {
		return true
	}
	if u, ok := v.(*ssa.UnOp); ok && u.Op == token.MUL && r.cells[u.X] {
		return true
	}
	return false
}

// closeResource computes the value/cell closure of a root within f and its nested closures.
func (o *Own) closeResource(f *ssa.Function, root ssa.Value, rootIsCell bool) *resource {
	r := &resource{root: root, vals: map[ssa.Value]bool{}, cells: map[ssa.Value]bool{}}
	if rootIsCell {
		r.cells[root] = true
	} else {
		r.vals[root] = true
	}
	fns := WithAnon(f)
	// a field-load root stands for every load of the same location in f
	if u, ok := root.(*ssa.UnOp); ok && u.Op == token.MUL {
		if _, isFA := u.X.(*ssa.FieldAddr); isFA {
			path := AccessPath(u.X)
			EachInstr(f, func(i ssa.Instruction) {
				if u2, ok := i.(*ssa.UnOp); ok && u2.Op == token.MUL {
					if _, isFA := u2.X.(*ssa.FieldAddr); isFA && AccessPath(u2.X) == path {
						r.vals[u2] = true
					}
				}
			})
		}
	}
	changed := true
	for changed {
		changed = false
		add := func(m map[ssa.Value]bool, v ssa.Value) {
			if !m[v] {
				m[v] = true
				changed = true
			}
		}
		for _, g := range fns {
			EachInstr(g, func(i ssa.Instruction) {
				switch x := i.(type) {
				case *ssa.ChangeType:
					if r.has(x.X) {
						add(r.vals, x)
					}
				case *ssa.MakeInterface:
					if r.has(x.X) {
						add(r.vals, x)
					}
				case *ssa.TypeAssert:
					if r.has(x.X) {
						if x.CommaOk {
							add(r.vals, x) // tuple; Extract #0 handled below
						} else {
							add(r.vals, x)
						}
					}
				case *ssa.Extract:
					if r.vals[x.Tuple] {
						if _, isTA := x.Tuple.(*ssa.TypeAssert); isTA && x.Index == 0 {
							add(r.vals, x)
						}
						if _, isCall := x.Tuple.(*ssa.Call); isCall && o.Spec.carrier(x.Type()) {
							add(r.vals, x)
						}
					}
				case *ssa.Phi:
					for _, e := range x.Edges {
						if r.has(e) {
							add(r.vals, x)
						}
					}
				case *ssa.UnOp:
					if x.Op == token.MUL && r.cells[x.X] {
						add(r.vals, x)
					}
					// load of the wrapped resource out of a carrier
					if x.Op == token.MUL && o.Spec.IsRes(x.Type()) {
						if fa, ok := x.X.(*ssa.FieldAddr); ok && r.has(fa.X) && o.Spec.carrier(fa.X.Type()) {
							add(r.vals, x)
						}
					}
				case *ssa.Field:
					if o.Spec.IsRes(x.Type()) && r.has(x.X) && o.Spec.carrier(x.X.Type()) {
						add(r.vals, x)
					}
				case *ssa.Call:
					// carrier constructed from the resource
					if touchesResource(x, r) {
						if o.Spec.carrier(x.Type()) {
							add(r.vals, x)
						} else if tup, ok := x.Type().(*types.Tuple); ok {
							for k := 0; k < tup.Len(); k++ {
								if o.Spec.carrier(tup.At(k).Type()) {
									add(r.vals, x)
								}
							}
						}
					}
				case *ssa.Store:
					if r.has(x.Val) {
						if al, ok := x.Addr.(*ssa.Alloc); ok && (o.Spec.IsRes(Deref(al.Type())) || o.Spec.carrier(Deref(al.Type()))) {
							add(r.cells, al)
						}
					}
				case *ssa.MakeClosure:
					fn := x.Fn.(*ssa.Function)
					for k, b := range x.Bindings {
						if r.cells[b] {
							add(r.cells, fn.FreeVars[k])
						}
					}
				}
			})
		}
	}
	return r
}

func (o *Own) eval(c *ownCfg, v ssa.Value) int8 {
	if b, ok := ConstBool(v); ok {
		if b {
			return 1
		}
		return 0
	}
	if IsNilConst(v) {
		return 0
	}
	if x, ok := c.vals[vkey{v, -1}]; ok {
		return x
	}
	switch x := v.(type) {
	case *ssa.UnOp:
		if x.Op == token.NOT {
			if e := o.eval(c, x.X); e >= 0 {
				if e == 0 {
					return 1
				}
				return 0
			}
		}
		if x.Op == token.MUL {
			if y, ok := c.vals[vkey{x.X, -2}]; ok { // cell contents
				return y
			}
			if g, ok := x.X.(*ssa.Global); ok && o.Spec.GlobalID != nil {
				if id := o.Spec.GlobalID(g); id >= 2 {
					return id
				}
			}
		}
	case *ssa.BinOp:
		if x.Op == token.EQL || x.Op == token.NEQ {
			l, r := x.X, x.Y
			if _, isC := l.(*ssa.Const); isC {
				l, r = r, l
			}
			want := int8(-1)
			if IsNilConst(r) {
				want = 0
			} else if b, ok := ConstBool(r); ok {
				if b {
					want = 1
				} else {
					want = 0
				}
			} else if k, ok := ConstInt(r); ok {
				// select index comparison
				if lv, ok2 := c.vals[vkey{l, -1}]; ok2 {
					eq := int64(lv) == k
					if (x.Op == token.EQL) == eq {
						return 1
					}
					return 0
				}
				return -1
			}
			if want >= 0 {
				if lv := o.eval(c, l); lv >= 0 {
					if lv > 1 {
						lv = 1
					}
					eq := lv == want
					if (x.Op == token.EQL) == eq {
						return 1
					}
					return 0
				}
			} else if rid := o.eval(c, r); rid >= 2 {
				// comparison with a specific package-level error value
				lv := o.eval(c, l)
				switch {
				case lv == 0 || (lv >= 2 && lv != rid):
					if x.Op == token.EQL {
						return 0
					}
					return 1
				case lv == rid:
					if x.Op == token.EQL {
						return 1
					}
					return 0
				}
			}
		}
	case *ssa.MakeInterface:
		if _, isC := x.X.(*ssa.Const); !isC {
			return 1 // a concrete non-nil-typed value boxed: non-nil interface
		}
	case *ssa.Call:
		if o.Spec.NonNilResult != nil && o.Spec.NonNilResult(x) {
			return 1
		}
	case *ssa.Extract:
		if y, ok := c.vals[vkey{x.Tuple, x.Index}]; ok {
			return y
		}
	}
	return -1
}

// assume records that cond evaluated to val on this path.
func (o *Own) assume(c *ownCfg, cond ssa.Value, val int8) {
	if _, isC := cond.(*ssa.Const); isC {
		return
	}
	c.vals[vkey{cond, -1}] = val
	switch x := cond.(type) {
	case *ssa.UnOp:
		if x.Op == token.NOT && val <= 1 {
			o.assume(c, x.X, 1-val)
		}
		if x.Op == token.MUL {
			if _, isG := x.X.(*ssa.Global); !isG {
				c.vals[vkey{x.X, -2}] = val
			}
		}
	case *ssa.BinOp:
		if x.Op == token.EQL || x.Op == token.NEQ {
			l, r := x.X, x.Y
			if _, isC := l.(*ssa.Const); isC {
				l, r = r, l
			}
			eq := (x.Op == token.EQL) == (val == 1)
			if IsNilConst(r) {
				if eq {
					o.assume(c, l, 0)
				} else {
					o.assume(c, l, 1)
				}
			} else if b, ok := ConstBool(r); ok {
				bv := int8(0)
				if b {
					bv = 1
				}
				if eq {
					o.assume(c, l, bv)
				} else {
					o.assume(c, l, 1-bv)
				}
			} else if k, ok := ConstInt(r); ok && eq && k >= -1 && k < 100 {
				if _, isSel := selectIndexSource(l); isSel {
					c.vals[vkey{l, -1}] = int8(k)
				}
			} else if rid := o.eval(c, r); rid >= 2 && eq {
				o.assume(c, l, rid)
			}
		}
	case *ssa.Extract:
		c.vals[vkey{x.Tuple, x.Index}] = val
	}
}

// relevant: the condition is (derived from) a value whose valuation can
// correlate with the resource's state: results of calls the resource was
// passed to, values already valued by a summary, flag / named-result cells,
// select indices. Conditions on anything else are not remembered, which keeps
// the number of path configurations small.
func (o *Own) relevant(c *ownCfg, res *resource, v ssa.Value, d int) bool {
	if d > 6 {
		return false
	}
	if _, ok := c.vals[vkey{v, -1}]; ok {
		return true
	}
	switch x := v.(type) {
	case *ssa.Extract:
		if _, ok := c.vals[vkey{x.Tuple, x.Index}]; ok {
			return true
		}
		switch t := x.Tuple.(type) {
		case *ssa.Call:
			return touchesResource(t, res) || o.returnsRes(t)
		case *ssa.Select:
			return true
		case *ssa.TypeAssert:
			return o.relevant(c, res, t.X, d+1)
		}
	case *ssa.Call:
		return touchesResource(x, res) || o.returnsRes(x)
	case *ssa.UnOp:
		if x.Op == token.NOT {
			return o.relevant(c, res, x.X, d+1)
		}
		if x.Op == token.MUL {
			switch x.X.(type) {
			case *ssa.Alloc, *ssa.FreeVar:
				return true
			}
		}
	case *ssa.BinOp:
		return o.relevant(c, res, x.X, d+1) || o.relevant(c, res, x.Y, d+1)
	case *ssa.Phi:
		for _, e := range x.Edges {
			if _, isC := e.(*ssa.Const); isC {
				continue
			}
			if o.relevant(c, res, e, d+1) {
				return true
			}
		}
	case *ssa.TypeAssert:
		return o.relevant(c, res, x.X, d+1)
	case *ssa.MakeInterface:
		return o.relevant(c, res, x.X, d+1)
	}
	return false
}

func selectIndexSource(v ssa.Value) (*ssa.Select, bool) {
	if e, ok := v.(*ssa.Extract); ok && e.Index == 0 {
		if s, ok := e.Tuple.(*ssa.Select); ok {
			return s, true
		}
	}
	return nil, false
}

// consume applies a consume event.
func (o *Own) consume(c *ownCfg, f *ssa.Function, i ssa.Instruction, res *resource, what string) {
	o.Consumes++
	if c.st&StConsumed != 0 {
		if os.Getenv("TCHK_DEBUG") != "" && o.quiet == 0 {
			fmt.Fprintf(os.Stderr, "double-consume at %v in %s cfg=%s\n", i, f, c.key())
		}
		note := what + " of a frame that may already have been handed back"
		if c.st&StAlias != 0 {
			note += " (an alias owner's release point is reachable between the hand-over and here)"
		}
		o.event("double-consume", f, i, res.root, note)
	}
	c.st = (c.st &^ StOwned) | StConsumed
}

type frame struct {
	f      *ssa.Function
	res    *resource
	inline bool
}

// runFunc analyses f for one resource from the given entry configs; returns the exit configs paired with their Return.
type exitCfg struct {
	cfg ownCfg
	ret *ssa.Return
}

func (o *Own) runFunc(f *ssa.Function, res *resource, entry []ownCfg, depth int) []exitCfg {
	o.Analysed++
	if len(f.Blocks) == 0 {
		var out []exitCfg
		for _, e := range entry {
			out = append(out, exitCfg{e, nil})
		}
		return out
	}
	in := map[*ssa.BasicBlock]map[string]ownCfg{}
	add := func(b *ssa.BasicBlock, c ownCfg) bool {
		// drop valuations of SSA values that are dead in b (their definition does not dominate b)
		for k := range c.vals {
			if ins, ok := k.v.(ssa.Instruction); ok && ins.Block() != nil && ins.Parent() == f {
				if !ins.Block().Dominates(b) {
					delete(c.vals, k)
				}
			}
		}
		m := in[b]
		if m == nil {
			m = map[string]ownCfg{}
			in[b] = m
		}
		k := c.key()
		if _, ok := m[k]; ok {
			return false
		}
		if len(m) >= 96 {
			// collapse: forget valuations, join states
			var st uint8
			for _, x := range m {
				st |= x.st
			}
			st |= c.st
			nc := ownCfg{st: st, vals: map[vkey]int8{}, defers: c.defers}
			for kk := range m {
				delete(m, kk)
			}
			m[nc.key()] = nc
			return true
		}
		m[k] = c
		return true
	}
	var work []*ssa.BasicBlock
	for _, e := range entry {
		add(f.Blocks[0], e.clone())
	}
	work = append(work, f.Blocks[0])
	var exits []exitCfg
	exitSeen := map[string]bool{}
	processed := map[*ssa.BasicBlock]map[string]bool{}
	steps := 0
	for len(work) > 0 {
		b := work[0]
		work = work[1:]
		steps++
		if steps > 5000 {
			break
		}
		if processed[b] == nil {
			processed[b] = map[string]bool{}
		}
		var keys []string
		for k := range in[b] {
			keys = append(keys, k)
		}
		sort.Strings(keys)
		for _, k := range keys {
			if processed[b][k] {
				continue
			}
			processed[b][k] = true
			cfgs := []ownCfg{in[b][k].clone()}
			for _, ins := range b.Instrs {
				var next []ownCfg
				for _, c := range cfgs {
					next = append(next, o.transfer(f, res, c, ins, depth)...)
				}
				cfgs = next
				if len(cfgs) == 0 {
					break
				}
			}
			if len(b.Instrs) == 0 {
				continue
			}
			last := b.Instrs[len(b.Instrs)-1]
			for _, c := range cfgs {
				switch t := last.(type) {
				case *ssa.Return:
					ek := fmt.Sprintf("%p|%s", t, c.key())
					if !exitSeen[ek] {
						exitSeen[ek] = true
						exits = append(exits, exitCfg{c, t})
					}
				case *ssa.Panic:
				case *ssa.If:
					ev := o.eval(&c, t.Cond)
					for si, s := range b.Succs {
						want := int8(1 - si)
						if ev >= 0 && ev != want {
							continue
						}
						nc := c.clone()
						if ev < 0 && o.relevant(&nc, res, t.Cond, 0) {
							o.assume(&nc, t.Cond, want)
						}
						o.phis(&nc, b, s)
						if add(s, nc) {
							work = append(work, s)
						}
					}
				default:
					for _, s := range b.Succs {
						nc := c.clone()
						o.phis(&nc, b, s)
						if add(s, nc) {
							work = append(work, s)
						}
					}
				}
			}
		}
	}
	return exits
}

func (o *Own) phis(c *ownCfg, from, to *ssa.BasicBlock) {
	idx := -1
	for k, p := range to.Preds {
		if p == from {
			idx = k
		}
	}
	type upd struct {
		k vkey
		v int8
	}
	var ups []upd
	for _, i := range to.Instrs {
		phi, ok := i.(*ssa.Phi)
		if !ok {
			break
		}
		ups = append(ups, upd{vkey{phi, -1}, o.eval(c, phi.Edges[idx])})
	}
	for _, u := range ups {
		if u.v >= 0 {
			c.vals[u.k] = u.v
		} else {
			delete(c.vals, u.k)
		}
	}
}

// transfer applies one instruction to one config, possibly forking.
// isView: v denotes memory of the resource itself rather than a copy: a
// []byte obtained from it (field load, method result, sub-slice), or a buffer
// object that wraps such a slice (x.Wrap(view), NewX(view)). Reading through
// a view after the resource was handed back is a use of the resource.
func (res *resource) isView(v ssa.Value, depth int) bool {
	if v == nil || depth > 6 {
		return false
	}
	isBytes := func(t types.Type) bool {
		sl, ok := t.Underlying().(*types.Slice)
		if !ok {
			return false
		}
		b, ok := sl.Elem().Underlying().(*types.Basic)
		return ok && b.Kind() == types.Uint8
	}
	switch x := v.(type) {
	case *ssa.Slice:
		return res.isView(x.X, depth+1)
	case *ssa.UnOp:
		if x.Op == token.MUL {
			if fa, ok := x.X.(*ssa.FieldAddr); ok && res.has(fa.X) && isBytes(x.Type()) {
				return true
			}
		}
	case *ssa.Call:
		args := x.Call.Args
		if x.Call.IsInvoke() {
			return false
		}
		if len(args) > 0 && res.has(args[0]) && isBytes(x.Type()) && x.Call.StaticCallee() != nil && x.Call.StaticCallee().Signature.Recv() != nil {
			return true // method of the resource returning bytes (SizedPayload)
		}
		// constructor of a wrapper over a view
		if _, isPtr := x.Type().Underlying().(*types.Pointer); isPtr {
			for _, a := range args {
				if isBytes(a.Type()) && res.isView(a, depth+1) {
					return true
				}
			}
		}
	case *ssa.Alloc:
		// a local buffer object on which a method was called with a view (rbuf.Wrap(view))
		if x.Referrers() == nil {
			return false
		}
		for _, ref := range *x.Referrers() {
			c, ok := ref.(*ssa.Call)
			if !ok || c.Call.IsInvoke() || len(c.Call.Args) < 2 || c.Call.Args[0] != ssa.Value(x) {
				continue
			}
			for _, a := range c.Call.Args[1:] {
				if isBytes(a.Type()) && res.isView(a, depth+1) {
					return true
				}
			}
		}
	}
	return false
}

func (o *Own) transfer(f *ssa.Function, res *resource, c ownCfg, ins ssa.Instruction, depth int) []ownCfg {
	one := func() []ownCfg { return []ownCfg{c} }
	if c.st&StConsumed != 0 {
		if _, isDbg := ins.(*ssa.DebugRef); !isDbg {
			var ops []*ssa.Value
			for _, op := range ins.Operands(ops) {
				if op == nil || *op == nil || res.has(*op) {
					continue
				}
				if _, isCall := ins.(ssa.CallInstruction); !isCall {
					if _, isIdx := ins.(*ssa.IndexAddr); !isIdx {
						if _, isSl := ins.(*ssa.Slice); !isSl {
							continue // only reads through the view matter: calls, indexing, re-slicing
						}
					}
				}
				if res.isView(*op, 0) {
					o.event("use-after-consume", f, ins, res.root, "use of the frame's payload through a view ("+(*op).Name()+") after the frame may have been handed back")
					break
				}
			}
		}
	}
	// a call that returns a resource: fork on the callee's (resource nil?, error nil?) outcomes
	if cl, isCall := ins.(*ssa.Call); isCall && o.returnsRes(cl) && !touchesResource(cl, res) {
		if _, done := c.vals[vkey{cl, -4}]; !done {
			outs := o.retOutcomes(cl, depth)
			if len(outs) > 0 {
				var forked []ownCfg
				seen := map[string]bool{}
				for _, oc := range outs {
					nc := c.clone()
					nc.vals[vkey{cl, -4}] = 1
					for ri, rv := range oc {
						key := vkey{cl, ri}
						if len(oc) == 1 {
							key = vkey{cl, -1}
						}
						if rv >= 0 {
							nc.vals[key] = rv
						} else {
							delete(nc.vals, key)
						}
					}
					for _, r2 := range o.transfer(f, res, nc, ins, depth) {
						delete(r2.vals, vkey{cl, -4})
						if k := r2.key(); !seen[k] {
							seen[k] = true
							forked = append(forked, r2)
						}
					}
				}
				return forked
			}
		}
	}
	if v, ok := ins.(ssa.Value); ok && v == res.root && res.fresh {
		// (re)acquisition: a still-owned previous instance is a leak
		if c.st&StOwned != 0 && c.st&(StEscaped|StAlias) == 0 {
			o.event("leak", f, ins, res.root, "a previously acquired frame is still owned when the next one is acquired")
		}
		c.st = StOwned
		if nv, known := c.vals[vkey{v, -1}]; known && nv == 0 {
			c.st = 0 // callee returned no resource on this path
		}
		if e, isE := v.(*ssa.Extract); isE {
			if nv, known := c.vals[vkey{e.Tuple, e.Index}]; known && nv == 0 {
				c.st = 0
			}
		}
		return one()
	}
	switch x := ins.(type) {
	case *ssa.DebugRef, *ssa.Phi, *ssa.ChangeType, *ssa.MakeInterface, *ssa.TypeAssert, *ssa.If, *ssa.Jump:
		return one()
	case *ssa.Extract:
		if v, ok := c.vals[vkey{x.Tuple, x.Index}]; ok {
			c.vals[vkey{x, -1}] = v
		}
		if s, ok := x.Tuple.(*ssa.Select); ok && x.Index == 0 {
			if v, ok := c.vals[vkey{s, -1}]; ok {
				c.vals[vkey{x, -1}] = v
			}
		}
		return one()
	case *ssa.UnOp:
		if x.Op == token.MUL {
			if v, ok := c.vals[vkey{x.X, -2}]; ok {
				c.vals[vkey{x, -1}] = v
			}
			if res.cells[x.X] {
				return one() // load of the resource cell: plumbing
			}
		}
		return one()
	case *ssa.Store:
		// valuation of cells (named results, flags)
		if _, isAlloc := x.Addr.(*ssa.Alloc); isAlloc || isFreeVar(x.Addr) {
			if ev := o.eval(&c, x.Val); ev >= 0 {
				c.vals[vkey{x.Addr, -2}] = ev
			} else {
				delete(c.vals, vkey{x.Addr, -2})
			}
		}
		if res.has(x.Val) {
			if res.cells[x.Addr] {
				return one() // spill into its own cell
			}
			o.use(&c, f, ins, res, "store")
			c.st |= StEscaped
		}
		return one()
	case *ssa.Send:
		if res.has(x.X) {
			o.consume(&c, f, ins, res, "channel send")
		}
		return one()
	case *ssa.Select:
		var out []ownCfg
		n := len(x.States)
		for k := -1; k < n; k++ {
			if k == -1 && x.Blocking {
				continue
			}
			nc := c.clone()
			nc.vals[vkey{x, -1}] = int8(k)
			if k >= 0 {
				st := x.States[k]
				if st.Dir == types.SendOnly && res.has(st.Send) {
					o.consume(&nc, f, ins, res, "channel send (select arm)")
				}
			}
			out = append(out, nc)
		}
		return out
	case *ssa.Defer:
		if touchesResource(x, res) || closureTouches(x.Call.Value, res) {
			c.defers = append(c.defers, ins)
		}
		return one()
	case *ssa.RunDefers:
		cfgs := []ownCfg{c}
		for k := len(c.defers) - 1; k >= 0; k-- {
			d := c.defers[k].(*ssa.Defer)
			var next []ownCfg
			for _, cc := range cfgs {
				next = append(next, o.call(f, res, cc, d, d.Common(), depth)...)
			}
			cfgs = next
		}
		for i := range cfgs {
			cfgs[i].defers = nil
		}
		return cfgs
	case *ssa.Go:
		used := false
		for _, a := range CallArgs(x) {
			if res.has(a) {
				used = true
			}
		}
		if used {
			o.SiteState[ins] |= c.st
			o.consume(&c, f, ins, res, "hand-over to a new goroutine")
			return one()
		}
		if closureTouches(x.Call.Value, res) {
			c.st |= StEscaped
		}
		return one()
	case *ssa.Call:
		return o.call(f, res, c, x, x.Common(), depth)
	case *ssa.Return:
		for _, rv := range ReturnValues(x) {
			if res.has(rv) {
				o.use(&c, f, ins, res, "return")
				c.st |= StEscaped
			}
		}
		return one()
	case *ssa.MakeClosure:
		return one()
	default:
		// any other instruction with the resource as operand is a use
		var ops []*ssa.Value
		for _, op := range ins.Operands(ops) {
			if op != nil && *op != nil && res.has(*op) {
				if _, isLoad := (*op).(*ssa.UnOp); isLoad || res.vals[*op] {
					o.use(&c, f, ins, res, "use")
					break
				}
			}
		}
		return one()
	}
}

func isFreeVar(v ssa.Value) bool { _, ok := v.(*ssa.FreeVar); return ok }

func touchesResource(c ssa.CallInstruction, res *resource) bool {
	for _, a := range CallArgs(c) {
		if res.has(a) {
			return true
		}
	}
	return false
}

// closureTouches: v is a closure that captured a resource cell.
func closureTouches(v ssa.Value, res *resource) bool {
	mc, ok := v.(*ssa.MakeClosure)
	if !ok {
		return false
	}
	for _, b := range mc.Bindings {
		if res.cells[b] {
			return true
		}
	}
	return false
}

func (o *Own) use(c *ownCfg, f *ssa.Function, i ssa.Instruction, res *resource, what string) {
	if c.st&StConsumed != 0 {
		note := what + " of a frame after it may have been handed back"
		if c.st&StAlias != 0 {
			note += " (possibly through its alias owner)"
		}
		o.event("use-after-consume", f, i, res.root, note)
	}
}

// call handles Call / deferred call instructions.
func (o *Own) call(f *ssa.Function, res *resource, c ownCfg, ins ssa.Instruction, cc *ssa.CallCommon, depth int) []ownCfg {
	ci := ins.(ssa.CallInstruction)
	one := func() []ownCfg { return []ownCfg{c} }
	args := CallArgs(ci)
	touch := false
	for _, a := range args {
		if res.has(a) {
			touch = true
		}
	}
	// alias owner may release behind our back
	if c.st&StAlias != 0 && c.st&StOwned != 0 && !touch && o.Spec.MayReleaseAlias != nil && o.Spec.MayReleaseAlias(ci) {
		if os.Getenv("TCHK_DEBUG") != "" {
			fmt.Fprintf(os.Stderr, "alias-release via %v in %s\n", ins, f)
		}
		c.st |= StConsumed
	}
	if b, ok := cc.Value.(*ssa.Builtin); ok {
		_ = b
		return one()
	}
	// explicit release
	if v, ok := o.Spec.IsRelease(ci); ok {
		if res.has(v) {
			o.consume(&c, f, ins, res, "release")
		}
		return one()
	}
	if v, ok := o.Spec.IsAlias(ci); ok && res.has(v) {
		o.use(&c, f, ins, res, "parse")
		o.SiteState[ins] |= c.st
		c.st |= StAlias
		return one()
	}
	// closure invoked directly, capturing the resource cell
	if mc, ok := cc.Value.(*ssa.MakeClosure); ok && closureTouches(mc, res) {
		return o.inlineClosure(f, res, c, ins, mc, depth)
	}
	// closure passed to a once-wrapper
	if callee := cc.StaticCallee(); callee != nil && o.Spec.OnceWrapper != nil {
		if idx, ok := o.Spec.OnceWrapper(callee); ok && idx < len(cc.Args) {
			if mc, ok := cc.Args[idx].(*ssa.MakeClosure); ok && closureTouches(mc, res) {
				return o.inlineClosure(f, res, c, ins, mc, depth)
			}
		}
	}
	// closure passed elsewhere: may consume an unknown number of times
	for _, a := range cc.Args {
		if mc, ok := a.(*ssa.MakeClosure); ok && closureTouches(mc, res) {
			c.st |= StEscaped
			return one()
		}
	}
	if !touch {
		return one()
	}
	// resource passed as an argument
	o.SiteState[ins] |= c.st
	o.use(&c, f, ins, res, "pass to "+calleeName(ci))
	var targets []*ssa.Function
	for _, t := range o.P.Callees(ci) {
		if t.Blocks != nil && o.P.InAnalysed(t) {
			targets = append(targets, t)
		}
	}
	if len(targets) == 0 {
		return one() // external or unresolved: borrowed
	}
	var out []ownCfg
	seen := map[string]bool{}
	for _, t := range targets {
		for ai, a := range args {
			if !res.has(a) {
				continue
			}
			if ai >= len(t.Params) {
				continue
			}
			for _, oc := range o.Summary(t, ai, c.st&(StOwned|StConsumed|StAlias), depth+1) {
				nc := c.clone()
				nc.st = (c.st &^ (StOwned | StConsumed | StAlias)) | (oc.St & (StOwned | StConsumed | StAlias)) | (oc.St & StEscaped)
				v := ci.Value()
				if v != nil {
					for ri, rv := range oc.Res {
						if len(oc.Res) == 1 {
							if rv >= 0 {
								nc.vals[vkey{v, -1}] = rv
							} else {
								delete(nc.vals, vkey{v, -1})
							}
						} else {
							if rv >= 0 {
								nc.vals[vkey{v, ri}] = rv
							} else {
								delete(nc.vals, vkey{v, ri})
							}
						}
					}
				}
				k := nc.key()
				if !seen[k] {
					seen[k] = true
					out = append(out, nc)
				}
			}
		}
	}
	if len(out) == 0 {
		return one()
	}
	return out
}

func calleeName(c ssa.CallInstruction) string {
	if o := CalleeObj(c); o != nil {
		return ShortKey(o)
	}
	return "function value"
}

// inlineClosure analyses the closure body in place with the caller's config.
func (o *Own) inlineClosure(f *ssa.Function, res *resource, c ownCfg, ins ssa.Instruction, mc *ssa.MakeClosure, depth int) []ownCfg {
	if depth > 6 {
		c.st |= StConsumed | StOwned
		return []ownCfg{c}
	}
	fn := mc.Fn.(*ssa.Function)
	// translate cell valuations: parent's Alloc -> closure's FreeVar
	ent := c.clone()
	ent.defers = nil
	for k, b := range mc.Bindings {
		if v, ok := c.vals[vkey{b, -2}]; ok {
			ent.vals[vkey{fn.FreeVars[k], -2}] = v
		}
	}
	exits := o.runFunc(fn, res, []ownCfg{ent}, depth+1)
	var out []ownCfg
	seen := map[string]bool{}
	ci := ins.(ssa.CallInstruction)
	for _, e := range exits {
		nc := c.clone()
		nc.st = e.cfg.st
		// cells written by the closure propagate back
		for k, b := range mc.Bindings {
			if v, ok := e.cfg.vals[vkey{fn.FreeVars[k], -2}]; ok {
				nc.vals[vkey{b, -2}] = v
			} else {
				delete(nc.vals, vkey{b, -2})
			}
		}
		if e.ret != nil {
			if v := ci.Value(); v != nil {
				rvs := ReturnValues(e.ret)
				for ri, rv := range rvs {
					ec := e.cfg
					ev := o.eval(&ec, rv)
					key := vkey{v, ri}
					if len(rvs) == 1 {
						key = vkey{v, -1}
					}
					if ev >= 0 {
						nc.vals[key] = ev
					} else {
						delete(nc.vals, key)
					}
				}
			}
		}
		k := nc.key()
		if !seen[k] {
			seen[k] = true
			out = append(out, nc)
		}
	}
	if len(out) == 0 {
		return []ownCfg{c}
	}
	return out
}

// Summary returns the outcomes of callee g for its parameter #idx entered in state st.
func (o *Own) Summary(g *ssa.Function, idx int, st uint8, depth int) []OwnOutcome {
	key := fmt.Sprintf("%s|%d|%d", g.String(), idx, st)
	if s, ok := o.sums[key]; ok {
		return s
	}
	borrow := []OwnOutcome{{Res: unknownRes(g), St: st}}
	if o.inProg[key] || depth > 12 {
		return borrow
	}
	o.inProg[key] = true
	defer delete(o.inProg, key)
	prm := g.Params[idx]
	res := o.closeResource(g, prm, false)
	// entry: if the param is spilled to a cell the first store handles it
	o.quiet++ // events inside summaries are reported when the function is analysed as a root
	exits := o.runFunc(g, res, []ownCfg{{st: st, vals: map[vkey]int8{}}}, depth)
	o.quiet--
	var outs []OwnOutcome
	seen := map[string]bool{}
	for _, e := range exits {
		oc := OwnOutcome{St: e.cfg.st, Ret: e.ret}
		if e.ret != nil {
			for _, rv := range ReturnValues(e.ret) {
				ec := e.cfg
				oc.Res = append(oc.Res, o.eval(&ec, rv))
			}
		}
		k := fmt.Sprintf("%v|%d", oc.Res, oc.St)
		if !seen[k] {
			seen[k] = true
			outs = append(outs, oc)
		}
	}
	if len(outs) == 0 {
		outs = borrow
	}
	// Normalise: if some exit with result valuation R hands the resource on, R means
	// "handed on"; exits with the same R that keep it are leaks inside the callee
	// (recorded; judged by the leak rule), not the caller's business.
	consumedFor := map[string]bool{}
	for _, oc := range outs {
		if oc.St&StConsumed != 0 && oc.St&StOwned == 0 {
			consumedFor[fmt.Sprint(oc.Res)] = true
		}
	}
	var norm []OwnOutcome
	nseen := map[string]bool{}
	for _, oc := range outs {
		if consumedFor[fmt.Sprint(oc.Res)] && oc.St&StOwned != 0 && oc.St&StConsumed == 0 {
			if o.CalleeLeaks == nil {
				o.CalleeLeaks = map[string]*ssa.Return{}
			}
			if oc.Ret != nil {
				o.CalleeLeaks[fmt.Sprintf("%s|%p", g.String(), oc.Ret)] = oc.Ret
			}
			oc.St = (oc.St &^ StOwned) | StConsumed
		}
		k := fmt.Sprintf("%v|%d", oc.Res, oc.St)
		if !nseen[k] {
			nseen[k] = true
			norm = append(norm, oc)
		}
	}
	outs = norm
	if os.Getenv("TCHK_DEBUG") != "" {
		fmt.Fprintf(os.Stderr, "summary %s:", key)
		for _, oc := range outs {
			fmt.Fprintf(os.Stderr, " (%v,%d)", oc.Res, oc.St)
		}
		fmt.Fprintln(os.Stderr)
	}
	o.sums[key] = outs
	return outs
}

func unknownRes(g *ssa.Function) []int8 {
	n := g.Signature.Results().Len()
	r := make([]int8, n)
	for i := range r {
		r[i] = -1
	}
	return r
}

// Root describes a resource root in a function.
type OwnRoot struct {
	Fn     *ssa.Function
	Root   ssa.Value
	IsCell bool
	Kind   string // param | acquire | recv | call | field
	Init   uint8
}

// Roots enumerates the resource roots of f.
func (o *Own) Roots(f *ssa.Function, isAcquire func(ssa.CallInstruction) bool) []OwnRoot {
	var out []OwnRoot
	for k, p := range f.Params {
		if o.Spec.IsRes(p.Type()) || o.Spec.carrier(p.Type()) {
			st := StOwned
			if fl, ok := o.EntryFlags[f]; ok {
				st |= fl[k]
			}
			out = append(out, OwnRoot{f, p, false, "param", st})
		}
	}
	seenPath := map[string]bool{}
	EachInstr(f, func(i ssa.Instruction) {
		switch x := i.(type) {
		case *ssa.Call:
			if x.Call.IsInvoke() || x.Call.StaticCallee() != nil || true {
				t := x.Type()
				if o.Spec.IsRes(t) {
					kind := "call"
					if isAcquire(x) {
						kind = "acquire"
					}
					out = append(out, OwnRoot{f, x, false, kind, StOwned})
				}
			}
		case *ssa.Extract:
			if o.Spec.IsRes(x.Type()) {
				switch x.Tuple.(type) {
				case *ssa.Call:
					out = append(out, OwnRoot{f, x, false, "call", StOwned})
				case *ssa.Select:
					out = append(out, OwnRoot{f, x, false, "recv", StOwned})
				case *ssa.UnOp:
					out = append(out, OwnRoot{f, x, false, "recv", StOwned})
				}
			}
		case *ssa.UnOp:
			if x.Op == token.ARROW && o.Spec.IsRes(x.Type()) {
				out = append(out, OwnRoot{f, x, false, "recv", StOwned})
			}
			if x.Op == token.MUL && o.Spec.IsRes(x.Type()) {
				if _, isFA := x.X.(*ssa.FieldAddr); isFA {
					path := AccessPath(x.X)
					if !seenPath[path] {
						seenPath[path] = true
						out = append(out, OwnRoot{f, x, false, "field", StOwned})
					}
				}
			}
		case *ssa.TypeAssert:
			if o.Spec.IsRes(x.AssertedType) && !x.CommaOk {
				if LoadedField(x.X) != nil {
					out = append(out, OwnRoot{f, x, false, "field", StOwned})
				}
			}
		case *ssa.Field:
			if o.Spec.IsRes(x.Type()) {
				out = append(out, OwnRoot{f, x, false, "field", StOwned})
			}
		}
	})
	return out
}

// OwnResult is the outcome of analysing one root.
type OwnResult struct {
	Root  OwnRoot
	Exits []OwnOutcome
}

// AnalyseRoot runs the analysis of one root and reports events and exit states.
func (o *Own) AnalyseRoot(r OwnRoot) OwnResult {
	res := o.closeResource(r.Fn, r.Root, r.IsCell)
	entry := ownCfg{st: r.Init, vals: map[vkey]int8{}}
	if r.Kind == "acquire" || r.Kind == "recv" || r.Kind == "call" {
		res.fresh = true
		entry.st = 0
	}
	exits := o.runFunc(r.Fn, res, []ownCfg{entry}, 0)
	out := OwnResult{Root: r}
	for _, e := range exits {
		oc := OwnOutcome{St: e.cfg.st, Ret: e.ret}
		if e.ret != nil {
			for _, rv := range ReturnValues(e.ret) {
				ec := e.cfg
				oc.Res = append(oc.Res, o.eval(&ec, rv))
			}
		}
		out.Exits = append(out.Exits, oc)
	}
	return out
}

// returnsRes: the call's result (or one element of its result tuple) is a resource.
func (o *Own) returnsRes(c *ssa.Call) bool {
	t := c.Type()
	if o.Spec.IsRes(t) {
		return true
	}
	if tup, ok := t.(*types.Tuple); ok {
		for k := 0; k < tup.Len(); k++ {
			if o.Spec.IsRes(tup.At(k).Type()) {
				return true
			}
		}
	}
	return false
}

// retOutcomes: the possible nil-ness valuations of the results of the callee(s) of c.
func (o *Own) retOutcomes(c *ssa.Call, depth int) [][]int8 {
	if depth > 8 {
		return nil
	}
	var out [][]int8
	seen := map[string]bool{}
	for _, g := range o.P.Callees(c) {
		if g.Blocks == nil || !o.P.InAnalysed(g) {
			return nil // unknown callee: no correlation
		}
		key := "ret|" + g.String()
		if o.inProg[key] {
			return nil
		}
		var rows [][]int8
		if cached, ok := o.retSums[key]; ok {
			rows = cached
		} else {
			o.inProg[key] = true
			o.quiet++
			dummy := &resource{vals: map[ssa.Value]bool{}, cells: map[ssa.Value]bool{}}
			exits := o.runFunc(g, dummy, []ownCfg{{vals: map[vkey]int8{}}}, depth+1)
			o.quiet--
			delete(o.inProg, key)
			for _, e := range exits {
				if e.ret == nil {
					continue
				}
				var row []int8
				for _, rv := range ReturnValues(e.ret) {
					ec := e.cfg
					v := o.eval(&ec, rv)
					if v < 0 && o.Spec.IsRes(rv.Type()) {
						v = 1 // an unknown resource value is a resource
					}
					row = append(row, v)
				}
				rows = append(rows, row)
			}
			if o.retSums == nil {
				o.retSums = map[string][][]int8{}
			}
			o.retSums[key] = rows
		}
		for _, row := range rows {
			k := fmt.Sprint(row)
			if !seen[k] {
				seen[k] = true
				out = append(out, row)
			}
		}
	}
	return out
}
