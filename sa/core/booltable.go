package core

import (
	"go/token"

	"golang.org/x/tools/go/ssa"
)

// BoolAtom is an input of a small pure boolean function: a parameter
// (Field == "") or a field loaded from a parameter (receiver) value.
type BoolAtom struct {
	Param int
	Field string
}

// BoolTable extracts, without running it, the truth table of a loop-free
// function whose single bool result depends only on bool parameters and bool
// fields of its parameters: for every assignment of the atoms the CFG is
// walked choosing each branch from the assignment. ok=false when the function
// uses anything else (calls, stores, other value kinds).
func BoolTable(g *ssa.Function) (atoms []BoolAtom, eval func(assign map[BoolAtom]bool) (bool, bool), ok bool) {
	if g == nil || len(g.Blocks) == 0 || g.Signature.Results().Len() != 1 {
		return nil, nil, false
	}
	atomOf := func(v ssa.Value) (BoolAtom, bool) {
		switch x := v.(type) {
		case *ssa.Parameter:
			for k, p := range g.Params {
				if p == x {
					return BoolAtom{k, ""}, true
				}
			}
		case *ssa.UnOp:
			if x.Op == token.MUL {
				if fa, isFA := x.X.(*ssa.FieldAddr); isFA {
					if pr, isP := fa.X.(*ssa.Parameter); isP {
						for k, p := range g.Params {
							if p == pr {
								return BoolAtom{k, FieldOfAddr(fa).Name()}, true
							}
						}
					}
				}
			}
		case *ssa.Field:
			if pr, isP := x.X.(*ssa.Parameter); isP {
				for k, p := range g.Params {
					if p == pr {
						return BoolAtom{k, FieldOfField(x).Name()}, true
					}
				}
			}
		}
		return BoolAtom{}, false
	}
	seen := map[BoolAtom]bool{}
	pure := true
	EachInstr(g, func(i ssa.Instruction) {
		switch x := i.(type) {
		case *ssa.If, *ssa.Jump, *ssa.Return, *ssa.Phi, *ssa.FieldAddr, *ssa.Field, *ssa.DebugRef:
		case *ssa.UnOp:
			if x.Op != token.MUL && x.Op != token.NOT {
				pure = false
			}
		default:
			pure = false
		}
		if v, isV := i.(ssa.Value); isV {
			if a, isA := atomOf(v); isA && !seen[a] {
				seen[a] = true
				atoms = append(atoms, a)
			}
		}
	})
	for k, p := range g.Params {
		if len(*p.Referrers()) > 0 {
			if a := (BoolAtom{k, ""}); !seen[a] {
				if b, isB := p.Type().Underlying().(interface{ Kind() int }); isB {
					_ = b
				}
			}
		}
	}
	// bool parameters used directly
	EachInstr(g, func(i ssa.Instruction) {
		for _, op := range i.Operands(nil) {
			if op == nil || *op == nil {
				continue
			}
			if pr, isP := (*op).(*ssa.Parameter); isP {
				if _, isFA := i.(*ssa.FieldAddr); isFA {
					continue
				}
				if _, isF := i.(*ssa.Field); isF {
					continue
				}
				if a, isA := atomOf(pr); isA && !seen[a] {
					seen[a] = true
					atoms = append(atoms, a)
				}
			}
		}
	})
	if !pure {
		return nil, nil, false
	}
	eval = func(assign map[BoolAtom]bool) (bool, bool) {
		var val func(v ssa.Value, from *ssa.BasicBlock, at *ssa.BasicBlock) (bool, bool)
		val = func(v ssa.Value, from *ssa.BasicBlock, at *ssa.BasicBlock) (bool, bool) {
			if a, isA := atomOf(v); isA {
				b, has := assign[a]
				return b, has
			}
			switch x := v.(type) {
			case *ssa.Const:
				if x.Value == nil {
					return false, false
				}
				return x.Value.String() == "true", true
			case *ssa.UnOp:
				if x.Op == token.NOT {
					b, o := val(x.X, from, at)
					return !b, o
				}
			case *ssa.Phi:
				for k, pb := range x.Block().Preds {
					if pb == from {
						return val(x.Edges[k], nil, nil)
					}
				}
			}
			return false, false
		}
		// phi values depend on the edge taken: track the predecessor per block
		cur, prev := g.Blocks[0], (*ssa.BasicBlock)(nil)
		phiVal := map[*ssa.Phi]bool{}
		get := func(v ssa.Value) (bool, bool) {
			if ph, isPhi := v.(*ssa.Phi); isPhi {
				b, has := phiVal[ph]
				return b, has
			}
			if u, isU := v.(*ssa.UnOp); isU && u.Op == token.NOT {
				if ph, isPhi := u.X.(*ssa.Phi); isPhi {
					b, has := phiVal[ph]
					return !b, has
				}
			}
			return val(v, nil, nil)
		}
		for steps := 0; steps < 64; steps++ {
			for _, i := range cur.Instrs {
				if ph, isPhi := i.(*ssa.Phi); isPhi {
					for k, pb := range cur.Preds {
						if pb == prev {
							if b, o := get(ph.Edges[k]); o {
								phiVal[ph] = b
							}
						}
					}
				}
			}
			switch t := cur.Instrs[len(cur.Instrs)-1].(type) {
			case *ssa.Return:
				return get(t.Results[0])
			case *ssa.Jump:
				prev, cur = cur, cur.Succs[0]
			case *ssa.If:
				b, o := get(t.Cond)
				if !o {
					return false, false
				}
				if b {
					prev, cur = cur, cur.Succs[0]
				} else {
					prev, cur = cur, cur.Succs[1]
				}
			default:
				return false, false
			}
		}
		return false, false
	}
	return atoms, eval, true
}
