package core

import (
	"bufio"
	"encoding/json"
	"fmt"
	"os"
	"path/filepath"
	"sort"
	"strings"
	"time"
)

// Status of one obligation.
type Status string

const (
	OK        Status = "discharged"
	Violated  Status = "violated"
	Undecided Status = "undecided"
)

// Obligation is one unit of static evidence: rule instance at a construct.
type Obligation struct {
	Rule      string `json:"rule"`
	Function  string `json:"function"`
	Construct string `json:"construct"`
	Pos       string `json:"pos"`
	Status    Status `json:"status"`
	How       string `json:"how,omitempty"` // discharge idiom or reason for failure
	Trivial   bool   `json:"-"`
	Known     bool   `json:"known_finding,omitempty"`
}

// RuleStat aggregates per rule.
type RuleStat struct {
	Rule       string `json:"rule"`
	Engine     string `json:"engine"`
	Instances  int    `json:"instances"`
	Floor      int    `json:"floor"`
	Discharged int    `json:"discharged"`
	Doc        string `json:"doc,omitempty"`
}

// Report collects obligations for one property run.
type Report struct {
	Property    string
	Tier        string
	Obls        []Obligation
	rules       map[string]*RuleStat
	order       []string
	Errors      []string // cannot-decide conditions (unresolved anchors, floors)
	Extra       map[string]interface{}
	Explain     string
	NotDecided  string
	Assumptions []string
	Stats       map[string]int
	Start       time.Time
	alias       map[string]string
	// Filter, when set, drops obligations it rejects (used while a rule body
	// shared with another property runs, to keep only the relevant part).
	Filter func(Obligation) bool
}

// Alias makes obligations recorded under rule `from` count under rule `to`
// (a rule body shared between two properties); Alias(from, "") ends it.
func (r *Report) Alias(from, to string) {
	if r.alias == nil {
		r.alias = map[string]string{}
	}
	if to == "" {
		delete(r.alias, from)
		return
	}
	r.alias[from] = to
}

// NewReport starts a report.
func NewReport(prop, tier string) *Report {
	return &Report{Property: prop, Tier: tier, rules: map[string]*RuleStat{}, Extra: map[string]interface{}{}, Stats: map[string]int{}, Start: time.Now()}
}

// Rule declares a rule with its engine, instance floor and one-line doc.
func (r *Report) Rule(id, engine string, floor int, doc string) {
	if _, ok := r.rules[id]; !ok {
		r.rules[id] = &RuleStat{Rule: id, Engine: engine, Floor: floor, Doc: doc}
		r.order = append(r.order, id)
	}
}

func (r *Report) add(o Obligation) {
	if r.Filter != nil && !r.Filter(o) {
		return
	}
	if a, ok := r.alias[o.Rule]; ok {
		o.Rule = a
	}
	st := r.rules[o.Rule]
	if st == nil {
		r.Rule(o.Rule, "?", 0, "")
		st = r.rules[o.Rule]
	}
	st.Instances++
	if o.Status == OK {
		st.Discharged++
	}
	r.Obls = append(r.Obls, o)
}

// Ok records a discharged obligation.
func (r *Report) Ok(rule, fn, construct, pos, how string) {
	r.add(Obligation{Rule: rule, Function: fn, Construct: construct, Pos: pos, Status: OK, How: how})
}

// OkTrivial records a discharged obligation that needed no guard/summary.
func (r *Report) OkTrivial(rule, fn, construct, pos, how string) {
	r.add(Obligation{Rule: rule, Function: fn, Construct: construct, Pos: pos, Status: OK, How: how, Trivial: true})
}

// Fail records a violated obligation.
func (r *Report) Fail(rule, fn, construct, pos, why string) {
	r.add(Obligation{Rule: rule, Function: fn, Construct: construct, Pos: pos, Status: Violated, How: why})
}

// Undecided records an obligation the analysis could not decide (fails the check as ERROR).
func (r *Report) Undecided(rule, fn, construct, pos, why string) {
	r.add(Obligation{Rule: rule, Function: fn, Construct: construct, Pos: pos, Status: Undecided, How: why})
}

// Check is Ok/Fail by condition.
func (r *Report) Check(cond bool, rule, fn, construct, pos, okHow, failWhy string) bool {
	if cond {
		r.Ok(rule, fn, construct, pos, okHow)
	} else {
		r.Fail(rule, fn, construct, pos, failWhy)
	}
	return cond
}

// Errorf records a cannot-decide condition.
func (r *Report) Errorf(format string, a ...interface{}) {
	r.Errors = append(r.Errors, fmt.Sprintf(format, a...))
}

// Finding is one line of KNOWN_FINDINGS.jsonl.
type Finding struct {
	Status    string `json:"status"` // finding | fixed
	Property  string `json:"property"`
	Rule      string `json:"rule"`
	Function  string `json:"function"`
	Construct string `json:"construct"`
	What      string `json:"what"`
	Commit    string `json:"commit,omitempty"`
}

// VerifDir is where MANIFEST, evidence and findings live.
func VerifDir() string {
	if d := os.Getenv("TCHK_VERIF"); d != "" {
		return d
	}
	return "/verif"
}

// LoadFindings reads KNOWN_FINDINGS.jsonl (never written at run time).
func LoadFindings() ([]Finding, error) {
	f, err := os.Open(filepath.Join(VerifDir(), "KNOWN_FINDINGS.jsonl"))
	if err != nil {
		if os.IsNotExist(err) {
			return nil, nil
		}
		return nil, err
	}
	defer f.Close()
	var out []Finding
	sc := bufio.NewScanner(f)
	sc.Buffer(make([]byte, 1<<20), 1<<20)
	for sc.Scan() {
		line := strings.TrimSpace(sc.Text())
		if line == "" || strings.HasPrefix(line, "#") || strings.HasPrefix(line, "fixed:") {
			continue
		}
		var fd Finding
		if err := json.Unmarshal([]byte(line), &fd); err != nil {
			return nil, fmt.Errorf("KNOWN_FINDINGS.jsonl: %v", err)
		}
		out = append(out, fd)
	}
	return out, sc.Err()
}

// MergeConfig folds the run of the same rules under another build
// configuration into r: every obligation of the other run that is not
// discharged and has no counterpart (rule, function, construct) in r is
// added (so it is reported once); per-configuration totals go to the evidence.
func (r *Report) MergeConfig(name string, o *Report) {
	have := map[string]bool{}
	for _, c := range r.Obls {
		have[c.Rule+"|"+c.Function+"|"+c.Construct] = true
	}
	ok, bad, extra := 0, 0, 0
	for _, c := range o.Obls {
		k := c.Rule + "|" + c.Function + "|" + c.Construct
		if c.Status == OK {
			ok++
			if !have[k] {
				extra++
				have[k] = true
				c.How = "[" + name + " only] " + c.How
				r.add(c)
			}
			continue
		}
		bad++
		if !have[k] {
			have[k] = true
			c.How = "[" + name + "] " + c.How
			r.add(c)
		}
	}
	for _, id := range o.order {
		st := o.rules[id]
		if st.Instances < st.Floor {
			r.Errorf("[%s] rule %s matched %d instances, below its floor of %d", name, id, st.Instances, st.Floor)
		}
	}
	for _, e := range o.Errors {
		r.Errorf("[%s] %s", name, e)
	}
	cfgs, _ := r.Extra["build_configs"].([]map[string]interface{})
	cfgs = append(cfgs, map[string]interface{}{"config": name, "obligations": len(o.Obls), "discharged": ok, "not_discharged": bad, "obligations_only_in_this_config": extra})
	r.Extra["build_configs"] = cfgs
}

// Clean reports whether every obligation is discharged or a listed known finding.
func (r *Report) Clean() bool {
	findings, _ := LoadFindings()
	for _, o := range r.Obls {
		if o.Status == OK {
			continue
		}
		m := false
		for _, f := range findings {
			if o.Status == Violated && f.Status == "finding" && f.Property == r.Property && f.Rule == o.Rule && f.Function == o.Function && f.Construct == o.Construct {
				m = true
			}
		}
		if !m {
			return false
		}
	}
	return len(r.Errors) == 0
}

// Finish applies floors and known findings, writes evidence, prints the
// protocol lines and returns the process exit code.
func (r *Report) Finish(p *Prog, noEvidence bool) int {
	findings, err := LoadFindings()
	if err != nil {
		r.Errorf("%v", err)
	}
	if p != nil {
		if miss := p.UnresolvedKeys(); len(miss) > 0 {
			// a function a rule looks for no longer exists under that name:
			// whatever the rules concluded about code around it is unreliable
			r.Errorf("callee anchors do not resolve (renamed or removed): %s - cannot decide", strings.Join(miss, ", "))
			for i := range r.Obls {
				if r.Obls[i].Status == Violated {
					r.Obls[i].Status = Undecided
					r.Obls[i].How = "[anchor moved] " + r.Obls[i].How
				}
			}
		}
	}
	for _, id := range r.order {
		st := r.rules[id]
		if st.Instances < st.Floor {
			r.Errorf("rule %s matched %d instances, below its floor of %d (anchors moved or rule vacuous: cannot decide)", id, st.Instances, st.Floor)
		}
	}
	sort.SliceStable(r.Obls, func(i, j int) bool {
		a, b := r.Obls[i], r.Obls[j]
		if a.Rule != b.Rule {
			return a.Rule < b.Rule
		}
		if a.Function != b.Function {
			return a.Function < b.Function
		}
		return a.Construct < b.Construct
	})
	var viol, undec, known, nontrivial, discharged int
	distinct := map[string]bool{}
	var violObls []Obligation
	for i := range r.Obls {
		o := &r.Obls[i]
		switch o.Status {
		case OK:
			discharged++
			if !o.Trivial {
				k := o.Rule + "|" + o.Function + "|" + o.Construct
				if !distinct[k] {
					distinct[k] = true
					nontrivial++
				}
			}
		case Undecided:
			undec++
		case Violated:
			matched := false
			for _, f := range findings {
				if f.Status == "finding" && f.Property == r.Property && f.Rule == o.Rule && f.Function == o.Function && f.Construct == o.Construct {
					matched = true
					o.Known = true
					fmt.Printf("KNOWN-FINDING: property=%s rule=%s function=%s construct=%q %s: %s\n", r.Property, o.Rule, o.Function, o.Construct, o.Pos, f.What)
					break
				}
			}
			if matched {
				known++
			} else {
				viol++
				violObls = append(violObls, *o)
			}
		}
	}
	wall := time.Since(r.Start).Seconds()

	// samples: all when < 200, else first 200 plus every undischarged.
	var samples []Obligation
	if len(r.Obls) <= 200 {
		samples = r.Obls
	} else {
		samples = append(samples, r.Obls[:200]...)
		for _, o := range r.Obls[200:] {
			if o.Status != OK {
				samples = append(samples, o)
			}
		}
	}
	var stats []RuleStat
	for _, id := range r.order {
		stats = append(stats, *r.rules[id])
	}
	cov := map[string]interface{}{
		"explanation":         r.Explain + " NOT DECIDED: " + r.NotDecided,
		"obligations":         len(r.Obls),
		"discharged":          discharged,
		"known_findings":      known,
		"undecided":           undec,
		"evaluations":         len(r.Obls),
		"distinct_nontrivial": nontrivial,
		"rule":                "one obligation per (rule, function, construct) matched on /repo's current source; non-trivial = discharge needed a guard, path, summary or table entry (not constant-trivial); distinct by rule+function+construct",
		"samples":             samples,
		"rules":               stats,
		"checker_cmd":         "/verif/bin/tchk -property " + r.Property + " -tier " + r.Tier,
		"trusted_base": []string{"go/parser + go/types + go/ssa (x/tools v0.29.0) lowering is faithful",
			"VTA call graph over-approximates dynamic calls", "Go standard library meets its documented contracts",
			"spec tables in /verif/sa/spec written from the TChannel protocol text"},
		"errors": r.Errors,
	}
	if p != nil {
		cov["packages"] = len(p.Pkgs)
		cov["functions_analysed"] = len(p.SrcFuncs)
		bc := "linux/amd64"
		if p.Cfg.GOARCH != "" || p.Cfg.GOOS != "" {
			bc = p.Cfg.GOOS + "/" + p.Cfg.GOARCH
		}
		cov["build_config"] = bc
	}
	for k, v := range r.Extra {
		cov[k] = v
	}
	for k, v := range r.Stats {
		cov[k] = v
	}
	seed := 0
	fmt.Sscanf(os.Getenv("VERIF_SEED"), "%d", &seed)
	ev := map[string]interface{}{
		"property_id": r.Property,
		"tier":        r.Tier,
		"seed":        seed,
		"level":       "other",
		"coverage":    cov,
		"assumptions": append([]string{"static analysis of /repo's current working tree; no tchannel code is executed"}, r.Assumptions...),
		"wall_s":      wall,
		"violations":  viol,
	}
	if !noEvidence {
		dir := filepath.Join(VerifDir(), "evidence")
		os.MkdirAll(dir, 0o755)
		b, _ := json.MarshalIndent(ev, "", " ")
		if err := os.WriteFile(filepath.Join(dir, r.Property+".json"), append(b, '\n'), 0o644); err != nil {
			r.Errorf("write evidence: %v", err)
		}
	}
	fmt.Printf("property=%s tier=%s obligations=%d discharged=%d known=%d undecided=%d violations=%d errors=%d wall=%.1fs\n",
		r.Property, r.Tier, len(r.Obls), discharged, known, undec, viol, len(r.Errors), wall)
	for _, st := range stats {
		fmt.Printf("  rule %-8s %-8s instances=%-4d floor=%-3d discharged=%-4d %s\n", st.Rule, st.Engine, st.Instances, st.Floor, st.Discharged, st.Doc)
	}
	code := 0
	if viol > 0 {
		vdir := filepath.Join(VerifDir(), "evidence", "violations")
		os.MkdirAll(vdir, 0o755)
		for i, o := range violObls {
			path := filepath.Join(vdir, fmt.Sprintf("%s-%s-%d.json", r.Property, sanitize(o.Rule), i))
			b, _ := json.MarshalIndent(map[string]interface{}{"property": r.Property, "obligation": o, "tier": r.Tier}, "", " ")
			os.WriteFile(path, b, 0o644)
			fmt.Printf("  %s: rule %s in %s [%s]: %s\n", o.Pos, o.Rule, o.Function, o.Construct, o.How)
			fmt.Printf("VIOLATION property=%s replay=%s\n", r.Property, path)
		}
		code = 1
	}
	if undec > 0 || len(r.Errors) > 0 {
		for _, o := range r.Obls {
			if o.Status == Undecided {
				fmt.Printf("ERROR undecided: %s: rule %s in %s [%s]: %s\n", o.Pos, o.Rule, o.Function, o.Construct, o.How)
			}
		}
		for _, e := range r.Errors {
			fmt.Printf("ERROR %s\n", e)
		}
		if code == 0 {
			code = 2
		}
	}
	return code
}

func sanitize(s string) string {
	return strings.Map(func(r rune) rune {
		if r >= 'a' && r <= 'z' || r >= 'A' && r <= 'Z' || r >= '0' && r <= '9' || r == '-' {
			return r
		}
		return '_'
	}, s)
}
