package core

import (
	"fmt"
	"go/token"
	"go/types"
	"math"
	"strings"

	"golang.org/x/tools/go/ssa"
)

// ---------------------------------------------------------------------------
// E3: integer ranges and symbolic "≤ len(x)" bounds, demand-driven over SSA,
// refined by dominating guards. Used to discharge index / slice / make sinks.

const (
	NegInf = math.MinInt64
	PosInf = math.MaxInt64
)

// Rng is an inclusive integer interval.
type Rng struct{ Lo, Hi int64 }

func (r Rng) String() string {
	lo, hi := fmt.Sprint(r.Lo), fmt.Sprint(r.Hi)
	if r.Lo == NegInf {
		lo = "-inf"
	}
	if r.Hi == PosInf {
		hi = "+inf"
	}
	return "[" + lo + "," + hi + "]"
}

func (r Rng) meet(o Rng) Rng {
	if o.Lo > r.Lo {
		r.Lo = o.Lo
	}
	if o.Hi < r.Hi {
		r.Hi = o.Hi
	}
	return r
}

func (r Rng) join(o Rng) Rng {
	if o.Lo < r.Lo {
		r.Lo = o.Lo
	}
	if o.Hi > r.Hi {
		r.Hi = o.Hi
	}
	return r
}

func addSat(a, b int64) int64 {
	if a == NegInf || b == NegInf {
		return NegInf
	}
	if a == PosInf || b == PosInf {
		return PosInf
	}
	c := a + b
	if (a > 0 && b > 0 && c < 0) || c > PosInf/2 {
		return PosInf
	}
	if (a < 0 && b < 0 && c >= 0) || c < NegInf/2 {
		return NegInf
	}
	return c
}

func negSat(a int64) int64 {
	if a == NegInf {
		return PosInf
	}
	if a == PosInf {
		return NegInf
	}
	return -a
}

// TypeRng is the range representable by an integer type on the analysed platform (64-bit int).
func TypeRng(t types.Type, wordBits int) Rng {
	b, ok := t.Underlying().(*types.Basic)
	if !ok {
		return Rng{NegInf, PosInf}
	}
	switch b.Kind() {
	case types.Uint8:
		return Rng{0, 255}
	case types.Uint16:
		return Rng{0, 65535}
	case types.Uint32:
		return Rng{0, math.MaxUint32}
	case types.Uint64, types.Uintptr:
		return Rng{0, PosInf}
	case types.Uint:
		if wordBits == 32 {
			return Rng{0, math.MaxUint32}
		}
		return Rng{0, PosInf}
	case types.Int8:
		return Rng{-128, 127}
	case types.Int16:
		return Rng{-32768, 32767}
	case types.Int32:
		return Rng{math.MinInt32, math.MaxInt32}
	case types.Int:
		if wordBits == 32 {
			return Rng{math.MinInt32, math.MaxInt32}
		}
	}
	return Rng{NegInf, PosInf}
}

// SymBound: value + Off <= len(Key)   (i.e. value <= len(Key) - Off).
type SymBound struct {
	Key string
	Off int64
	Src ssa.Value // the operand of len(...) the bound was stated about
}

// LenInvariant supplies the length range of a location that is maintained by
// construction elsewhere (e.g. Frame.Payload). ok=false if none.
type LenInvariant func(v ssa.Value) (Rng, bool)

// RetLen describes "the non-nil result of callee has length param#Idx - Off".
type RetLen struct {
	Idx int
	Off int64
}

// Ranges is the analysis context for one function.
type Ranges struct {
	P        *Prog
	WordBits int
	LenInv   LenInvariant
	// RetLenOf: summary for a callee returning a slice.
	RetLenOf func(f *ssa.Function) (RetLen, bool)
	// ResultRng: range of an integer call result by callee contract.
	ResultRng func(c *ssa.Call) (Rng, bool)
	// ParamRng: assumed range for a parameter (ok=false: type range).
	ParamRng func(p *ssa.Parameter) (Rng, bool)
	// FieldRng: assumed range of an integer field load (reviewed invariants).
	FieldRng func(f *types.Var) (Rng, bool)
	// SinkInv: a sink is discharged by a reviewed cross-function invariant.
	SinkInv func(i ssa.Instruction) (bool, string)
	// OrderedInv: lo <= hi holds by a reviewed invariant.
	OrderedInv func(lo, hi ssa.Value) bool
	// Auto enables the inferred interprocedural facts: parameter ranges joined over
	// in-repo call sites, field ranges joined over all stores, result ranges joined over returns.
	Auto      bool
	sites     map[*ssa.Function][]ssa.CallInstruction
	invoked   map[*ssa.Function]bool
	fieldSt   map[*types.Var][]*ssa.Store
	fieldInit map[*types.Var]bool
	memoP     map[*ssa.Parameter]Rng
	inP       map[*ssa.Parameter]bool
	memoF     map[*types.Var]Rng
	inF       map[*types.Var]bool
	memoRet   map[*ssa.Function]Rng
	inRet     map[*ssa.Function]bool

	memoR map[rkey]Rng
	inR   map[rkey]bool
	inB   map[rkey]bool
	inL   map[rkey]bool
	guard map[*ssa.BasicBlock][]Cmp
}

type rkey struct {
	v ssa.Value
	b *ssa.BasicBlock
}

// NewRanges creates a context.
func NewRanges(p *Prog) *Ranges {
	wb := 64
	switch p.Cfg.GOARCH {
	case "386", "arm", "mips", "mipsle", "wasm":
		wb = 32
	}
	return &Ranges{P: p, WordBits: wb, memoR: map[rkey]Rng{}, inR: map[rkey]bool{}, inB: map[rkey]bool{}, guard: map[*ssa.BasicBlock][]Cmp{}}
}

func (a *Ranges) guards(b *ssa.BasicBlock) []Cmp {
	if g, ok := a.guard[b]; ok {
		return g
	}
	c, _ := GuardFacts(b)
	a.guard[b] = c
	return c
}

// LenKey gives the identity of "the thing whose length is meant".
func LenKey(v ssa.Value) string {
	v = Strip(v)
	switch x := v.(type) {
	case *ssa.UnOp:
		if x.Op == token.MUL {
			return "mem:" + AccessPath(x.X)
		}
	case *ssa.Convert:
		// string(b) / []byte(s) keep the length
		if isByteSeq(x.Type()) && isByteSeq(x.X.Type()) {
			return LenKey(x.X)
		}
	}
	return fmt.Sprintf("val:%p", v)
}

func isByteSeq(t types.Type) bool {
	switch u := t.Underlying().(type) {
	case *types.Basic:
		return u.Info()&types.IsString != 0
	case *types.Slice:
		b, ok := u.Elem().Underlying().(*types.Basic)
		return ok && b.Kind() == types.Uint8
	}
	return false
}

// lenCall: v is len(x) or cap(x) (possibly converted); returns x.
func lenCall(v ssa.Value) (ssa.Value, string, bool) {
	v = Strip(v)
	for {
		if c, ok := v.(*ssa.Convert); ok && isIntegral(c.X.Type()) {
			v = c.X
			continue
		}
		break
	}
	c, ok := v.(*ssa.Call)
	if !ok {
		return nil, "", false
	}
	b, ok := c.Call.Value.(*ssa.Builtin)
	if !ok || (b.Name() != "len" && b.Name() != "cap") {
		return nil, "", false
	}
	return c.Call.Args[0], b.Name(), true
}

// RangeAt computes the range of integer value v as seen from block b.
func (a *Ranges) RangeAt(v ssa.Value, b *ssa.BasicBlock) Rng {
	k := rkey{v, b}
	if r, ok := a.memoR[k]; ok {
		return r
	}
	if a.inR[k] {
		return TypeRng(v.Type(), a.WordBits)
	}
	a.inR[k] = true
	r := a.baseRange(v, b)
	// guard refinement
	for _, g := range a.guards(b) {
		r = a.refineBy(r, v, g, b)
	}
	delete(a.inR, k)
	a.memoR[k] = r
	return r
}

func sameVal(x, y ssa.Value) bool {
	if x == y {
		return true
	}
	// integer conversions that preserve the value (widening of unsigned / same-size) are looked through by callers
	return false
}

func (a *Ranges) refineBy(r Rng, v ssa.Value, g Cmp, b *ssa.BasicBlock) Rng {
	x, y, op := g.X, g.Y, g.Op
	var other ssa.Value
	switch {
	case a.sameInt(x, v):
		other = y
	case a.sameInt(y, v):
		other = x
		op = mirrorOp(op)
	default:
		return r
	}
	var or Rng
	if k, ok := ConstInt(other); ok {
		or = Rng{k, k}
	} else {
		// evaluate the other side without using this same guard recursively (depth is bounded by inR)
		or = a.RangeAt(other, b)
	}
	switch op {
	case token.EQL:
		r = r.meet(or)
	case token.LSS:
		if or.Hi != PosInf {
			r = r.meet(Rng{NegInf, or.Hi - 1})
		}
	case token.LEQ:
		r = r.meet(Rng{NegInf, or.Hi})
	case token.GTR:
		if or.Lo != NegInf {
			r = r.meet(Rng{or.Lo + 1, PosInf})
		}
	case token.GEQ:
		r = r.meet(Rng{or.Lo, PosInf})
	case token.NEQ:
		if or.Lo == or.Hi {
			if r.Lo == or.Lo {
				r.Lo++
			} else if r.Hi == or.Lo {
				r.Hi--
			}
		}
	}
	return r
}

// sameInt: x denotes the same integer as v (identical, or value-preserving conversion of it).
func (a *Ranges) sameInt(x, v ssa.Value) bool {
	if x == v {
		return true
	}
	if c, ok := x.(*ssa.Convert); ok && isIntegral(c.X.Type()) && isIntegral(c.Type()) {
		// conversion preserves value when the source range fits the destination type
		src := TypeRng(c.X.Type(), a.WordBits)
		dst := TypeRng(c.Type(), a.WordBits)
		if src.Lo >= dst.Lo && src.Hi <= dst.Hi {
			return a.sameInt(c.X, v)
		}
	}
	if c, ok := v.(*ssa.Convert); ok && isIntegral(c.X.Type()) && isIntegral(c.Type()) {
		src := TypeRng(c.X.Type(), a.WordBits)
		dst := TypeRng(c.Type(), a.WordBits)
		if src.Lo >= dst.Lo && src.Hi <= dst.Hi {
			return a.sameInt(x, c.X)
		}
	}
	if cx, ok := x.(*ssa.ChangeType); ok {
		return a.sameInt(cx.X, v)
	}
	if cv, ok := v.(*ssa.ChangeType); ok {
		return a.sameInt(x, cv.X)
	}
	// two loads of the same location with nothing in between are treated alike by LenKey only
	return false
}

func (a *Ranges) baseRange(v ssa.Value, b *ssa.BasicBlock) Rng {
	tr := TypeRng(v.Type(), a.WordBits)
	if k, ok := ConstInt(v); ok {
		return Rng{k, k}
	}
	switch x := v.(type) {
	case *ssa.Parameter:
		if a.ParamRng != nil {
			if r, ok := a.ParamRng(x); ok {
				return r.meet(tr)
			}
		}
		if a.Auto {
			return a.autoParam(x).meet(tr)
		}
		return tr
	case *ssa.ChangeType:
		return a.RangeAt(x.X, b).meet(tr)
	case *ssa.Convert:
		if !isIntegral(x.X.Type()) || !isIntegral(x.Type()) {
			return tr
		}
		src := a.RangeAt(x.X, b)
		if src.Lo >= tr.Lo && src.Hi <= tr.Hi {
			return src
		}
		// truncation / sign change: anything in the destination type.
		// Special case: uint64/uint -> int of a value above MaxInt wraps negative.
		return tr
	case *ssa.Phi:
		return a.phiRange(x, b).meet(tr)
	case *ssa.BinOp:
		l, r := a.RangeAt(x.X, b), a.RangeAt(x.Y, b)
		var out Rng
		switch x.Op {
		case token.ADD:
			out = Rng{addSat(l.Lo, r.Lo), addSat(l.Hi, r.Hi)}
		case token.SUB:
			out = Rng{addSat(l.Lo, negSat(r.Hi)), addSat(l.Hi, negSat(r.Lo))}
		case token.MUL:
			if l.Lo >= 0 && r.Lo >= 0 && l.Hi < 1<<31 && r.Hi < 1<<31 {
				out = Rng{l.Lo * r.Lo, l.Hi * r.Hi}
			} else {
				out = Rng{NegInf, PosInf}
			}
		case token.AND:
			if r.Lo >= 0 {
				out = Rng{0, r.Hi}
			} else if l.Lo >= 0 {
				out = Rng{0, l.Hi}
			} else {
				out = Rng{NegInf, PosInf}
			}
		case token.REM:
			if r.Lo > 0 && r.Hi != PosInf {
				if l.Lo >= 0 {
					out = Rng{0, r.Hi - 1}
				} else {
					out = Rng{-(r.Hi - 1), r.Hi - 1}
				}
			} else {
				out = Rng{NegInf, PosInf}
			}
		case token.SHR:
			if l.Lo >= 0 {
				out = Rng{0, l.Hi}
			} else {
				out = Rng{NegInf, PosInf}
			}
		case token.QUO:
			if l.Lo >= 0 && r.Lo > 0 {
				out = Rng{0, l.Hi}
			} else {
				out = Rng{NegInf, PosInf}
			}
		default:
			out = Rng{NegInf, PosInf}
		}
		// unsigned wrap-around: if the mathematical result may leave the type, anything goes
		if out.Lo < tr.Lo || out.Hi > tr.Hi {
			if tr.Lo == 0 && x.Op == token.SUB {
				return tr
			}
			return out.meet(tr).join(tr) // = tr
		}
		return out
	case *ssa.Call:
		if bi, ok := x.Call.Value.(*ssa.Builtin); ok {
			switch bi.Name() {
			case "len", "cap":
				lr := a.LenRange(x.Call.Args[0], b)
				return lr
			case "copy":
				l1, l2 := a.LenRange(x.Call.Args[0], b), a.LenRange(x.Call.Args[1], b)
				hi := l1.Hi
				if l2.Hi < hi {
					hi = l2.Hi
				}
				return Rng{0, hi}
			case "min":
				out := Rng{PosInf, PosInf}
				for _, arg := range x.Call.Args {
					ar := a.RangeAt(arg, b)
					if ar.Hi < out.Hi {
						out.Hi = ar.Hi
					}
					if ar.Lo < out.Lo {
						out.Lo = ar.Lo
					}
				}
				return out
			}
		}
		if a.ResultRng != nil {
			if r, ok := a.ResultRng(x); ok {
				return r.meet(tr)
			}
		}
		if a.Auto && isIntegral(x.Type()) {
			return a.autoResult(x).meet(tr)
		}
		return tr
	case *ssa.UnOp:
		if x.Op == token.MUL {
			if f := AddrField(x.X); f != nil && a.FieldRng != nil {
				if r, ok := a.FieldRng(f); ok {
					return r.meet(tr)
				}
			}
			if f := AddrField(x.X); f != nil && a.Auto && isIntegral(x.Type()) {
				if fw := Forward(x); fw != ssa.Value(x) {
					return a.RangeAt(fw, b).meet(tr)
				}
				return a.autoField(f, tr).meet(tr)
			}
			// store-to-load forwarding in the same block
			if fw := Forward(x); fw != ssa.Value(x) {
				return a.RangeAt(fw, b).meet(tr)
			}
		}
		if x.Op == token.SUB {
			r := a.RangeAt(x.X, b)
			return Rng{negSat(r.Hi), negSat(r.Lo)}.meet(tr)
		}
		return tr
	case *ssa.Extract:
		return tr
	case *ssa.Field:
		if f := FieldOfField(x); f != nil && a.FieldRng != nil {
			if r, ok := a.FieldRng(f); ok {
				return r.meet(tr)
			}
		}
		if f := FieldOfField(x); f != nil && a.Auto && isIntegral(x.Type()) {
			return a.autoField(f, tr).meet(tr)
		}
	}
	return tr
}

func (a *Ranges) index() {
	if a.sites != nil {
		return
	}
	a.sites = map[*ssa.Function][]ssa.CallInstruction{}
	a.invoked = map[*ssa.Function]bool{}
	a.fieldSt = map[*types.Var][]*ssa.Store{}
	a.fieldInit = map[*types.Var]bool{}
	a.memoP = map[*ssa.Parameter]Rng{}
	a.inP = map[*ssa.Parameter]bool{}
	a.memoF = map[*types.Var]Rng{}
	a.inF = map[*types.Var]bool{}
	a.memoRet = map[*ssa.Function]Rng{}
	a.inRet = map[*ssa.Function]bool{}
	for _, f := range a.P.SrcFuncs {
		EachInstr(f, func(i ssa.Instruction) {
			switch x := i.(type) {
			case ssa.CallInstruction:
				if cal := x.Common().StaticCallee(); cal != nil {
					a.sites[cal] = append(a.sites[cal], x)
				}
				// function values passed around: mark as address-taken
				for _, arg := range x.Common().Args {
					if fn, ok := arg.(*ssa.Function); ok {
						a.invoked[fn] = true
					}
					if mc, ok := arg.(*ssa.MakeClosure); ok {
						a.invoked[mc.Fn.(*ssa.Function)] = true
					}
				}
			case *ssa.Store:
				if fld := AddrField(x.Addr); fld != nil {
					a.fieldSt[fld] = append(a.fieldSt[fld], x)
				}
				if fn, ok := x.Val.(*ssa.Function); ok {
					a.invoked[fn] = true
				}
			}
		})
	}
}

// dynInvoked: some interface method call may dispatch to f (class-hierarchy analysis).
func (a *Ranges) dynInvoked(f *ssa.Function) bool {
	if f.Signature.Recv() == nil {
		return false
	}
	n := a.P.CHA().Nodes[f]
	if n == nil {
		return false
	}
	for _, e := range n.In {
		if e.Site != nil && e.Site.Common().IsInvoke() {
			return true
		}
	}
	return false
}

// autoParam: join of the argument ranges over all in-repo static call sites.
func (a *Ranges) autoParam(p *ssa.Parameter) Rng {
	a.index()
	tr := TypeRng(p.Type(), a.WordBits)
	if r, ok := a.memoP[p]; ok {
		return r
	}
	if !isIntegral(p.Type()) {
		return tr
	}
	f := p.Parent()
	if a.inP[p] || f == nil || a.invoked[f] || len(a.sites[f]) == 0 || a.dynInvoked(f) {
		return tr
	}
	idx := -1
	for k, q := range f.Params {
		if q == p {
			idx = k
		}
	}
	if idx < 0 {
		return tr
	}
	a.inP[p] = true
	out := Rng{PosInf, NegInf}
	for _, s := range a.sites[f] {
		args := s.Common().Args
		if idx >= len(args) {
			out = tr
			break
		}
		out = out.join(a.RangeAt(args[idx], s.Block()))
	}
	delete(a.inP, p)
	a.memoP[p] = out
	return out
}

// autoField: join over every store into the field (plus the zero value).
func (a *Ranges) autoField(f *types.Var, tr Rng) Rng {
	a.index()
	if r, ok := a.memoF[f]; ok {
		return r
	}
	if a.inF[f] || f.Pkg() == nil || !strings.HasPrefix(f.Pkg().Path(), Root) {
		return tr
	}
	a.inF[f] = true
	out := Rng{0, 0}
	for _, st := range a.fieldSt[f] {
		out = out.join(a.RangeAt(st.Val, st.Block()))
	}
	delete(a.inF, f)
	a.memoF[f] = out
	return out
}

// autoResult: join over the returned values of the (static or dynamic) callees.
func (a *Ranges) autoResult(c *ssa.Call) Rng {
	a.index()
	tr := TypeRng(c.Type(), a.WordBits)
	callees := a.P.Callees(c)
	if len(callees) == 0 || len(callees) > 8 {
		return tr
	}
	out := Rng{PosInf, NegInf}
	for _, g := range callees {
		if g.Blocks == nil || !a.P.InAnalysed(g) {
			return tr
		}
		if g.Signature.Results().Len() != 1 {
			return tr
		}
		r, ok := a.memoRet[g]
		if !ok {
			if a.inRet[g] {
				return tr
			}
			a.inRet[g] = true
			r = Rng{PosInf, NegInf}
			EachInstr(g, func(i ssa.Instruction) {
				if ret, isRet := i.(*ssa.Return); isRet && !IsRecoverBlock(ret.Block()) {
					r = r.join(a.RangeAt(ReturnValues(ret)[0], ret.Block()))
				}
			})
			delete(a.inRet, g)
			a.memoRet[g] = r
		}
		out = out.join(r)
	}
	return out
}

func (a *Ranges) phiRange(phi *ssa.Phi, b *ssa.BasicBlock) Rng {
	// monotone induction: consts and phi+positive const
	var consts []int64
	ind := true
	for _, e := range phi.Edges {
		if k, ok := ConstInt(e); ok {
			consts = append(consts, k)
			continue
		}
		if bo, ok := e.(*ssa.BinOp); ok && bo.Op == token.ADD && bo.X == phi {
			if k, ok := ConstInt(bo.Y); ok && k > 0 {
				continue
			}
		}
		ind = false
	}
	if ind && len(consts) > 0 {
		lo := consts[0]
		for _, c := range consts {
			if c < lo {
				lo = c
			}
		}
		return Rng{lo, PosInf}
	}
	out := Rng{PosInf, NegInf}
	for i, e := range phi.Edges {
		pred := phi.Block().Preds[i]
		er := a.RangeAt(e, pred)
		// the edge condition
		if ifi, ok := pred.Instrs[len(pred.Instrs)-1].(*ssa.If); ok && pred.Succs[0] != pred.Succs[1] {
			cmps, _ := ExpandCond(ifi.Cond, pred.Succs[0] == phi.Block())
			for _, g := range cmps {
				er = a.refineBy(er, e, g, pred)
			}
		}
		out = out.join(er)
	}
	return out
}

// LenRange: range of len(x) as seen from block b.
func (a *Ranges) LenRange(x ssa.Value, b *ssa.BasicBlock) Rng {
	lk := rkey{x, b}
	if a.inL == nil {
		a.inL = map[rkey]bool{}
	}
	if a.inL[lk] {
		return Rng{0, PosInf}
	}
	a.inL[lk] = true
	defer delete(a.inL, lk)
	base := a.lenBase(x, b, 0)
	// guards on len(x) itself
	key := LenKey(x)
	for _, g := range a.guards(b) {
		gx, gy, op := g.X, g.Y, g.Op
		var other ssa.Value
		if lx, _, ok := lenCall(gx); ok && LenKey(lx) == key && a.lenGuardValid(lx, x, b) {
			other = gy
		} else if ly, _, ok := lenCall(gy); ok && LenKey(ly) == key && a.lenGuardValid(ly, x, b) {
			other = gx
			op = mirrorOp(op)
		} else {
			continue
		}
		var or Rng
		if k, ok := ConstInt(other); ok {
			or = Rng{k, k}
		} else {
			kk := rkey{other, b}
			if a.inB[kk] {
				continue
			}
			a.inB[kk] = true
			or = a.RangeAt(other, b)
			delete(a.inB, kk)
		}
		switch op {
		case token.EQL:
			base = base.meet(or)
		case token.GEQ:
			base = base.meet(Rng{or.Lo, PosInf})
		case token.GTR:
			if or.Lo != NegInf {
				base = base.meet(Rng{or.Lo + 1, PosInf})
			}
		case token.LEQ:
			base = base.meet(Rng{NegInf, or.Hi})
		case token.LSS:
			if or.Hi != PosInf {
				base = base.meet(Rng{NegInf, or.Hi - 1})
			}
		case token.NEQ:
			if or.Lo == or.Hi && base.Lo == or.Lo {
				base.Lo++
			}
		}
	}
	return base
}

// lenGuardValid: a guard about len(gx) speaks about x when they are the same
// SSA value, or loads of the same location with no store to it in between.
func (a *Ranges) lenGuardValid(gx, x ssa.Value, b *ssa.BasicBlock) bool {
	if Strip(gx) == Strip(x) {
		return true
	}
	return NoStoreBetween(gx, x)
}

// NoStoreBetween: both are loads of the same field location and no store to
// that field (and no call receiving the base pointer) lies on a path from the first load to the second.
func NoStoreBetween(first, second ssa.Value) bool {
	u1, ok1 := Strip(first).(*ssa.UnOp)
	u2, ok2 := Strip(second).(*ssa.UnOp)
	if !ok1 || !ok2 || u1.Op != token.MUL || u2.Op != token.MUL {
		return false
	}
	f1, f2 := AddrField(u1.X), AddrField(u2.X)
	if f1 == nil || f1 != f2 || AccessPath(u1.X) != AccessPath(u2.X) {
		return false
	}
	fn := u1.Parent()
	if fn != u2.Parent() {
		return false
	}
	base := rootOf(u1.X)
	bad := func(i ssa.Instruction) bool {
		switch x := i.(type) {
		case *ssa.Store:
			return AddrField(x.Addr) == f1
		case ssa.CallInstruction:
			if _, isB := x.Common().Value.(*ssa.Builtin); isB {
				return false
			}
			for _, arg := range CallArgs(x) {
				if rootOf(arg) == base && base != nil {
					if _, isPtr := arg.Type().Underlying().(*types.Pointer); isPtr {
						return true
					}
				}
			}
		}
		return false
	}
	res := ReachAvoiding(fn, u1, func(i ssa.Instruction) bool { return i == ssa.Instruction(u2) }, bad, nil)
	if !res.Found {
		// either unreachable or every path is blocked by a store: distinguish
		res2 := ReachAvoiding(fn, u1, func(i ssa.Instruction) bool { return i == ssa.Instruction(u2) }, nil, nil)
		return !res2.Found || false
	}
	// some clean path exists; make sure no dirty path exists
	dirty := false
	EachInstr(fn, func(i ssa.Instruction) {
		if dirty || !bad(i) {
			return
		}
		// i reachable from u1 and u2 reachable from i
		r1 := ReachAvoiding(fn, u1, func(j ssa.Instruction) bool { return j == i }, func(j ssa.Instruction) bool { return j == ssa.Instruction(u2) }, nil)
		if !r1.Found {
			return
		}
		// ... and then reach the second load without re-executing the first one (which would re-establish the fact)
		r2 := ReachAvoiding(fn, i, func(j ssa.Instruction) bool { return j == ssa.Instruction(u2) }, func(j ssa.Instruction) bool { return j == ssa.Instruction(u1) }, nil)
		if r2.Found {
			dirty = true
		}
	})
	return !dirty
}

func rootOf(v ssa.Value) ssa.Value {
	for {
		switch x := v.(type) {
		case *ssa.FieldAddr:
			v = x.X
		case *ssa.UnOp:
			if x.Op == token.MUL {
				v = x.X
			} else {
				return v
			}
		case *ssa.IndexAddr:
			v = x.X
		case *ssa.ChangeType:
			v = x.X
		default:
			return v
		}
	}
}

func (a *Ranges) lenBase(x ssa.Value, b *ssa.BasicBlock, depth int) Rng {
	nonneg := Rng{0, PosInf}
	if depth > 6 {
		return nonneg
	}
	x = Strip(x)
	if a.LenInv != nil {
		if r, ok := a.LenInv(x); ok {
			return r
		}
	}
	// array / pointer to array
	if arr, ok := Deref(x.Type()).Underlying().(*types.Array); ok {
		return Rng{arr.Len(), arr.Len()}
	}
	switch v := x.(type) {
	case *ssa.Const:
		if v.Value != nil && v.Value.Kind() == 3 { // constant.String
			s := v.Value.ExactString()
			_ = s
		}
		if v.Value == nil {
			return Rng{0, 0}
		}
	case *ssa.Slice:
		xl := a.sliceSrcLen(v.X, b, depth+1)
		lo := Rng{0, 0}
		if v.Low != nil {
			lo = a.RangeAt(v.Low, b)
		}
		hi := xl
		if v.High != nil {
			hi = a.RangeAt(v.High, b)
		}
		out := Rng{addSat(hi.Lo, negSat(lo.Hi)), addSat(hi.Hi, negSat(lo.Lo))}
		return out.meet(nonneg)
	case *ssa.MakeSlice:
		return a.RangeAt(v.Len, b).meet(nonneg)
	case *ssa.Convert:
		if isByteSeq(v.Type()) && isByteSeq(v.X.Type()) {
			return a.lenBase(v.X, b, depth+1)
		}
	case *ssa.Phi:
		out := Rng{PosInf, NegInf}
		for i, e := range v.Edges {
			out = out.join(a.lenBase(e, v.Block().Preds[i], depth+1))
		}
		return out.meet(nonneg)
	case *ssa.Call:
		if a.RetLenOf != nil {
			if cal := v.Call.StaticCallee(); cal != nil {
				if rl, ok := a.RetLenOf(cal); ok && rl.Idx < len(v.Call.Args) {
					ar := a.RangeAt(v.Call.Args[rl.Idx], b)
					// nil result has len 0; non-nil has len arg-Off
					out := Rng{addSat(ar.Lo, -rl.Off), addSat(ar.Hi, -rl.Off)}
					nonNil := false
					for _, g := range a.guards(b) {
						if g.Op == token.NEQ && ((Strip(g.X) == ssa.Value(v) && IsNilConst(g.Y)) || (Strip(g.Y) == ssa.Value(v) && IsNilConst(g.X))) {
							nonNil = true
						}
					}
					if nonNil {
						return out.meet(nonneg)
					}
					return out.join(Rng{0, 0}).meet(nonneg)
				}
			}
		}
	}
	return nonneg
}

// sliceSrcLen: length (or array length) of the operand of a slice expression.
func (a *Ranges) sliceSrcLen(x ssa.Value, b *ssa.BasicBlock, depth int) Rng {
	if arr, ok := Deref(x.Type()).Underlying().(*types.Array); ok {
		return Rng{arr.Len(), arr.Len()}
	}
	return a.LenRange(x, b)
}

// UpperBounds lists symbolic bounds "v + Off <= len(Key)" known at block b.
func (a *Ranges) UpperBounds(v ssa.Value, b *ssa.BasicBlock, depth int) []SymBound {
	var out []SymBound
	if depth > 5 {
		return nil
	}
	// structural
	if lx, kind, ok := lenCall(v); ok && kind == "len" {
		out = append(out, SymBound{LenKey(lx), 0, lx})
	}
	switch x := v.(type) {
	case *ssa.BinOp:
		if k, ok := ConstInt(x.Y); ok {
			for _, sb := range a.UpperBounds(x.X, b, depth+1) {
				switch x.Op {
				case token.SUB:
					out = append(out, SymBound{sb.Key, sb.Off + k, sb.Src})
				case token.ADD:
					out = append(out, SymBound{sb.Key, sb.Off - k, sb.Src})
				}
			}
		}
	case *ssa.Convert:
		if a.sameInt(x, x.X) {
			out = append(out, a.UpperBounds(x.X, b, depth+1)...)
		}
	case *ssa.Call:
		if bi, ok := x.Call.Value.(*ssa.Builtin); ok && (bi.Name() == "copy" || bi.Name() == "min") {
			for _, arg := range x.Call.Args {
				if bi.Name() == "copy" {
					out = append(out, SymBound{LenKey(arg), 0, arg})
				} else {
					out = append(out, a.UpperBounds(arg, b, depth+1)...)
				}
			}
		}
	case *ssa.Phi:
		// bound common to all edges
		var common []SymBound
		for i, e := range x.Edges {
			eb := a.UpperBounds(e, x.Block().Preds[i], depth+1)
			if i == 0 {
				common = eb
				continue
			}
			var keep []SymBound
			for _, c := range common {
				for _, d := range eb {
					if c.Key == d.Key {
						off := c.Off
						if d.Off < off {
							off = d.Off
						}
						keep = append(keep, SymBound{c.Key, off, c.Src})
						break
					}
				}
			}
			common = keep
		}
		out = append(out, common...)
	}
	// guards
	for _, g := range a.guards(b) {
		x, y, op := g.X, g.Y, g.Op
		var other ssa.Value
		if a.sameInt(x, v) {
			other = y
		} else if a.sameInt(y, v) {
			other = x
			op = mirrorOp(op)
		} else {
			continue
		}
		// v op other
		var obs []SymBound
		if lx, kind, ok := lenCall(other); ok && kind == "len" {
			obs = append(obs, SymBound{LenKey(lx), 0, lx})
		}
		switch op {
		case token.LSS:
			for _, ob := range obs {
				out = append(out, SymBound{ob.Key, ob.Off + 1, ob.Src})
			}
		case token.LEQ, token.EQL:
			out = append(out, obs...)
		}
		if op == token.LSS || op == token.LEQ || op == token.EQL {
			// transitive through another bounded value
			if _, isConst := other.(*ssa.Const); !isConst {
				for _, ob := range a.UpperBounds(other, b, depth+2) {
					off := ob.Off
					if op == token.LSS {
						off++
					}
					out = append(out, SymBound{ob.Key, off, ob.Src})
				}
			}
		}
	}
	return out
}

// Describe renders what is known about v at b.
func (a *Ranges) Describe(v ssa.Value, b *ssa.BasicBlock) string {
	r := a.RangeAt(v, b)
	var bs []string
	for _, sb := range a.UpperBounds(v, b, 0) {
		bs = append(bs, fmt.Sprintf("+%d<=len(%s)", sb.Off, shortKey(sb.Key)))
	}
	return r.String() + " " + strings.Join(bs, " ")
}

func shortKey(k string) string {
	if i := strings.LastIndex(k, ".&"); i >= 0 {
		return k[i+2:]
	}
	if len(k) > 12 {
		return k[:12]
	}
	return k
}
