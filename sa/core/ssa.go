package core

import (
	"fmt"
	"go/constant"
	"go/token"
	"go/types"
	"sort"
	"strings"

	"golang.org/x/tools/go/ssa"
)

// EachInstr visits every instruction of f in block order.
func EachInstr(f *ssa.Function, fn func(ssa.Instruction)) {
	for _, b := range f.Blocks {
		for _, i := range b.Instrs {
			fn(i)
		}
	}
}

// FieldOfAddr returns the field object addressed by a FieldAddr.
func FieldOfAddr(fa *ssa.FieldAddr) *types.Var {
	st, ok := Deref(fa.X.Type()).Underlying().(*types.Struct)
	if !ok {
		return nil
	}
	return st.Field(fa.Field)
}

// FieldOfField returns the field object read by a Field instruction.
func FieldOfField(f *ssa.Field) *types.Var {
	st, ok := f.X.Type().Underlying().(*types.Struct)
	if !ok {
		return nil
	}
	return st.Field(f.Field)
}

// AddrField: if v is the address of a struct field, return that field (else nil).
func AddrField(v ssa.Value) *types.Var {
	if fa, ok := v.(*ssa.FieldAddr); ok {
		return FieldOfAddr(fa)
	}
	return nil
}

// LoadedField: if v is a load (*addr) of a struct field or a Field extract, return the field.
func LoadedField(v ssa.Value) *types.Var {
	switch v := v.(type) {
	case *ssa.UnOp:
		if v.Op == token.MUL {
			return AddrField(v.X)
		}
	case *ssa.Field:
		return FieldOfField(v)
	}
	return nil
}

// Callee returns the statically resolved callee of a call instruction
// (function, method or closure created in the same function), or nil.
func Callee(c ssa.CallInstruction) *ssa.Function {
	if f := c.Common().StaticCallee(); f != nil {
		return f
	}
	return nil
}

// CalleeObj returns the types.Func called (static function/method or the
// interface method for invoke-mode calls), or nil.
func CalleeObj(c ssa.CallInstruction) *types.Func {
	cc := c.Common()
	if cc.IsInvoke() {
		return cc.Method
	}
	if f := cc.StaticCallee(); f != nil {
		if o, ok := f.Object().(*types.Func); ok {
			return o
		}
		if f.Origin() != nil {
			if o, ok := f.Origin().Object().(*types.Func); ok {
				return o
			}
		}
	}
	return nil
}

// FuncKey gives "pkgpath.Recv.Name" or "pkgpath.Name" for a types.Func.
func FuncKey(o *types.Func) string {
	if o == nil {
		return ""
	}
	sig := o.Type().(*types.Signature)
	pk := ""
	if o.Pkg() != nil {
		pk = o.Pkg().Path()
	}
	if r := sig.Recv(); r != nil {
		t := Deref(r.Type())
		if n, ok := t.(*types.Named); ok {
			return pk + "." + n.Obj().Name() + "." + o.Name()
		}
		return pk + ".?." + o.Name()
	}
	return pk + "." + o.Name()
}

// ShortKey strips the repository root from a FuncKey.
func ShortKey(o *types.Func) string {
	k := FuncKey(o)
	k = strings.TrimPrefix(k, Root+"/")
	k = strings.TrimPrefix(k, Root+".")
	return k
}

// IsCall reports whether instruction i is a call (call/go/defer) whose callee
// has ShortKey key ("Connection.protocolError", "typed.ReadBuffer.ReadBytes",
// "FramePool.Release" for an interface method, "sync.Mutex.Lock").
func IsCall(i ssa.Instruction, keys ...string) (ssa.CallInstruction, bool) {
	for _, k := range keys {
		if !queriedKeys[k] {
			queriedKeys[k] = true
		}
	}
	c, ok := i.(ssa.CallInstruction)
	if !ok {
		return nil, false
	}
	o := CalleeObj(c)
	if o == nil {
		return nil, false
	}
	k := ShortKey(o)
	for _, key := range keys {
		if k == key {
			return c, true
		}
	}
	return nil, false
}

// IsBuiltin reports a call to the named builtin.
func IsBuiltin(i ssa.Instruction, name string) (*ssa.Call, bool) {
	c, ok := i.(*ssa.Call)
	if !ok {
		return nil, false
	}
	b, ok := c.Call.Value.(*ssa.Builtin)
	if !ok || b.Name() != name {
		return nil, false
	}
	return c, true
}

// CallArgs returns the arguments including the receiver as args[0] for methods
// (both static and invoke mode).
func CallArgs(c ssa.CallInstruction) []ssa.Value {
	cc := c.Common()
	if cc.IsInvoke() {
		return append([]ssa.Value{cc.Value}, cc.Args...)
	}
	return cc.Args
}

// ConstInt returns the integer value of a constant SSA value.
func ConstInt(v ssa.Value) (int64, bool) {
	c, ok := v.(*ssa.Const)
	if !ok || c.Value == nil {
		return 0, false
	}
	if c.Value.Kind() != constant.Int {
		return 0, false
	}
	if n, ok := constant.Int64Val(c.Value); ok {
		return n, true
	}
	if u, ok := constant.Uint64Val(c.Value); ok {
		return int64(u), true
	}
	return 0, false
}

// ConstBool returns the value of a boolean constant.
func ConstBool(v ssa.Value) (bool, bool) {
	c, ok := v.(*ssa.Const)
	if !ok || c.Value == nil || c.Value.Kind() != constant.Bool {
		return false, false
	}
	return constant.BoolVal(c.Value), true
}

// IsNilConst reports a nil constant.
func IsNilConst(v ssa.Value) bool {
	c, ok := v.(*ssa.Const)
	return ok && c.Value == nil
}

// Strip removes value-preserving wrappers (ChangeType, Convert between
// identical underlying integer kinds is NOT stripped; MakeInterface is).
func Strip(v ssa.Value) ssa.Value {
	for {
		switch x := v.(type) {
		case *ssa.ChangeType:
			v = x.X
		case *ssa.MakeInterface:
			v = x.X
		case *ssa.ChangeInterface:
			v = x.X
		default:
			return v
		}
	}
}

// StripConv additionally removes integer conversions.
func StripConv(v ssa.Value) ssa.Value {
	for {
		v = Strip(v)
		if c, ok := v.(*ssa.Convert); ok {
			v = c.X
			continue
		}
		return v
	}
}

// ---------------------------------------------------------------------------
// Dominance, post-dominance and guards

// Guard is a branch condition known to hold (Pol=true) or not hold at a point.
type Guard struct {
	Cond  ssa.Value
	Pol   bool
	Block *ssa.BasicBlock // the block ending in the If
}

// edgeDominates reports whether every path from entry to b passes through the
// CFG edge from->to.
func edgeDominates(from, to, b *ssa.BasicBlock) bool {
	if !to.Dominates(b) {
		return false
	}
	// every predecessor of 'to' other than 'from' must itself be dominated by
	// 'to' (a back edge), otherwise 'to' can be entered without the edge.
	for _, p := range to.Preds {
		if p == from {
			continue
		}
		if !to.Dominates(p) {
			return false
		}
	}
	// 'from' must not also reach 'to' by the other branch
	if ifi, ok := from.Instrs[len(from.Instrs)-1].(*ssa.If); ok && ifi != nil {
		if from.Succs[0] == from.Succs[1] {
			return false
		}
	}
	return true
}

// GuardsAt returns the branch conditions that hold whenever block b executes
// (conjunctive, from dominating If edges), innermost last.
func GuardsAt(b *ssa.BasicBlock) []Guard {
	var out []Guard
	f := b.Parent()
	for _, d := range f.Blocks {
		if len(d.Instrs) == 0 {
			continue
		}
		ifi, ok := d.Instrs[len(d.Instrs)-1].(*ssa.If)
		if !ok || !d.Dominates(b) || d == b {
			continue
		}
		if edgeDominates(d, d.Succs[0], b) {
			out = append(out, Guard{ifi.Cond, true, d})
		} else if edgeDominates(d, d.Succs[1], b) {
			out = append(out, Guard{ifi.Cond, false, d})
		}
	}
	return out
}

// Cmp is a canonical comparison "X op Y" that holds.
type Cmp struct {
	X, Y ssa.Value
	Op   token.Token // EQL NEQ LSS LEQ GTR GEQ
}

func negateOp(op token.Token) token.Token {
	switch op {
	case token.EQL:
		return token.NEQ
	case token.NEQ:
		return token.EQL
	case token.LSS:
		return token.GEQ
	case token.LEQ:
		return token.GTR
	case token.GTR:
		return token.LEQ
	case token.GEQ:
		return token.LSS
	}
	return token.ILLEGAL
}

func mirrorOp(op token.Token) token.Token {
	switch op {
	case token.LSS:
		return token.GTR
	case token.LEQ:
		return token.GEQ
	case token.GTR:
		return token.LSS
	case token.GEQ:
		return token.LEQ
	}
	return op
}

// Facts expands a guard into the atomic facts that hold: comparisons, and
// boolean values with polarity. `!x` flips polarity; the result lists
// comparisons (as Cmp) and plain booleans (as BoolFact).
type BoolFact struct {
	V   ssa.Value
	Pol bool
}

// GuardFacts canonicalises the guards at b into comparison facts and boolean facts.
func GuardFacts(b *ssa.BasicBlock) ([]Cmp, []BoolFact) {
	var cmps []Cmp
	var bools []BoolFact
	for _, g := range GuardsAt(b) {
		c, bf := ExpandCond(g.Cond, g.Pol)
		cmps = append(cmps, c...)
		bools = append(bools, bf...)
	}
	return cmps, bools
}

func ExpandCond(v ssa.Value, pol bool) ([]Cmp, []BoolFact) {
	switch x := v.(type) {
	case *ssa.UnOp:
		if x.Op == token.NOT {
			return ExpandCond(x.X, !pol)
		}
		if x.Op == token.MUL {
			if fw := Forward(x); fw != ssa.Value(x) {
				c, b := ExpandCond(fw, pol)
				return c, append(b, BoolFact{v, pol})
			}
		}
	case *ssa.BinOp:
		switch x.Op {
		case token.EQL, token.NEQ, token.LSS, token.LEQ, token.GTR, token.GEQ:
			op := x.Op
			if !pol {
				op = negateOp(op)
			}
			// bool == const
			if b, ok := ConstBool(x.Y); ok && (x.Op == token.EQL || x.Op == token.NEQ) {
				return ExpandCond(x.X, (op == token.EQL) == b)
			}
			return []Cmp{{Forward(x.X), Forward(x.Y), op}}, []BoolFact{{v, pol}}
		}
	case *ssa.Phi:
		// bool phi produced by && / ||: if polarity pins every const edge away,
		// the remaining single non-const operand must hold.
		// a && b : phi [false (from !a), b]  ; true => b true (and a true via dominance)
		// a || b : phi [true (from a), b]    ; false => b false
		var rest []ssa.Value
		ok := true
		for _, e := range x.Edges {
			if cb, isc := ConstBool(e); isc {
				if cb == pol {
					ok = false // the constant edge already yields pol: nothing pinned
				}
				continue
			}
			rest = append(rest, e)
		}
		if ok && len(rest) == 1 {
			c, bf := ExpandCond(rest[0], pol)
			// the short-circuit condition also holds: find it from the phi's
			// block predecessors: pred ending in If whose cond decided the const edge
			for i, e := range x.Edges {
				if _, isc := ConstBool(e); isc {
					pb := x.Block().Preds[i]
					if ifi, isIf := pb.Instrs[len(pb.Instrs)-1].(*ssa.If); isIf {
						// taking the const edge means cond had some polarity;
						// since we did NOT take it, cond had the opposite.
						took := pb.Succs[0] == x.Block()
						c2, bf2 := ExpandCond(ifi.Cond, !took)
						c = append(c, c2...)
						bf = append(bf, bf2...)
					}
				}
			}
			return c, append(bf, BoolFact{v, pol})
		}
	}
	return nil, []BoolFact{{v, pol}}
}

// ---------------------------------------------------------------------------
// Path queries

// InstrPred selects instructions.
type InstrPred func(ssa.Instruction) bool

// PathResult describes a path found by a reachability query.
type PathResult struct {
	Found bool
	Exit  ssa.Instruction
	Trail []*ssa.BasicBlock
}

// ReachAvoiding searches forward from just after `from` (or from the function
// entry when from == nil) for an instruction satisfying target, without
// passing an instruction satisfying avoid. prune(edgeFrom, edgeTo) may veto a CFG edge.
func ReachAvoiding(f *ssa.Function, from ssa.Instruction, target, avoid InstrPred, prune func(from, to *ssa.BasicBlock) bool) PathResult {
	type item struct {
		b     *ssa.BasicBlock
		start int
	}
	parent := map[*ssa.BasicBlock]*ssa.BasicBlock{}
	visited := map[*ssa.BasicBlock]bool{}
	var queue []item
	if from == nil {
		if len(f.Blocks) == 0 {
			return PathResult{}
		}
		queue = append(queue, item{f.Blocks[0], 0})
		visited[f.Blocks[0]] = true
	} else {
		b := from.Block()
		idx := -1
		for k, i := range b.Instrs {
			if i == from {
				idx = k
			}
		}
		queue = append(queue, item{b, idx + 1})
		// the start block may be revisited from its top through a loop
	}
	for len(queue) > 0 {
		it := queue[0]
		queue = queue[1:]
		blocked := false
		for k := it.start; k < len(it.b.Instrs); k++ {
			ins := it.b.Instrs[k]
			if avoid != nil && avoid(ins) {
				blocked = true
				break
			}
			if target(ins) {
				var trail []*ssa.BasicBlock
				for b := it.b; b != nil; b = parent[b] {
					trail = append([]*ssa.BasicBlock{b}, trail...)
					if len(trail) > 200 {
						break
					}
				}
				return PathResult{true, ins, trail}
			}
		}
		if blocked {
			continue
		}
		for _, s := range it.b.Succs {
			if prune != nil && prune(it.b, s) {
				continue
			}
			if !visited[s] {
				visited[s] = true
				parent[s] = it.b
				queue = append(queue, item{s, 0})
			}
		}
	}
	return PathResult{}
}

// IsReturn matches return instructions.
func IsReturn(i ssa.Instruction) bool { _, ok := i.(*ssa.Return); return ok }

// TrailString renders a block trail with source lines.
func (p *Prog) TrailString(pr PathResult) string {
	var parts []string
	last := ""
	for _, b := range pr.Trail {
		pos := token.NoPos
		for _, i := range b.Instrs {
			if i.Pos().IsValid() {
				pos = i.Pos()
				break
			}
		}
		s := fmt.Sprintf("b%d", b.Index)
		if pos.IsValid() {
			s = fmt.Sprintf("b%d@L%d", b.Index, p.Fset.Position(pos).Line)
		}
		if s != last {
			parts = append(parts, s)
		}
		last = s
	}
	if len(parts) > 12 {
		parts = append(parts[:6], append([]string{"…"}, parts[len(parts)-5:]...)...)
	}
	return strings.Join(parts, "→")
}

// ---------------------------------------------------------------------------
// Census helpers over the analysed packages

// FieldStore is a write to a struct field.
type FieldStore struct {
	Fn    *ssa.Function
	Instr ssa.Instruction
	Val   ssa.Value // stored value (nil for map update/delete/append forms)
	Kind  string    // store | mapupdate | delete
}

// StoresTo lists every store (direct, map update, delete) to the given field
// in the analysed packages. Struct-literal initialisation (store into a
// field of a fresh Alloc) is reported with Kind "init".
func (p *Prog) StoresTo(field *types.Var) []FieldStore {
	var out []FieldStore
	for _, f := range p.SrcFuncs {
		EachInstr(f, func(i ssa.Instruction) {
			switch x := i.(type) {
			case *ssa.Store:
				if AddrField(x.Addr) == field {
					kind := "store"
					if fa := x.Addr.(*ssa.FieldAddr); isFreshAlloc(fa.X) {
						kind = "init"
					}
					out = append(out, FieldStore{f, i, x.Val, kind})
				}
			case *ssa.MapUpdate:
				if LoadedField(x.Map) == field {
					out = append(out, FieldStore{f, i, x.Value, "mapupdate"})
				}
			case *ssa.Call:
				if b, ok := x.Call.Value.(*ssa.Builtin); ok && b.Name() == "delete" {
					if LoadedField(x.Call.Args[0]) == field {
						out = append(out, FieldStore{f, i, nil, "delete"})
					}
				}
			}
		})
	}
	return out
}

func isFreshAlloc(v ssa.Value) bool {
	for {
		switch x := v.(type) {
		case *ssa.Alloc:
			return true
		case *ssa.FieldAddr:
			v = x.X
		default:
			return false
		}
	}
}

// CallSite is a call to a function of interest.
type CallSite struct {
	Fn   *ssa.Function
	Call ssa.CallInstruction
}

// CallsTo lists all calls (call/go/defer; static or invoke) whose callee key matches.
func (p *Prog) CallsTo(keys ...string) []CallSite {
	var out []CallSite
	for _, f := range p.SrcFuncs {
		EachInstr(f, func(i ssa.Instruction) {
			if c, ok := IsCall(i, keys...); ok {
				out = append(out, CallSite{f, c})
			}
		})
	}
	return out
}

// CallsIn lists calls within one function (not descending into closures).
func CallsIn(f *ssa.Function, keys ...string) []ssa.CallInstruction {
	var out []ssa.CallInstruction
	EachInstr(f, func(i ssa.Instruction) {
		if c, ok := IsCall(i, keys...); ok {
			out = append(out, c)
		}
	})
	return out
}

// WithAnon returns f and all closures nested in it.
func WithAnon(f *ssa.Function) []*ssa.Function {
	out := []*ssa.Function{f}
	for _, a := range f.AnonFuncs {
		out = append(out, WithAnon(a)...)
	}
	return out
}

// Reachable computes the set of functions reachable from roots over static
// callees, VTA edges for dynamic calls, and closures created.
func (p *Prog) Reachable(roots ...*ssa.Function) map[*ssa.Function]bool {
	seen := map[*ssa.Function]bool{}
	var work []*ssa.Function
	push := func(f *ssa.Function) {
		if f != nil && !seen[f] {
			seen[f] = true
			work = append(work, f)
		}
	}
	for _, r := range roots {
		push(r)
	}
	for len(work) > 0 {
		f := work[len(work)-1]
		work = work[:len(work)-1]
		if f.Blocks == nil {
			continue
		}
		EachInstr(f, func(i ssa.Instruction) {
			if c, ok := i.(ssa.CallInstruction); ok {
				for _, t := range p.Callees(c) {
					push(t)
				}
			}
			if mc, ok := i.(*ssa.MakeClosure); ok {
				push(mc.Fn.(*ssa.Function))
			}
		})
	}
	return seen
}

// SortedFuncs returns the keys of a function set, sorted by name.
func SortedFuncs(m map[*ssa.Function]bool) []*ssa.Function {
	var out []*ssa.Function
	for f := range m {
		out = append(out, f)
	}
	sort.Slice(out, func(i, j int) bool { return out[i].String() < out[j].String() })
	return out
}

// CallersClosure returns every function from which some function in `targets`
// is reachable in the VTA call graph (targets included).
func (p *Prog) CallersClosure(targets map[*ssa.Function]bool) map[*ssa.Function]bool {
	cg := p.CG()
	seen := map[*ssa.Function]bool{}
	var work []*ssa.Function
	for f := range targets {
		seen[f] = true
		work = append(work, f)
	}
	for len(work) > 0 {
		f := work[len(work)-1]
		work = work[:len(work)-1]
		n := cg.Nodes[f]
		if n != nil {
			for _, e := range n.In {
				c := e.Caller.Func
				if !seen[c] {
					seen[c] = true
					work = append(work, c)
				}
			}
		}
		// a closure is "called" by whoever can call it; additionally the
		// function that creates it is treated as reaching it only through calls.
	}
	return seen
}

// MayCall reports whether call site c may (transitively) reach a function in closure set cl.
func (p *Prog) MayCall(c ssa.CallInstruction, cl map[*ssa.Function]bool) bool {
	for _, t := range p.Callees(c) {
		if cl[t] {
			return true
		}
	}
	return false
}

// Forward performs store-to-load forwarding inside one basic block: a load of
// address A that follows a store to the same SSA address in the same block,
// with no call or other store to A in between, yields the stored value.
func Forward(v ssa.Value) ssa.Value {
	for depth := 0; depth < 8; depth++ {
		u, ok := v.(*ssa.UnOp)
		if !ok || u.Op != token.MUL {
			return v
		}
		b := u.Block()
		if b == nil {
			return v
		}
		idx := -1
		for k, i := range b.Instrs {
			if i == ssa.Instruction(u) {
				idx = k
			}
		}
		var found ssa.Value
		for k := idx - 1; k >= 0; k-- {
			switch x := b.Instrs[k].(type) {
			case *ssa.Store:
				if x.Addr == u.X {
					found = x.Val
				}
			case ssa.CallInstruction:
				if _, isB := x.Common().Value.(*ssa.Builtin); !isB {
					k = -1
				}
			}
			if found != nil {
				break
			}
		}
		if found == nil {
			return v
		}
		v = found
	}
	return v
}

// ReturnValues returns the returned values with defer-spilled result cells
// resolved by store-to-load forwarding.
func ReturnValues(ret *ssa.Return) []ssa.Value {
	out := make([]ssa.Value, len(ret.Results))
	for i, v := range ret.Results {
		out[i] = Forward(v)
	}
	return out
}

// IsRecoverBlock reports the synthetic block that runs after a recovered panic.
func IsRecoverBlock(b *ssa.BasicBlock) bool {
	return b.Parent().Recover == b
}

// CallersClosureWithin is CallersClosure restricted to edges whose caller satisfies keep
// (used to stop reachability from leaking through the standard library's
// interface dispatch, where the call graph is very coarse).
func (p *Prog) CallersClosureWithin(targets map[*ssa.Function]bool, keep func(*ssa.Function) bool) map[*ssa.Function]bool {
	cg := p.CG()
	seen := map[*ssa.Function]bool{}
	var work []*ssa.Function
	for f := range targets {
		seen[f] = true
		work = append(work, f)
	}
	for len(work) > 0 {
		f := work[len(work)-1]
		work = work[:len(work)-1]
		n := cg.Nodes[f]
		if n == nil {
			continue
		}
		for _, e := range n.In {
			c := e.Caller.Func
			if !seen[c] && keep(c) {
				seen[c] = true
				work = append(work, c)
			}
		}
	}
	return seen
}

// Loop is a natural loop identified by its header block.
type Loop struct {
	Header  *ssa.BasicBlock
	Blocks  map[*ssa.BasicBlock]bool
	Latches []*ssa.BasicBlock
}

// Loops finds the natural loops of f (back edges t->h where h dominates t).
func Loops(f *ssa.Function) []*Loop {
	byHeader := map[*ssa.BasicBlock]*Loop{}
	var order []*ssa.BasicBlock
	for _, b := range f.Blocks {
		for _, s := range b.Succs {
			if s.Dominates(b) {
				l := byHeader[s]
				if l == nil {
					l = &Loop{Header: s, Blocks: map[*ssa.BasicBlock]bool{s: true}}
					byHeader[s] = l
					order = append(order, s)
				}
				l.Latches = append(l.Latches, b)
				// collect body: blocks that reach the latch without passing the header
				stack := []*ssa.BasicBlock{b}
				for len(stack) > 0 {
					x := stack[len(stack)-1]
					stack = stack[:len(stack)-1]
					if l.Blocks[x] {
						continue
					}
					l.Blocks[x] = true
					stack = append(stack, x.Preds...)
				}
			}
		}
	}
	var out []*Loop
	for _, h := range order {
		out = append(out, byHeader[h])
	}
	return out
}

// queriedKeys records every callee key a rule asked about (IsCall and its
// users); UnresolvedKeys compares them with the functions and methods that
// exist in the loaded program: a key that names nothing means the code was
// renamed or restructured under a rule, whose verdict is then unreliable.
var queriedKeys = map[string]bool{}

// UnresolvedKeys lists queried callee keys that match no function, method or
// interface method of any loaded package.
func (p *Prog) UnresolvedKeys() []string {
	have := map[string]bool{}
	addObj := func(o *types.Func) {
		if o != nil {
			have[ShortKey(o)] = true
		}
	}
	for _, pk := range p.SSA.AllPackages() {
		if pk.Pkg == nil {
			continue
		}
		sc := pk.Pkg.Scope()
		for _, n := range sc.Names() {
			switch o := sc.Lookup(n).(type) {
			case *types.Func:
				addObj(o)
			case *types.TypeName:
				if nt, ok := o.Type().(*types.Named); ok {
					for k := 0; k < nt.NumMethods(); k++ {
						addObj(nt.Method(k))
					}
					if it, ok := nt.Underlying().(*types.Interface); ok {
						for k := 0; k < it.NumMethods(); k++ {
							addObj(it.Method(k))
						}
					}
				}
			}
		}
	}
	var out []string
	for k := range queriedKeys {
		if !have[k] {
			out = append(out, k)
		}
	}
	for k := range missingFields {
		out = append(out, k)
	}
	sort.Strings(out)
	return out
}

// CallsDeep lists calls to keys in f, in the closures f creates, and in the
// statically resolved callees of f inside the analysed packages, down to
// `depth` levels: the view a rule needs to be indifferent to a block of f
// having been extracted into a helper.
func (p *Prog) CallsDeep(f *ssa.Function, depth int, keys ...string) []ssa.CallInstruction {
	seen := map[*ssa.Function]bool{}
	var out []ssa.CallInstruction
	var walk func(g *ssa.Function, d int)
	walk = func(g *ssa.Function, d int) {
		if g == nil || seen[g] || len(g.Blocks) == 0 {
			return
		}
		seen[g] = true
		EachInstr(g, func(i ssa.Instruction) {
			if c, ok := IsCall(i, keys...); ok {
				out = append(out, c)
			}
			if mc, ok := i.(*ssa.MakeClosure); ok {
				if cf, ok := mc.Fn.(*ssa.Function); ok {
					walk(cf, d)
				}
			}
			if c, ok := i.(ssa.CallInstruction); ok && d > 0 {
				if cal := c.Common().StaticCallee(); cal != nil && p.InAnalysed(cal) {
					walk(cal, d-1)
				}
			}
		})
	}
	IsCall(nil, keys...)
	walk(f, depth)
	return out
}

// FuncsDeep lists f, its closures and its static callees in the analysed
// packages down to depth levels.
func (p *Prog) FuncsDeep(f *ssa.Function, depth int) []*ssa.Function {
	seen := map[*ssa.Function]bool{}
	var out []*ssa.Function
	var walk func(g *ssa.Function, d int)
	walk = func(g *ssa.Function, d int) {
		if g == nil || seen[g] || len(g.Blocks) == 0 {
			return
		}
		seen[g] = true
		out = append(out, g)
		EachInstr(g, func(i ssa.Instruction) {
			if mc, ok := i.(*ssa.MakeClosure); ok {
				if cf, ok := mc.Fn.(*ssa.Function); ok {
					walk(cf, d)
				}
			}
			if c, ok := i.(ssa.CallInstruction); ok && d > 0 {
				if cal := c.Common().StaticCallee(); cal != nil && p.InAnalysed(cal) {
					walk(cal, d-1)
				}
			}
		})
	}
	walk(f, depth)
	return out
}

// ThroughCell: when v is a load of a local cell (a variable captured by a
// closure, hence an Alloc) that is stored exactly once, the stored value;
// otherwise v. A field read hoisted into such a local is still that field.
func ThroughCell(v ssa.Value) ssa.Value {
	for d := 0; d < 4; d++ {
		u, ok := v.(*ssa.UnOp)
		if !ok || u.Op != token.MUL {
			return v
		}
		var cell ssa.Value = u.X
		if fv, isFV := cell.(*ssa.FreeVar); isFV {
			// the closure's free variable: find the binding in the parent
			par := fv.Parent().Parent()
			if par == nil {
				return v
			}
			idx := -1
			for k, x := range fv.Parent().FreeVars {
				if x == fv {
					idx = k
				}
			}
			found := false
			EachInstr(par, func(i ssa.Instruction) {
				if mc, isMC := i.(*ssa.MakeClosure); isMC && mc.Fn == ssa.Value(fv.Parent()) && idx >= 0 && idx < len(mc.Bindings) {
					cell = mc.Bindings[idx]
					found = true
				}
			})
			if !found {
				return v
			}
		}
		al, ok := cell.(*ssa.Alloc)
		if !ok || al.Referrers() == nil {
			return v
		}
		var stored ssa.Value
		n := 0
		for _, ref := range *al.Referrers() {
			if st, isSt := ref.(*ssa.Store); isSt && st.Addr == ssa.Value(al) {
				stored = st.Val
				n++
			}
		}
		if n != 1 {
			return v
		}
		v = stored
	}
	return v
}
