package core

import (
	"go/types"
	"sort"
	"strings"

	"golang.org/x/tools/go/ssa"
)

// LockMode is the strongest mode in which a mutex is known to be held.
type LockMode int

const (
	NotHeld LockMode = iota
	RHeld
	WHeld
)

// LockSet maps a mutex (identified by the struct field holding it, or by the
// package-level variable) to the mode in which it is definitely held.
type LockSet map[types.Object]LockMode

func (s LockSet) clone() LockSet {
	o := LockSet{}
	for k, v := range s {
		o[k] = v
	}
	return o
}

func meet(a, b LockSet) LockSet {
	o := LockSet{}
	for k, v := range a {
		if w, ok := b[k]; ok {
			if w < v {
				v = w
			}
			if v != NotHeld {
				o[k] = v
			}
		}
	}
	return o
}

func equalLS(a, b LockSet) bool {
	if len(a) != len(b) {
		return false
	}
	for k, v := range a {
		if b[k] != v {
			return false
		}
	}
	return true
}

// String renders a lockset.
func (s LockSet) String() string {
	var parts []string
	for k, v := range s {
		m := "R"
		if v == WHeld {
			m = "W"
		}
		parts = append(parts, LockName(k)+":"+m)
	}
	sort.Strings(parts)
	return "{" + strings.Join(parts, ",") + "}"
}

// LockName names a mutex object.
func LockName(o types.Object) string {
	if o == nil {
		return "?"
	}
	return o.Name() + "@" + o.Pkg().Name() + ":" + ownerOf(o)
}

var fieldOwner = map[types.Object]string{}

func ownerOf(o types.Object) string {
	return fieldOwner[o]
}

// mutexObj resolves the receiver of a Lock/Unlock call to a mutex identity.
func mutexObj(v ssa.Value) types.Object {
	for {
		switch x := v.(type) {
		case *ssa.FieldAddr:
			return FieldOfAddr(x)
		case *ssa.Global:
			return x.Object()
		case *ssa.UnOp:
			// *sync.Mutex loaded from a field holding a pointer
			if f := LoadedField(x); f != nil {
				return f
			}
			return nil
		case *ssa.ChangeType:
			v = x.X
		case *ssa.Alloc:
			return nil
		default:
			return nil
		}
	}
}

// lockOp classifies a call: +W, +R, -W, -R on a mutex.
func lockOp(i ssa.Instruction) (obj types.Object, acquire bool, mode LockMode, ok bool) {
	c, isCall := i.(*ssa.Call)
	if !isCall {
		return
	}
	o := CalleeObj(c)
	if o == nil || o.Pkg() == nil || o.Pkg().Path() != "sync" {
		return
	}
	k := FuncKey(o)
	switch k {
	case "sync.Mutex.Lock", "sync.RWMutex.Lock":
		acquire, mode = true, WHeld
	case "sync.RWMutex.RLock":
		acquire, mode = true, RHeld
	case "sync.Mutex.Unlock", "sync.RWMutex.Unlock":
		acquire, mode = false, WHeld
	case "sync.RWMutex.RUnlock":
		acquire, mode = false, RHeld
	default:
		return
	}
	args := CallArgs(c)
	if len(args) == 0 {
		return
	}
	obj = mutexObj(args[0])
	if obj == nil {
		return
	}
	return obj, acquire, mode, true
}

// Locks is the result of the lockset analysis.
type Locks struct {
	p     *Prog
	Entry map[*ssa.Function]LockSet   // locks definitely held on entry
	In    map[*ssa.BasicBlock]LockSet // at block entry
	at    map[ssa.Instruction]LockSet // before instruction (lazily filled)
	funcs map[*ssa.Function]bool
	// Acquires: functions that (transitively) acquire a given mutex
	callersOf map[*ssa.Function][]CallSite
}

// ComputeLocks runs the must-hold lockset analysis over the analysed functions.
// Entry locksets are the intersection over all static call sites; closures
// passed directly as an argument inherit the locks held where the callee
// invokes that parameter; address-taken, exported-API and goroutine entry
// functions start empty.
func (p *Prog) ComputeLocks() *Locks {
	L := &Locks{p: p, Entry: map[*ssa.Function]LockSet{}, In: map[*ssa.BasicBlock]LockSet{}, at: map[ssa.Instruction]LockSet{}, funcs: map[*ssa.Function]bool{}}
	for _, f := range p.SrcFuncs {
		L.funcs[f] = true
	}
	// record owner names for pretty printing
	for _, pk := range p.Pkgs {
		sc := pk.Types.Scope()
		for _, n := range sc.Names() {
			if tn, ok := sc.Lookup(n).(*types.TypeName); ok {
				recordOwners(tn.Name(), tn.Type().Underlying())
			}
		}
	}

	// call sites per callee (static), and closure-argument bindings
	type site struct {
		fn   *ssa.Function
		inst ssa.Instruction
	}
	sites := map[*ssa.Function][]site{}
	escaped := map[*ssa.Function]bool{} // function value used other than as direct callee / direct closure arg
	// closureArg[callee][paramIndex] = closures passed at that position
	type carg struct {
		callee *ssa.Function
		idx    int
	}
	closureArgs := map[carg][]*ssa.Function{}
	for _, f := range p.SrcFuncs {
		EachInstr(f, func(i ssa.Instruction) {
			switch c := i.(type) {
			case *ssa.Call:
				if cal := c.Call.StaticCallee(); cal != nil && L.funcs[cal] {
					sites[cal] = append(sites[cal], site{f, i})
					for k, a := range c.Call.Args {
						if mc, ok := a.(*ssa.MakeClosure); ok {
							closureArgs[carg{cal, k}] = append(closureArgs[carg{cal, k}], mc.Fn.(*ssa.Function))
						}
					}
				}
			case *ssa.Go:
				if cal := c.Call.StaticCallee(); cal != nil {
					escaped[cal] = true
				}
			case *ssa.Defer:
				if cal := c.Call.StaticCallee(); cal != nil {
					escaped[cal] = true // runs at exit; lock state there is not tracked
				}
			}
			// any other use of a function value makes it escaped
			var ops []*ssa.Value
			if _, isMC := i.(*ssa.MakeClosure); isMC {
				return
			}
			for _, op := range i.Operands(ops) {
				if op == nil || *op == nil {
					continue
				}
				var fn *ssa.Function
				switch v := (*op).(type) {
				case *ssa.Function:
					fn = v
				case *ssa.MakeClosure:
					fn = v.Fn.(*ssa.Function)
				}
				if fn == nil {
					continue
				}
				if c, ok := i.(*ssa.Call); ok {
					if c.Call.Value == *op {
						continue // direct callee
					}
					if cal := c.Call.StaticCallee(); cal != nil && L.funcs[cal] {
						if _, isMC := (*op).(*ssa.MakeClosure); isMC {
							continue // closure argument to an analysed function: bound below
						}
					}
				}
				escaped[fn] = true
			}
		})
	}
	// methods reachable through interfaces / exported: treat as escaped when exported or no static sites
	isRoot := func(f *ssa.Function) bool {
		if escaped[f] {
			return true
		}
		if f.Parent() != nil {
			// closure: rooted unless bound as a direct call or closure argument
			return false
		}
		if o := f.Object(); o != nil && o.Exported() {
			return true
		}
		if len(sites[f]) == 0 {
			return true
		}
		// methods may be invoked through interfaces: conservative if the method
		// set is used via invoke — approximated by "has a receiver and some interface in the
		// analysed packages has a method of that name" is too coarse; use VTA/CHA on demand instead.
		return false
	}

	top := LockSet(nil) // nil = TOP (unknown / all locks); distinguished from empty
	entry := map[*ssa.Function]LockSet{}
	known := map[*ssa.Function]bool{}
	for _, f := range p.SrcFuncs {
		if isRoot(f) {
			entry[f] = LockSet{}
			known[f] = true
		} else {
			entry[f] = top
		}
	}

	// paramCallLocks[callee][idx] = lockset at the sites where callee invokes its idx-th parameter
	analyse := func(f *ssa.Function, ent LockSet) {
		// forward must analysis
		in := map[*ssa.BasicBlock]LockSet{}
		seenB := map[*ssa.BasicBlock]bool{}
		work := []*ssa.BasicBlock{f.Blocks[0]}
		in[f.Blocks[0]] = ent.clone()
		seenB[f.Blocks[0]] = true
		for len(work) > 0 {
			b := work[0]
			work = work[1:]
			cur := in[b].clone()
			for _, i := range b.Instrs {
				if obj, acq, mode, ok := lockOp(i); ok {
					if acq {
						cur[obj] = mode
					} else {
						delete(cur, obj)
					}
				}
			}
			for _, s := range b.Succs {
				if !seenB[s] {
					seenB[s] = true
					in[s] = cur.clone()
					work = append(work, s)
				} else {
					m := meet(in[s], cur)
					if !equalLS(m, in[s]) {
						in[s] = m
						work = append(work, s)
					}
				}
			}
		}
		for b, s := range in {
			L.In[b] = s
		}
	}

	// iterate: analyse functions with known entry; propagate to callees.
	for iter := 0; iter < 12; iter++ {
		changed := false
		for _, f := range p.SrcFuncs {
			if entry[f] == nil {
				continue
			}
			analyse(f, entry[f])
		}
		newEntry := map[*ssa.Function]LockSet{}
		note := func(callee *ssa.Function, ls LockSet) {
			if known[callee] {
				return
			}
			if cur, ok := newEntry[callee]; ok {
				newEntry[callee] = meet(cur, ls)
			} else {
				newEntry[callee] = ls.clone()
			}
		}
		for _, f := range p.SrcFuncs {
			if entry[f] == nil {
				continue
			}
			EachInstr(f, func(i ssa.Instruction) {
				c, ok := i.(*ssa.Call)
				if !ok {
					return
				}
				ls := L.atInstr(i)
				if ls == nil {
					return // unreachable
				}
				if cal := c.Call.StaticCallee(); cal != nil && L.funcs[cal] {
					note(cal, ls)
					return
				}
				// call of a parameter (function-typed) : bind closures passed for it
				if prm, ok := c.Call.Value.(*ssa.Parameter); ok && !c.Call.IsInvoke() {
					for k, fp := range f.Params {
						if fp == prm {
							for _, cl := range closureArgs[carg{f, k}] {
								note(cl, ls)
							}
						}
					}
				}
			})
		}
		for f, ls := range newEntry {
			if entry[f] == nil || !equalLS(entry[f], ls) {
				entry[f] = ls
				changed = true
			}
		}
		if !changed {
			break
		}
	}
	for f, ls := range entry {
		if ls == nil {
			ls = LockSet{} // never reached from a root: treat as no locks
			analyse(f, ls)
		}
		L.Entry[f] = ls
	}
	return L
}

func recordOwners(owner string, t types.Type) {
	st, ok := t.(*types.Struct)
	if !ok {
		return
	}
	for i := 0; i < st.NumFields(); i++ {
		f := st.Field(i)
		if _, seen := fieldOwner[f]; !seen {
			fieldOwner[f] = owner
		}
		if _, isNamed := f.Type().(*types.Named); !isNamed {
			recordOwners(owner+"."+f.Name(), f.Type().Underlying())
		}
	}
}

// atInstr computes the lockset immediately before instruction i.
func (L *Locks) atInstr(i ssa.Instruction) LockSet {
	b := i.Block()
	in, ok := L.In[b]
	if !ok {
		return nil
	}
	cur := in.clone()
	for _, j := range b.Instrs {
		if j == i {
			return cur
		}
		if obj, acq, mode, ok := lockOp(j); ok {
			if acq {
				cur[obj] = mode
			} else {
				delete(cur, obj)
			}
		}
	}
	return cur
}

// At returns the locks definitely held immediately before instruction i
// (nil when i is unreachable).
func (L *Locks) At(i ssa.Instruction) LockSet { return L.atInstr(i) }

// Holds reports whether mutex obj is held in at least the given mode before i.
func (L *Locks) Holds(i ssa.Instruction, obj types.Object, mode LockMode) bool {
	ls := L.atInstr(i)
	if ls == nil {
		return true // unreachable code holds vacuously
	}
	return ls[obj] >= mode
}

// LockEdge: To is acquired (possibly in a callee) while From is held.
type LockEdge struct {
	From, To types.Object
	Fn       *ssa.Function
	Instr    ssa.Instruction
}

// Order computes the lock-order graph over the analysed functions and returns
// its edges and the strongly connected components with more than one mutex
// (or a self edge), i.e. potential deadlock cycles.
func (L *Locks) Order() ([]LockEdge, [][]types.Object) {
	p := L.p
	// acq[f]: mutexes f may acquire, directly or through callees in the analysed packages
	acq := map[*ssa.Function]map[types.Object]bool{}
	callees := map[*ssa.Function][]*ssa.Function{}
	for _, f := range p.SrcFuncs {
		acq[f] = map[types.Object]bool{}
		EachInstr(f, func(i ssa.Instruction) {
			if obj, isAcq, _, ok := lockOp(i); ok && isAcq {
				acq[f][obj] = true
			}
			if c, ok := i.(*ssa.Call); ok {
				for _, t := range p.Callees(c) {
					if L.funcs[t] {
						callees[f] = append(callees[f], t)
					}
				}
				for _, a := range c.Call.Args {
					if mc, ok := a.(*ssa.MakeClosure); ok {
						callees[f] = append(callees[f], mc.Fn.(*ssa.Function))
					}
				}
			}
			if d, ok := i.(*ssa.Defer); ok {
				for _, t := range p.Callees(d) {
					if L.funcs[t] {
						callees[f] = append(callees[f], t)
					}
				}
			}
		})
	}
	for changed := true; changed; {
		changed = false
		for _, f := range p.SrcFuncs {
			for _, g := range callees[f] {
				for o := range acq[g] {
					if !acq[f][o] {
						acq[f][o] = true
						changed = true
					}
				}
			}
		}
	}
	var edges []LockEdge
	seen := map[[2]types.Object]bool{}
	addEdge := func(from, to types.Object, f *ssa.Function, i ssa.Instruction) {
		k := [2]types.Object{from, to}
		if seen[k] {
			return
		}
		seen[k] = true
		edges = append(edges, LockEdge{from, to, f, i})
	}
	for _, f := range p.SrcFuncs {
		EachInstr(f, func(i ssa.Instruction) {
			held := L.atInstr(i)
			if len(held) == 0 {
				return
			}
			if obj, isAcq, _, ok := lockOp(i); ok && isAcq {
				for h := range held {
					if h != obj {
						addEdge(h, obj, f, i)
					}
				}
				return
			}
			c, ok := i.(*ssa.Call)
			if !ok {
				return
			}
			for _, t := range p.Callees(c) {
				if !L.funcs[t] {
					continue
				}
				for o := range acq[t] {
					for h := range held {
						if h != o {
							addEdge(h, o, f, i)
						}
					}
				}
			}
		})
	}
	// SCCs (Tarjan) over mutex objects
	adj := map[types.Object][]types.Object{}
	nodes := map[types.Object]bool{}
	for _, e := range edges {
		adj[e.From] = append(adj[e.From], e.To)
		nodes[e.From], nodes[e.To] = true, true
	}
	index := map[types.Object]int{}
	low := map[types.Object]int{}
	on := map[types.Object]bool{}
	var stack []types.Object
	var sccs [][]types.Object
	n := 0
	var strong func(v types.Object)
	strong = func(v types.Object) {
		index[v], low[v] = n, n
		n++
		stack = append(stack, v)
		on[v] = true
		for _, w := range adj[v] {
			if _, ok := index[w]; !ok {
				strong(w)
				if low[w] < low[v] {
					low[v] = low[w]
				}
			} else if on[w] && index[w] < low[v] {
				low[v] = index[w]
			}
		}
		if low[v] == index[v] {
			var comp []types.Object
			for {
				w := stack[len(stack)-1]
				stack = stack[:len(stack)-1]
				on[w] = false
				comp = append(comp, w)
				if w == v {
					break
				}
			}
			if len(comp) > 1 {
				sccs = append(sccs, comp)
			}
		}
	}
	var ns []types.Object
	for v := range nodes {
		ns = append(ns, v)
	}
	sort.Slice(ns, func(i, j int) bool { return LockName(ns[i]) < LockName(ns[j]) })
	for _, v := range ns {
		if _, ok := index[v]; !ok {
			strong(v)
		}
	}
	sort.Slice(edges, func(i, j int) bool {
		a, b := LockName(edges[i].From)+">"+LockName(edges[i].To), LockName(edges[j].From)+">"+LockName(edges[j].To)
		return a < b
	})
	return edges, sccs
}

// FieldAccess is one read or write of a struct field.
type FieldAccess struct {
	Fn    *ssa.Function
	Instr ssa.Instruction
	Write bool
	Fresh bool // the base object is allocated in this function and not yet published
	Held  LockSet
}

// AccessesOf lists every access to the given field in the analysed functions.
// The field's address is followed through phis, returns (address getters such as
// connectionsFor) and static call arguments; a store through the address, a map
// update / delete on the loaded map, is a write; a load is a read.
func (L *Locks) AccessesOf(field *types.Var) []FieldAccess {
	var out []FieldAccess
	type item struct {
		v     ssa.Value
		fresh bool
	}
	seen := map[ssa.Value]bool{}
	var work []item
	push := func(v ssa.Value, fresh bool) {
		if v != nil && !seen[v] {
			seen[v] = true
			work = append(work, item{v, fresh})
		}
	}
	// static call sites per callee (for returns)
	sites := map[*ssa.Function][]*ssa.Call{}
	for _, f := range L.p.SrcFuncs {
		EachInstr(f, func(i ssa.Instruction) {
			if c, ok := i.(*ssa.Call); ok {
				if cal := c.Call.StaticCallee(); cal != nil {
					sites[cal] = append(sites[cal], c)
				}
			}
			switch x := i.(type) {
			case *ssa.FieldAddr:
				if FieldOfAddr(x) == field {
					push(x, isFreshAlloc(x.X))
				}
			case *ssa.Field:
				if FieldOfField(x) == field {
					out = append(out, FieldAccess{f, i, false, false, L.atInstr(i)})
				}
			}
		})
	}
	for len(work) > 0 {
		it := work[len(work)-1]
		work = work[:len(work)-1]
		refs := it.v.Referrers()
		if refs == nil {
			continue
		}
		for _, ref := range *refs {
			f := ref.Parent()
			switch x := ref.(type) {
			case *ssa.Store:
				if x.Addr == it.v {
					out = append(out, FieldAccess{f, x, true, it.fresh, L.atInstr(x)})
				}
			case *ssa.UnOp:
				w := false
				var at ssa.Instruction = x
				if lr := x.Referrers(); lr != nil {
					for _, r2 := range *lr {
						switch y := r2.(type) {
						case *ssa.MapUpdate:
							if y.Map == ssa.Value(x) {
								w, at = true, y
							}
						case *ssa.Call:
							if b, ok := y.Call.Value.(*ssa.Builtin); ok && b.Name() == "delete" && y.Call.Args[0] == ssa.Value(x) {
								w, at = true, y
							}
						}
					}
				}
				out = append(out, FieldAccess{f, at, w, it.fresh, L.atInstr(at)})
				// a map (or slice) header loaded from the field is an alias of
				// the guarded storage: every later iteration step or element
				// access through it is an access of the field at that point
				switch x.Type().Underlying().(type) {
				case *types.Map, *types.Slice:
					if lr := x.Referrers(); lr != nil {
						for _, r2 := range *lr {
							switch y := r2.(type) {
							case *ssa.Range:
								if y.X != ssa.Value(x) || y.Referrers() == nil {
									continue
								}
								for _, r3 := range *y.Referrers() {
									if nx, ok := r3.(*ssa.Next); ok {
										out = append(out, FieldAccess{f, nx, false, it.fresh, L.atInstr(nx)})
									}
								}
							case *ssa.Lookup:
								if y.X == ssa.Value(x) {
									out = append(out, FieldAccess{f, y, false, it.fresh, L.atInstr(y)})
								}
							case *ssa.IndexAddr:
								if y.X != ssa.Value(x) || y.Referrers() == nil {
									continue
								}
								for _, r3 := range *y.Referrers() {
									switch z := r3.(type) {
									case *ssa.UnOp:
										out = append(out, FieldAccess{f, z, false, it.fresh, L.atInstr(z)})
									case *ssa.Store:
										if z.Addr == ssa.Value(y) {
											out = append(out, FieldAccess{f, z, true, it.fresh, L.atInstr(z)})
										}
									}
								}
							}
						}
					}
				}
			case *ssa.Phi:
				push(x, it.fresh)
			case *ssa.Return:
				for _, c := range sites[f] {
					if len(x.Results) == 1 {
						push(c, false)
					}
				}
			case *ssa.Call:
				if cal := x.Call.StaticCallee(); cal != nil && cal.Blocks != nil {
					for ai, a := range x.Call.Args {
						if a == it.v && ai < len(cal.Params) {
							push(cal.Params[ai], false)
						}
					}
				}
			case *ssa.FieldAddr, *ssa.IndexAddr, *ssa.DebugRef:
			}
		}
	}
	return out
}

// LockOp classifies a call as a mutex acquire/release.
func LockOp(i ssa.Instruction) (types.Object, bool, LockMode, bool) { return lockOp(i) }

// LockOpExported: the mutex object, direction and mode of a sync lock call,
// plus the value whose mutex it is (the struct the mutex field belongs to).
func LockOpBase(i ssa.Instruction) (obj types.Object, acquire bool, base ssa.Value, ok bool) {
	o, acq, _, isOp := lockOp(i)
	if !isOp {
		return nil, false, nil, false
	}
	args := CallArgs(i.(*ssa.Call))
	v := args[0]
	for {
		switch x := v.(type) {
		case *ssa.FieldAddr:
			// the outermost struct the (possibly embedded) mutex lives in
			v = x.X
			if _, deeper := v.(*ssa.FieldAddr); deeper {
				continue
			}
			return o, acq, v, true
		case *ssa.UnOp:
			v = x.X
			continue
		}
		break
	}
	return o, acq, v, true
}
