package core

import (
	"fmt"
	"go/ast"
	"go/constant"
	"go/token"
	"go/types"
	"strings"

	"golang.org/x/tools/go/ssa"
)

// ---------------------------------------------------------------------------
// E5: wire-layout extraction. The sequence grammar of primitive operations a
// codec function performs on its typed.ReadBuffer / WriteBuffer / Reader /
// Writer is extracted from the syntax tree and rendered canonically.

// LNode is one element of a layout grammar.
type LNode struct {
	Kind     string // u8 u16 u32 u64 uv | s8 s16 sv (length-prefixed) | bytes (fixed n) | var (variable, length from elsewhere) | rep8 rep16 (counted repetition) | opt
	N        int64  // byte count for "bytes"
	Label    string // field name read into / written from (last selector component)
	Body     []LNode
	lenOf    bool // (writer) the value written is len(Label) or a deferred count
	deferred bool
}

// Layout is a sequence.
type Layout []LNode

// String renders the labelled canonical form.
func (l Layout) String() string { return l.render(true) }

// Widths renders the flattened form: adjacent fixed-width items merged, labels dropped.
func (l Layout) Widths() string { return flatten(l).render(false) }

func (l Layout) render(labels bool) string {
	var parts []string
	for _, n := range l {
		s := n.Kind
		switch n.Kind {
		case "bytes":
			s = fmt.Sprintf("b%d", n.N)
		case "rep8", "rep16", "opt":
			s = n.Kind + "[" + Layout(n.Body).render(labels) + "]"
		}
		if labels && n.Label != "" {
			s += ":" + n.Label
		}
		parts = append(parts, s)
	}
	return strings.Join(parts, " ")
}

func width(kind string) int64 {
	switch kind {
	case "u8":
		return 1
	case "u16":
		return 2
	case "u32":
		return 4
	case "u64":
		return 8
	}
	return -1
}

func flatten(l Layout) Layout {
	var out Layout
	acc := int64(0)
	flush := func() {
		if acc > 0 {
			out = append(out, LNode{Kind: "bytes", N: acc})
			acc = 0
		}
	}
	for _, n := range l {
		if w := width(n.Kind); w > 0 {
			acc += w
			continue
		}
		if n.Kind == "bytes" {
			acc += n.N
			continue
		}
		flush()
		m := LNode{Kind: n.Kind}
		if len(n.Body) > 0 {
			m.Body = flatten(n.Body)
		}
		out = append(out, m)
	}
	flush()
	return out
}

// bufferKinds: receiver type -> method -> token.
var layoutMethods = map[string]string{
	"ReadSingleByte": "u8", "ReadByte": "u8", "ReadUint16": "u16", "ReadUint32": "u32", "ReadUint64": "u64", "ReadUvarint": "uv",
	"ReadLen8String": "s8", "ReadLen16String": "s16",
	"WriteSingleByte": "u8", "WriteByte": "u8", "WriteUint16": "u16", "WriteUint32": "u32", "WriteUint64": "u64", "WriteUvarint": "uv",
	"WriteLen8String": "s8", "WriteLen16String": "s16", "WriteLen16Bytes": "s16", "WriteLen8Bytes": "s8",
	"DeferByte": "u8", "DeferUint16": "u16", "DeferUint32": "u32", "DeferUint64": "u64",
}

var layoutVarMethods = map[string]bool{
	"ReadBytes": true, "SkipBytes": true, "ReadString": true, "WriteBytes": true, "WriteString": true, "DeferBytes": true,
}

var layoutNeutral = map[string]bool{
	"Err": true, "BytesRead": true, "BytesRemaining": true, "Remaining": true, "BytesWritten": true, "Release": true, "Wrap": true, "FlushTo": true, "Flush": true, "Reset": true,
}

func isBufferType(t types.Type) bool {
	n, ok := Deref(t).(*types.Named)
	if !ok || n.Obj().Pkg() == nil || n.Obj().Pkg().Path() != Root+"/typed" {
		return false
	}
	switch n.Obj().Name() {
	case "ReadBuffer", "WriteBuffer", "Reader", "Writer":
		return true
	}
	return false
}

// LayoutExtractor walks codec functions.
type LayoutExtractor struct {
	P      *Prog
	Errs   []string
	active map[*ssa.Function]bool
}

// Extract returns the layout performed by f on its buffer-typed parameter (or receiver).
func (x *LayoutExtractor) Extract(f *ssa.Function) Layout {
	if x.active == nil {
		x.active = map[*ssa.Function]bool{}
	}
	if x.active[f] {
		x.Errs = append(x.Errs, "recursive codec function "+FuncName(f))
		return nil
	}
	x.active[f] = true
	defer delete(x.active, f)
	syn := f.Syntax()
	var body *ast.BlockStmt
	switch s := syn.(type) {
	case *ast.FuncDecl:
		body = s.Body
	case *ast.FuncLit:
		body = s.Body
	}
	if body == nil {
		x.Errs = append(x.Errs, "no syntax for "+FuncName(f))
		return nil
	}
	info := x.P.TypesInfo(f.Pos())
	if info == nil {
		x.Errs = append(x.Errs, "no type info for "+FuncName(f))
		return nil
	}
	w := &lwalk{x: x, info: info, fn: f, lenVars: map[types.Object]int{}}
	w.block(body.List)
	return w.out
}

type lwalk struct {
	x    *LayoutExtractor
	info *types.Info
	fn   *ssa.Function
	out  Layout
	// lenVars: variable -> index in out of the fixed-width token it was read from (for s8/s16/rep normalisation)
	lenVars map[types.Object]int
}

func (w *lwalk) errf(pos token.Pos, format string, a ...interface{}) {
	w.x.Errs = append(w.x.Errs, w.x.P.Pos(pos)+": "+fmt.Sprintf(format, a...))
}

func (w *lwalk) block(stmts []ast.Stmt) {
	for k, s := range stmts {
		w.stmt(s)
		// an `if … { continue / break }` makes everything after it in this
		// block conditional: inside a repetition the buffer operations that
		// follow are then not performed for every counted element
		if ifs, ok := s.(*ast.IfStmt); ok && ifs.Else == nil && endsInBranch(ifs.Body) && k+1 < len(stmts) {
			rest := &lwalk{x: w.x, info: w.info, fn: w.fn, lenVars: w.lenVars}
			rest.block(stmts[k+1:])
			if len(rest.out) > 0 {
				w.out = append(w.out, LNode{Kind: "opt", Body: rest.out})
			}
			return
		}
	}
}

// endsInBranch: the block's last statement is continue or break.
func endsInBranch(b *ast.BlockStmt) bool {
	if b == nil || len(b.List) == 0 {
		return false
	}
	br, ok := b.List[len(b.List)-1].(*ast.BranchStmt)
	return ok && (br.Tok == token.CONTINUE || br.Tok == token.BREAK)
}

func (w *lwalk) stmt(s ast.Stmt) {
	switch st := s.(type) {
	case *ast.ExprStmt:
		w.expr(st.X, "")
	case *ast.AssignStmt:
		for i, r := range st.Rhs {
			label := ""
			var lhsObj types.Object
			if len(st.Lhs) == len(st.Rhs) {
				label = labelOf(st.Lhs[i])
				if id, ok := st.Lhs[i].(*ast.Ident); ok {
					lhsObj = w.info.ObjectOf(id)
				}
			}
			before := len(w.out)
			w.expr(r, label)
			if lhsObj != nil && len(w.out) == before+1 && (width(w.out[before].Kind) > 0 || w.out[before].Kind == "uv") {
				w.lenVars[lhsObj] = before
			}
		}
	case *ast.DeclStmt:
		if gd, ok := st.Decl.(*ast.GenDecl); ok {
			for _, sp := range gd.Specs {
				if vs, ok := sp.(*ast.ValueSpec); ok {
					for i, v := range vs.Values {
						before := len(w.out)
						w.expr(v, vs.Names[i].Name)
						if len(w.out) == before+1 && (width(w.out[before].Kind) > 0 || w.out[before].Kind == "uv") {
							w.lenVars[w.info.ObjectOf(vs.Names[i])] = before
						}
					}
				}
			}
		}
	case *ast.ReturnStmt:
		for _, r := range st.Results {
			w.expr(r, "")
		}
	case *ast.IfStmt:
		if st.Init != nil {
			w.stmt(st.Init)
		}
		w.expr(st.Cond, "")
		sub := &lwalk{x: w.x, info: w.info, fn: w.fn, lenVars: w.lenVars}
		sub.block(st.Body.List)
		var els Layout
		if st.Else != nil {
			e := &lwalk{x: w.x, info: w.info, fn: w.fn, lenVars: w.lenVars}
			e.stmt(st.Else)
			els = e.out
		}
		if len(sub.out) > 0 || len(els) > 0 {
			if len(els) > 0 {
				w.out = append(w.out, LNode{Kind: "opt", Body: sub.out}, LNode{Kind: "opt", Body: els})
			} else {
				w.out = append(w.out, LNode{Kind: "opt", Body: sub.out})
			}
		}
	case *ast.BlockStmt:
		w.block(st.List)
	case *ast.ForStmt:
		if st.Init != nil {
			w.stmt(st.Init)
		}
		countIdx := -1
		if st.Cond != nil {
			// i < int(n)  -> n bound to a previously read fixed-width token
			ast.Inspect(st.Cond, func(n ast.Node) bool {
				if be, ok := n.(*ast.BinaryExpr); ok && (be.Op == token.LSS || be.Op == token.LEQ) {
					if obj := w.identObj(be.Y); obj != nil {
						if idx, ok := w.lenVars[obj]; ok {
							// the loop runs exactly count times: i := 0; i < n; i++ (or i := 1; i <= n; i++)
							if !w.countsFrom(st, be) {
								w.errf(st.Pos(), "index loop over a read count does not run exactly count times (start, comparison or step)")
								return true
							}
							countIdx = idx
						}
					}
				}
				return true
			})
			// count-down form: for i := n; i > 0; i-- (n bound to a read count)
			// (possibly one conjunct of the condition: `left > 0 && r.Err() == nil`)
			var conj []ast.Expr
			var split func(e ast.Expr)
			split = func(e ast.Expr) {
				if pe, isP := e.(*ast.ParenExpr); isP {
					split(pe.X)
					return
				}
				if b, isB := e.(*ast.BinaryExpr); isB && b.Op == token.LAND {
					split(b.X)
					split(b.Y)
					return
				}
				conj = append(conj, e)
			}
			split(st.Cond)
			for _, cj := range conj {
				be, ok := cj.(*ast.BinaryExpr)
				if !ok || be.Op != token.GTR || countIdx >= 0 {
					continue
				}
				if lit, isLit := be.Y.(*ast.BasicLit); isLit && lit.Value == "0" {
					if as, isAs := st.Init.(*ast.AssignStmt); isAs && len(as.Lhs) == 1 && len(as.Rhs) == 1 {
						iv := w.identObj(as.Lhs[0])
						if iv != nil && iv == w.identObj(be.X) {
							if inc, isInc := st.Post.(*ast.IncDecStmt); isInc && inc.Tok == token.DEC && w.identObj(inc.X) == iv {
								if obj := w.identObj(as.Rhs[0]); obj != nil {
									if idx, ok := w.lenVars[obj]; ok {
										countIdx = idx
									}
								}
								// for n := int(r.ReadX()); n > 0; n-- : the counter itself holds the read count
								if idx, ok := w.lenVars[iv]; ok && countIdx < 0 {
									countIdx = idx
								}
							}
						}
					}
				}
			}
			// writer-side index loop: for i := 0; i < len(X); i++ after len(X) was written
			if be, ok := st.Cond.(*ast.BinaryExpr); ok && be.Op == token.LSS && countIdx < 0 {
				if ce, isCall := be.Y.(*ast.CallExpr); isCall && len(ce.Args) == 1 {
					if id, isID := ce.Fun.(*ast.Ident); isID && id.Name == "len" {
						if idx := len(w.out) - 1; idx >= 0 && w.out[idx].lenOf && (w.out[idx].Label == labelOf(ce.Args[0]) || w.out[idx].deferred) {
							countIdx = idx
						}
					}
				}
			}
			before := len(w.out)
			w.expr(st.Cond, "")
			if len(w.out) != before {
				w.errf(st.Pos(), "loop condition consumes from the buffer")
			}
		}
		sub := &lwalk{x: w.x, info: w.info, fn: w.fn, lenVars: w.lenVars}
		sub.block(st.Body.List)
		if len(sub.out) > 0 {
			w.loop(st.Pos(), countIdx, sub.out)
		}
	case *ast.RangeStmt:
		sub := &lwalk{x: w.x, info: w.info, fn: w.fn, lenVars: w.lenVars}
		sub.block(st.Body.List)
		if len(sub.out) > 0 {
			// a range whose body is just an inner repetition (multi-valued map) counts the inner items
			body := sub.out
			if len(body) == 1 && body[0].Kind == "rep?" {
				body = body[0].Body
				// drop the error recorded for the inner loop
				if n := len(w.x.Errs); n > 0 && strings.Contains(w.x.Errs[n-1], "repetition whose count") {
					w.x.Errs = w.x.Errs[:n-1]
				}
			}
			// writer side: the count is the immediately preceding fixed-width token written from len(X) (or deferred)
			idx := len(w.out) - 1
			if idx >= 0 && !(w.out[idx].lenOf && (w.out[idx].Label == labelOf(st.X) || w.out[idx].deferred)) {
				idx = -1
			}
			w.loop(st.Pos(), idx, body)
		}
	case *ast.SwitchStmt, *ast.TypeSwitchStmt, *ast.SelectStmt:
		// not expected in codecs: any buffer use inside is reported by expr via callsOnBuffer
		ast.Inspect(s, func(n ast.Node) bool {
			if ce, ok := n.(*ast.CallExpr); ok && w.bufferCall(ce) {
				w.errf(ce.Pos(), "buffer operation inside a switch/select is not expressible")
			}
			return true
		})
	case *ast.DeferStmt:
		w.expr(st.Call, "")
	case *ast.IncDecStmt, *ast.BranchStmt, *ast.EmptyStmt, *ast.GoStmt, *ast.LabeledStmt:
	}
}

// countsFrom: the for statement's counter is the left operand of cmp, starts at
// 0 (for <) or 1 (for <=), and is incremented by one in the post statement.
func (w *lwalk) countsFrom(st *ast.ForStmt, cmp *ast.BinaryExpr) bool {
	iv := w.identObj(cmp.X)
	if iv == nil {
		return false
	}
	inc, ok := st.Post.(*ast.IncDecStmt)
	if !ok || inc.Tok != token.INC || w.identObj(inc.X) != iv {
		return false
	}
	as, ok := st.Init.(*ast.AssignStmt)
	if !ok || len(as.Lhs) != 1 || len(as.Rhs) != 1 || w.identObj(as.Lhs[0]) != iv {
		return false
	}
	lit, ok := as.Rhs[0].(*ast.BasicLit)
	if !ok {
		return false
	}
	return (cmp.Op == token.LSS && lit.Value == "0") || (cmp.Op == token.LEQ && lit.Value == "1")
}

func (w *lwalk) loop(pos token.Pos, countIdx int, body Layout) {
	if countIdx >= 0 && countIdx == len(w.out)-1 {
		kind := ""
		switch w.out[countIdx].Kind {
		case "u8":
			kind = "rep8"
		case "u16":
			kind = "rep16"
		}
		if kind != "" {
			lbl := w.out[countIdx].Label
			w.out = w.out[:countIdx]
			w.out = append(w.out, LNode{Kind: kind, Label: lbl, Body: body})
			return
		}
	}
	w.out = append(w.out, LNode{Kind: "rep?", Body: body})
	w.errf(pos, "repetition whose count is not the immediately preceding 8/16-bit field")
}

func (w *lwalk) identObj(e ast.Expr) types.Object {
	for {
		switch x := e.(type) {
		case *ast.ParenExpr:
			e = x.X
			continue
		case *ast.CallExpr:
			// conversion int(n)
			if len(x.Args) == 1 {
				if tv, ok := w.info.Types[x.Fun]; ok && tv.IsType() {
					e = x.Args[0]
					continue
				}
			}
			return nil
		case *ast.Ident:
			return w.info.ObjectOf(x)
		}
		return nil
	}
}

func labelOf(e ast.Expr) string {
	switch x := e.(type) {
	case *ast.Ident:
		return x.Name
	case *ast.SelectorExpr:
		return x.Sel.Name
	case *ast.ParenExpr:
		return labelOf(x.X)
	case *ast.StarExpr:
		return labelOf(x.X)
	case *ast.CallExpr:
		// conversion or accessor: label of the single argument / receiver
		if len(x.Args) == 1 {
			return labelOf(x.Args[0])
		}
		if se, ok := x.Fun.(*ast.SelectorExpr); ok && len(x.Args) == 0 {
			return labelOf(se.X)
		}
	case *ast.BinaryExpr:
		return labelOf(x.X)
	case *ast.IndexExpr:
		return labelOf(x.X)
	}
	return ""
}

// bufferCall: call is a method on a buffer-typed value.
func (w *lwalk) bufferCall(ce *ast.CallExpr) bool {
	se, ok := ce.Fun.(*ast.SelectorExpr)
	if !ok {
		return false
	}
	tv, ok := w.info.Types[se.X]
	return ok && isBufferType(tv.Type)
}

// expr processes calls inside e in evaluation order.
func (w *lwalk) expr(e ast.Expr, label string) {
	if e == nil {
		return
	}
	switch x := e.(type) {
	case *ast.CallExpr:
		// conversion: descend
		if tv, ok := w.info.Types[x.Fun]; ok && tv.IsType() {
			for _, a := range x.Args {
				w.expr(a, label)
			}
			return
		}
		if w.bufferCall(x) {
			se := x.Fun.(*ast.SelectorExpr)
			name := se.Sel.Name
			// arguments first (may themselves read)
			for _, a := range x.Args {
				w.expr(a, "")
			}
			if label == "" && len(x.Args) > 0 {
				label = labelOf(x.Args[0])
			}
			switch {
			case layoutMethods[name] != "":
				isLen := strings.HasPrefix(name, "Defer")
				if len(x.Args) == 1 {
					// the value written is len(X) itself (through conversions and
					// parentheses only): len(X)-1 or len(X)/2 is not a count of X
					a := x.Args[0]
					for {
						if pe, isP := a.(*ast.ParenExpr); isP {
							a = pe.X
							continue
						}
						if c, isC := a.(*ast.CallExpr); isC && len(c.Args) == 1 {
							if tv, isT := w.info.Types[c.Fun]; isT && tv.IsType() {
								a = c.Args[0]
								continue
							}
						}
						break
					}
					if c, ok := a.(*ast.CallExpr); ok {
						if id, ok := c.Fun.(*ast.Ident); ok && id.Name == "len" {
							isLen = true
						}
					}
				}
				w.out = append(w.out, LNode{Kind: layoutMethods[name], Label: label, lenOf: isLen, deferred: strings.HasPrefix(name, "Defer")})
			case layoutVarMethods[name]:
				w.varBytes(x, label)
			case layoutNeutral[name]:
			default:
				w.errf(x.Pos(), "unknown buffer method %s", name)
			}
			return
		}
		// receiver expression and args
		if se, ok := x.Fun.(*ast.SelectorExpr); ok {
			w.expr(se.X, "")
		}
		passes := false
		for _, a := range x.Args {
			if tv, ok := w.info.Types[a]; ok && isBufferType(tv.Type) {
				passes = true
			} else {
				w.expr(a, "")
			}
		}
		if passes {
			w.inline(x, label)
		}
	case *ast.BinaryExpr:
		w.expr(x.X, label)
		w.expr(x.Y, label)
	case *ast.UnaryExpr:
		w.expr(x.X, label)
	case *ast.ParenExpr:
		w.expr(x.X, label)
	case *ast.SelectorExpr:
		w.expr(x.X, "")
	case *ast.IndexExpr:
		w.expr(x.X, "")
		w.expr(x.Index, "")
	case *ast.CompositeLit:
		for _, el := range x.Elts {
			if kv, ok := el.(*ast.KeyValueExpr); ok {
				w.expr(kv.Value, labelOf(kv.Key))
			} else {
				w.expr(el, "")
			}
		}
	case *ast.KeyValueExpr:
		w.expr(x.Value, labelOf(x.Key))
	case *ast.StarExpr:
		w.expr(x.X, label)
	case *ast.TypeAssertExpr:
		w.expr(x.X, label)
	case *ast.SliceExpr:
		w.expr(x.X, "")
	case *ast.FuncLit:
	}
}

// varBytes handles ReadBytes / SkipBytes / ReadString / WriteBytes / WriteString.
func (w *lwalk) varBytes(ce *ast.CallExpr, label string) {
	name := ce.Fun.(*ast.SelectorExpr).Sel.Name
	if len(ce.Args) != 1 {
		w.errf(ce.Pos(), "%s with %d args", name, len(ce.Args))
		return
	}
	arg := ce.Args[0]
	isWrite := strings.HasPrefix(name, "Write")
	if !isWrite {
		// constant length
		if tv, ok := w.info.Types[arg]; ok && tv.Value != nil {
			if n, ok := constant.Int64Val(tv.Value); ok {
				w.out = append(w.out, LNode{Kind: "bytes", N: n, Label: label})
				return
			}
		}
		// len(array) constant handled by tv.Value; length from the immediately preceding fixed-width token
		if obj := w.identObj(arg); obj != nil {
			if idx, ok := w.lenVars[obj]; ok && idx == len(w.out)-1 {
				kind := map[string]string{"u8": "s8", "u16": "s16", "uv": "sv"}[w.out[idx].Kind]
				if kind != "" {
					w.out = w.out[:idx]
					w.out = append(w.out, LNode{Kind: kind, Label: label})
					return
				}
			}
		}
		// length computed by a call (e.g. checksum size of the type byte just read)
		w.out = append(w.out, LNode{Kind: "var", Label: label})
		return
	}
	// write of a byte sequence: s8/s16 when the immediately preceding token wrote len(same expr)
	if n := len(w.out); n > 0 {
		prev := w.out[n-1]
		if (prev.Kind == "u8" || prev.Kind == "u16" || prev.Kind == "uv") && prev.Label == labelOf(arg) && prev.Label != "" && prev.lenOf {
			kind := map[string]string{"u8": "s8", "u16": "s16", "uv": "sv"}[prev.Kind]
			w.out = w.out[:n-1]
			w.out = append(w.out, LNode{Kind: kind, Label: label})
			return
		}
	}
	if tv, ok := w.info.Types[arg]; ok {
		if arr, ok := tv.Type.Underlying().(*types.Array); ok {
			w.out = append(w.out, LNode{Kind: "bytes", N: arr.Len(), Label: label})
			return
		}
		if sl, ok := arg.(*ast.SliceExpr); ok {
			if tx, ok := w.info.Types[sl.X]; ok {
				if arr, ok := tx.Type.Underlying().(*types.Array); ok && sl.Low == nil && sl.High == nil {
					w.out = append(w.out, LNode{Kind: "bytes", N: arr.Len(), Label: labelOf(sl.X)})
					return
				}
			}
		}
	}
	w.out = append(w.out, LNode{Kind: "var", Label: label})
}

// inline expands a call that passes the buffer on.
func (w *lwalk) inline(ce *ast.CallExpr, label string) {
	var obj types.Object
	switch f := ce.Fun.(type) {
	case *ast.Ident:
		obj = w.info.ObjectOf(f)
	case *ast.SelectorExpr:
		obj = w.info.ObjectOf(f.Sel)
	}
	fo, ok := obj.(*types.Func)
	if !ok {
		w.errf(ce.Pos(), "buffer passed to a dynamic call")
		w.out = append(w.out, LNode{Kind: "?"})
		return
	}
	callee := w.x.P.SSA.FuncValue(fo)
	if callee == nil || callee.Syntax() == nil {
		// interface method (message.read / write): recorded as a named sub-layout
		w.out = append(w.out, LNode{Kind: "<" + fo.Name() + ">"})
		return
	}
	sub := w.x.Extract(callee)
	lbl := label
	if se, ok := ce.Fun.(*ast.SelectorExpr); ok && lbl == "" {
		lbl = labelOf(se.X)
	}
	_ = lbl
	w.out = append(w.out, sub...)
}
