// Package core holds the shared loader, program model and report plumbing
// used by every rule file.
package core

import (
	"fmt"
	"go/ast"
	"go/token"
	"go/types"
	"os"
	"sort"
	"strings"
	"sync"

	"golang.org/x/tools/go/callgraph"
	"golang.org/x/tools/go/callgraph/cha"
	"golang.org/x/tools/go/callgraph/vta"
	"golang.org/x/tools/go/packages"
	"golang.org/x/tools/go/ssa"
	"golang.org/x/tools/go/ssa/ssautil"
)

// Root is the import path of the repository under analysis.
const Root = "github.com/uber/tchannel-go"

// AnalysedPkgs are the packages carrying rule instances (relative to Root).
var AnalysedPkgs = []string{
	".", "./typed", "./thrift", "./thrift/arg2", "./http", "./json", "./raw",
	"./relay", "./tnet", "./internal/argreader", "./trand",
}

// LoadConfig selects the build configuration.
type LoadConfig struct {
	Dir     string // repository directory (default /repo)
	GOARCH  string
	GOOS    string
	Tests   bool
	Overlay map[string][]byte
}

// Prog is the resolved program.
type Prog struct {
	Cfg      LoadConfig
	Fset     *token.FileSet
	Pkgs     []*packages.Package          // analysed packages only
	ByPath   map[string]*packages.Package // every loaded package
	SSA      *ssa.Program
	SrcFuncs []*ssa.Function // functions (incl. anonymous) of analysed packages, sorted

	cgOnce  sync.Once
	cg      *callgraph.Graph
	chaOnce sync.Once
	chaG    *callgraph.Graph

	fileCache map[string]*ast.File
}

// RepoDir returns the directory analysed.
func RepoDir() string {
	if d := os.Getenv("TCHK_REPO"); d != "" {
		return d
	}
	return "/repo"
}

// Load parses, type-checks and lowers the analysed packages to SSA.
func Load(cfg LoadConfig) (*Prog, error) {
	if cfg.Dir == "" {
		cfg.Dir = RepoDir()
	}
	env := []string{}
	for _, e := range os.Environ() {
		if strings.HasPrefix(e, "GOWORK=") || strings.HasPrefix(e, "GOFLAGS=") ||
			strings.HasPrefix(e, "GOARCH=") || strings.HasPrefix(e, "GOOS=") {
			continue
		}
		env = append(env, e)
	}
	env = append(env, "GOWORK=off", "GOFLAGS=-mod=mod", "GOPROXY=off", "GOSUMDB=off", "GOTOOLCHAIN=local", "CGO_ENABLED=0")
	if cfg.GOARCH != "" {
		env = append(env, "GOARCH="+cfg.GOARCH)
	}
	if cfg.GOOS != "" {
		env = append(env, "GOOS="+cfg.GOOS)
	}
	pc := &packages.Config{
		Mode:    packages.LoadAllSyntax,
		Dir:     cfg.Dir,
		Env:     env,
		Tests:   cfg.Tests,
		Overlay: cfg.Overlay,
	}
	initial, err := packages.Load(pc, AnalysedPkgs...)
	if err != nil {
		return nil, fmt.Errorf("packages.Load: %v", err)
	}
	if len(initial) == 0 {
		return nil, fmt.Errorf("no packages loaded from %s", cfg.Dir)
	}
	p := &Prog{Cfg: cfg, ByPath: map[string]*packages.Package{}, fileCache: map[string]*ast.File{}}
	var errs []string
	packages.Visit(initial, nil, func(pk *packages.Package) {
		p.ByPath[pk.ID] = pk
		if _, ok := p.ByPath[pk.PkgPath]; !ok || !strings.Contains(pk.ID, "[") {
			p.ByPath[pk.PkgPath] = pk
		}
		for _, e := range pk.Errors {
			errs = append(errs, e.Error())
		}
	})
	if len(errs) > 0 {
		sort.Strings(errs)
		if len(errs) > 10 {
			errs = errs[:10]
		}
		return nil, fmt.Errorf("type/parse errors (tree does not build, cannot decide): %s", strings.Join(errs, "; "))
	}
	for _, pk := range initial {
		if strings.HasPrefix(pk.PkgPath, Root) && !strings.HasSuffix(pk.PkgPath, ".test") {
			p.Pkgs = append(p.Pkgs, pk)
		}
	}
	if len(p.Pkgs) < len(AnalysedPkgs) {
		return nil, fmt.Errorf("expected >= %d analysed packages, got %d", len(AnalysedPkgs), len(p.Pkgs))
	}
	p.Fset = initial[0].Fset
	prog, _ := ssautil.AllPackages(initial, ssa.InstantiateGenerics)
	prog.Build()
	p.SSA = prog
	seen := map[*ssa.Function]bool{}
	var add func(f *ssa.Function)
	add = func(f *ssa.Function) {
		if f == nil || seen[f] || f.Blocks == nil {
			return
		}
		seen[f] = true
		p.SrcFuncs = append(p.SrcFuncs, f)
		for _, a := range f.AnonFuncs {
			add(a)
		}
	}
	for _, pk := range p.Pkgs {
		sp := prog.Package(pk.Types)
		if sp == nil {
			return nil, fmt.Errorf("no SSA package for %s", pk.PkgPath)
		}
		for _, m := range sp.Members {
			switch m := m.(type) {
			case *ssa.Function:
				add(m)
			case *ssa.Type:
				for _, t := range []types.Type{m.Type(), types.NewPointer(m.Type())} {
					ms := prog.MethodSets.MethodSet(t)
					for i := 0; i < ms.Len(); i++ {
						f := prog.MethodValue(ms.At(i))
						if f != nil && f.Synthetic == "" {
							add(f)
						}
					}
				}
			}
		}
	}
	sort.Slice(p.SrcFuncs, func(i, j int) bool { return p.SrcFuncs[i].String() < p.SrcFuncs[j].String() })
	return p, nil
}

// pkgPath expands a short package name ("", "typed", "thrift/arg2") to its import path.
func pkgPath(short string) string {
	if short == "" || short == "." {
		return Root
	}
	if strings.Contains(short, ".") && strings.Contains(short, "/") && !strings.HasPrefix(short, "thrift") {
		return short // already a full path
	}
	return Root + "/" + short
}

// Pkg returns the types.Package for a short name, or nil.
func (p *Prog) Pkg(short string) *types.Package {
	pk := p.ByPath[pkgPath(short)]
	if pk == nil {
		return nil
	}
	return pk.Types
}

// Named looks up a named type.
func (p *Prog) Named(pkg, name string) *types.Named {
	tp := p.Pkg(pkg)
	if tp == nil {
		return nil
	}
	o := tp.Scope().Lookup(name)
	if o == nil {
		return nil
	}
	n, _ := o.Type().(*types.Named)
	return n
}

// Field looks up a struct field object "Type.field" (nested path allowed: "Channel.mutable.state").
// missingFields: field anchors a rule asked for that the loaded program does
// not have (renamed or removed): reported by UnresolvedKeys.
var missingFields = map[string]bool{}

func (p *Prog) Field(pkg, typ string, path ...string) *types.Var {
	v := p.field(pkg, typ, path...)
	if v == nil {
		missingFields["field "+typ+"."+strings.Join(path, ".")] = true
	}
	return v
}

func (p *Prog) field(pkg, typ string, path ...string) *types.Var {
	n := p.Named(pkg, typ)
	if n == nil {
		return nil
	}
	var t types.Type = n
	var v *types.Var
	for _, f := range path {
		st, ok := Deref(t).Underlying().(*types.Struct)
		if !ok {
			return nil
		}
		v = nil
		for i := 0; i < st.NumFields(); i++ {
			if st.Field(i).Name() == f {
				v = st.Field(i)
				break
			}
		}
		if v == nil {
			return nil
		}
		t = v.Type()
	}
	return v
}

// Deref strips one pointer.
func Deref(t types.Type) types.Type {
	if pt, ok := t.Underlying().(*types.Pointer); ok {
		return pt.Elem()
	}
	return t
}

// Func resolves a function or method: recv "" for package functions,
// otherwise the receiver's type name (pointer-ness is ignored).
func (p *Prog) Func(pkg, recv, name string) *ssa.Function {
	tp := p.Pkg(pkg)
	if tp == nil {
		return nil
	}
	if recv == "" {
		o, _ := tp.Scope().Lookup(name).(*types.Func)
		if o == nil {
			return nil
		}
		return p.SSA.FuncValue(o)
	}
	n := p.Named(pkg, recv)
	if n == nil {
		return nil
	}
	for _, t := range []types.Type{n, types.NewPointer(n)} {
		sel := p.SSA.MethodSets.MethodSet(t).Lookup(tp, name)
		if sel != nil {
			f := p.SSA.MethodValue(sel)
			if f != nil && f.Synthetic != "" {
				// wrapper: take the declared function
				if fo, ok := sel.Obj().(*types.Func); ok {
					if df := p.SSA.FuncValue(fo); df != nil {
						return df
					}
				}
			}
			return f
		}
	}
	return nil
}

// Const evaluates a package-level constant.
func (p *Prog) Const(pkg, name string) *types.Const {
	tp := p.Pkg(pkg)
	if tp == nil {
		return nil
	}
	c, _ := tp.Scope().Lookup(name).(*types.Const)
	return c
}

// Pos renders a position relative to the repository.
func (p *Prog) Pos(pos token.Pos) string {
	if !pos.IsValid() {
		return "-"
	}
	ps := p.Fset.Position(pos)
	f := strings.TrimPrefix(ps.Filename, p.Cfg.Dir+"/")
	return fmt.Sprintf("%s:%d", f, ps.Line)
}

// FuncName is a stable, human-readable function identity (no positions).
func FuncName(f *ssa.Function) string {
	if f == nil {
		return "<nil>"
	}
	s := f.String()
	s = strings.ReplaceAll(s, Root+"/", "")
	s = strings.ReplaceAll(s, Root+".", "")
	s = strings.ReplaceAll(s, Root, "tchannel")
	return s
}

// InAnalysed reports whether f belongs to an analysed package.
func (p *Prog) InAnalysed(f *ssa.Function) bool {
	if f == nil {
		return false
	}
	pk := f.Package()
	for pk == nil && f.Parent() != nil {
		f = f.Parent()
		pk = f.Package()
	}
	if pk == nil {
		if f.Origin() != nil {
			return p.InAnalysed(f.Origin())
		}
		// synthetic wrappers (bound-method closures, thunks, interface
		// method wrappers) belong to the package of the method they wrap
		if o := f.Object(); o != nil && o.Pkg() != nil {
			return strings.HasPrefix(o.Pkg().Path(), Root)
		}
		return false
	}
	return strings.HasPrefix(pk.Pkg.Path(), Root)
}

// CHA returns the class-hierarchy call graph.
func (p *Prog) CHA() *callgraph.Graph {
	p.chaOnce.Do(func() { p.chaG = cha.CallGraph(p.SSA) })
	return p.chaG
}

// CG returns the VTA call graph seeded by CHA.
func (p *Prog) CG() *callgraph.Graph {
	p.cgOnce.Do(func() {
		p.cg = vta.CallGraph(ssautil.AllFunctions(p.SSA), p.CHA())
	})
	return p.cg
}

// Callees returns the possible callees of a call instruction: the static
// callee when there is one, otherwise the VTA targets.
func (p *Prog) Callees(site ssa.CallInstruction) []*ssa.Function {
	if c := site.Common().StaticCallee(); c != nil {
		return unwrapSynthetic(c, 0)
	}
	n := p.CG().Nodes[site.Parent()]
	if n == nil {
		return nil
	}
	var out []*ssa.Function
	seen := map[*ssa.Function]bool{}
	for _, e := range n.Out {
		if e.Site == site && !seen[e.Callee.Func] {
			seen[e.Callee.Func] = true
			out = append(out, e.Callee.Func)
		}
	}
	// see through synthetic wrappers (bound-method closures, thunks, promoted-method wrappers)
	var exp []*ssa.Function
	for _, f := range out {
		exp = append(exp, unwrapSynthetic(f, 0)...)
	}
	out = exp
	sort.Slice(out, func(i, j int) bool { return out[i].String() < out[j].String() })
	return out
}

func unwrapSynthetic(f *ssa.Function, depth int) []*ssa.Function {
	if f.Synthetic == "" || f.Blocks == nil || depth > 3 {
		return []*ssa.Function{f}
	}
	if !strings.Contains(f.Synthetic, "wrapper") && !strings.Contains(f.Synthetic, "thunk") && !strings.Contains(f.Synthetic, "bound") {
		return []*ssa.Function{f}
	}
	var out []*ssa.Function
	for _, b := range f.Blocks {
		for _, i := range b.Instrs {
			if c, ok := i.(ssa.CallInstruction); ok {
				if t := c.Common().StaticCallee(); t != nil {
					out = append(out, unwrapSynthetic(t, depth+1)...)
				}
			}
		}
	}
	if len(out) == 0 {
		return []*ssa.Function{f}
	}
	return out
}

// FileOf returns the parsed file containing pos.
func (p *Prog) FileOf(pos token.Pos) *ast.File {
	name := p.Fset.Position(pos).Filename
	if f, ok := p.fileCache[name]; ok {
		return f
	}
	for _, pk := range p.Pkgs {
		for _, f := range pk.Syntax {
			if p.Fset.Position(f.Pos()).Filename == name {
				p.fileCache[name] = f
				return f
			}
		}
	}
	return nil
}

// TypesInfo returns the types.Info of the analysed package owning pos.
func (p *Prog) TypesInfo(pos token.Pos) *types.Info {
	name := p.Fset.Position(pos).Filename
	for _, pk := range p.Pkgs {
		for _, f := range pk.CompiledGoFiles {
			if f == name {
				return pk.TypesInfo
			}
		}
	}
	return nil
}

// IsGenerated reports whether pos lies in a file carrying the standard
// "Code generated ... DO NOT EDIT." marker.
func (p *Prog) IsGenerated(pos token.Pos) bool {
	f := p.FileOf(pos)
	if f == nil {
		return false
	}
	for _, cg := range f.Comments {
		if cg.Pos() > f.Package {
			break
		}
		for _, c := range cg.List {
			if (strings.Contains(c.Text, "Code generated") || strings.Contains(c.Text, "generated by")) && strings.Contains(c.Text, "DO NOT EDIT") {
				return true
			}
		}
	}
	return false
}
